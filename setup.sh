#!/bin/sh
# Offline setup: nothing to build - specs are interpreted by TLC, the harness is plain Python run by /venv/bin/python.
set -e
cd "$(dirname "$0")"
command -v java >/dev/null
test -f /opt/veriftools/tla/tla2tools.jar
/venv/bin/python -c "import sys; sys.path.insert(0,'/repo'); import geoh5py, h5py, numpy"
mkdir -p evidence replays
chmod +x check
echo setup ok
