#!/venv/bin/python
"""Generate /verif/MANIFEST.json from the table below (single source of truth for the interface)."""
import json
from pathlib import Path

VERIF = Path(__file__).resolve().parent.parent
ALL = [f"C{i:02d}" for i in range(1, 21)]

CHECKS = {
    "C16": dict(
        engine="spec/merge",
        category="model_checking",
        technique="TLA+ spec Merge.tla (TLC exhaustive over input lists) + spec-to-code replay of every enumerated case through PointsMerger/CurveMerger/SurfaceMerger",
        text="TLC enumerates every list of 2-3 same-class inputs within the cfg bounds (vertex counts, all injective cells incl. "
             "unordered and not reaching the last vertex, every subset of data keys), checks the spec-level invariants on the "
             "specified Merged() and exports each case; the harness replays the cases through the real mergers and compares "
             "vertices, per-cell coordinates, per-key data arrays and input immutability. Right level: the property is a pure "
             "input/output relation whose failures depend on input shape, which small exhaustive enumeration reaches.",
        design_ref="DESIGN.md section 5 (C16)",
        note="Small-scope bounds (cfg files); float data only; the quick tier replays a seeded sample of the TLC-enumerated cases. "
             "Trusted: TLC, the token->array mapping in harness/checks/C16.py.",
    ),
}

CORE_NOTE = ("Small-scope bounds (slot counts, 2 names, 2 value tokens, depth 5-7; cfg files in spec/core); entity classes are a "
             "refinement parameter rotated over 6 group and 8 object classes; float data; GC schedule driven by the harness; "
             "trusted: TLC, h5py, harness/core_replay.py + harness/h5snap.py. Quick replays a seeded sample of <=1500 paths of the "
             "path cover, thorough the whole transition cover of a larger configuration.")
CORE_TECH = ("TLA+ spec Geoh5Core.tla (live tree / weak-ref registries / HDF5 node+link graph / handle mode; GC, purge, close, "
             "re-open as separate actions) model-checked with TLC (Ideal design: all invariants; as-built: named deviation), "
             "state graph exported and a transition cover replayed through the public API with full state comparison "
             "(live projection + independent raw-h5py snapshot) after every action")


def core(pid, text):
    return dict(engine="spec/core", category="model_checking", technique=CORE_TECH, text=text,
                design_ref="DESIGN.md section 2", note=CORE_NOTE)


CHECKS.update({
    "C01": core("C01", "Invariant ReopenEqualsLive (what a reader loads from the file = the live tree) is model-checked over every "
                "interleaving of create/rename/assign/move/copy/remove/close/open/GC/purge within the bounds; the implementation is "
                "held to the specification step by step (outcome, live projection, raw file snapshot) and, independently, the tree "
                "before every close is compared with the tree a fresh Workspace loads."),
    "C02": core("C02", "History-dependent layout invariants (links point to nodes, one parent, reachability, property groups list "
                "children) are model-checked; every closed file produced by the replayed behaviours is validated with an "
                "independent raw-h5py checker (containers, ID attributes, Type links by HDF5 object address, hard links, single "
                "parent, reachability from Root, property-group membership). Unreachable nodes predicted by the named as-built "
                "deviation are reported as the recorded finding, anything else as a violation."),
    "C05": core("C05", "Both removal entry points on trees with data in 0-2 property groups, objects with children and nested groups, "
                "with refusal (allow_delete off) frames, GC/purge placements and follow-up operations; after every step flat "
                "containers, links, property-group blocks, children lists and registries must equal the specification."),
    "C06": core("C06", "Explicit identifiers colliding with live entities of any kind must be refused with live tree, registries and "
                "file unchanged; re-creation after removal and same-workspace copies get fresh identifiers; registry/live agreement "
                "(RegistryMatchesMemory) is model-checked and compared on the implementation after every step."),
    "C09": core("C09", "Action property Footprint (every action changes only nodes in its footprint) is model-checked; on the "
                "implementation per-node content and link digests, every type node and the header are compared before/after every "
                "replayed action against the footprint the specification computed; open/close without mutation must not change any digest."),
    "C11": core("C11", "Close in its three forms (close(), with-exit, exception escaping the block) at every reachable state, calls on "
                "the closed workspace (must raise Geoh5FileClosedError), re-open; after every close the count of open HDF5 "
                "file/group/dataset/attribute identifiers must be 0, the file must be valid and equal the specification (all completed "
                "operations present)."),
    "C12": core("C12", "Copy of data, objects and groups (deep/shallow, any attached target) is specified as an isomorphic subtree with "
                "fresh slots and remapped property groups and an unchanged source; followed by edits of copy and source and re-opens, "
                "with the full state compared after every step (so aliasing shows up as a divergence of the source)."),
})

CHECKS["C15"] = dict(
    engine="spec/uijson", category="model_checking",
    technique="TLA+ spec UiJsonValidate.tla: declared layer (RequiresValue from the documented groupOptional > dependency > optional "
              "hierarchy; Accepts from the constraints a form declares) vs operational layer shaped like the code (rule table, "
              "validator chain, promotion, one_of bookkeeping, enforcer pool, Parameter.value, UIJson.validate) as a bounded state "
              "machine over one validator/parameter/form object; TLC checks verdict = Accepts(current form, value) and "
              "rejected-leaves-unchanged on every transition; every exported call and a path cover of the call-sequence graphs are "
              "replayed on real InputFile / InputValidation / Parameter / FormParameter / EnforcerPool / UIJson objects",
    text="Exhaustive within the bounds: all 180 canonical switch combinations x 11 form kinds x {None, good, bad} x 5 entry points, "
         "all value kinds per form kind, all call sequences of the path cover up to depth 3 (quick) / 4-5 (thorough) on both APIs; "
         "every exported call is replayed (no sampling). An answer is attributed to a recorded finding only if it equals exactly the "
         "prediction of that named deviation of the spec.",
    design_ref="DESIGN.md section 6 (C15); notes/C15.md",
    note="Verdicts only (any exception = rejected). optional:false, list/multiSelect values, property-group uuids on plain data forms "
         "and the new API's missing optional hierarchy are documented ambiguities outside the model. Trusted: TLC, harness/uijson_impl.py.",
)

NOT_YET = "check not built yet in this round (planned: see DESIGN.md section 7)"


def main():
    checks = []
    for pid in ALL:
        c = CHECKS.get(pid)
        if not c:
            continue
        checks.append({
            "property_id": pid,
            "quick_cmd": f"./check {pid} --tier quick",
            "thorough_cmd": f"./check {pid} --tier thorough",
            "evidence_file": f"/verif/evidence/{pid}.json",
            "replay_cmd_template": f"./check {pid} --replay {{path}}",
            "engine": c["engine"],
            "level_claimed": {"category": c["category"], "text": c["text"], "design_ref": c["design_ref"]},
            "level_note": c["note"],
            "technique": c["technique"],
        })
    engines = {}
    for pid, c in CHECKS.items():
        engines.setdefault(c["engine"], []).append(pid)
    doc = {
        "version": 1,
        "setup_cmd": "cd /verif && ./setup.sh",
        "hooks": {
            "guard": "GEOH5PY_VERIF",
            "enable": "no source hooks: the harness observes geoh5py through its public API, raw h5py snapshots and "
                      "driver-side wrappers installed at run time when GEOH5PY_VERIF=1 (set by ./check)",
            "baseline_off_cmd": "cd /repo && env -u GEOH5PY_VERIF /venv/bin/python -m pytest -ra -q -p no:cacheprovider --timeout=900 --continue-on-collection-errors",
            "source_commits": [],
            "add_only": True,
        },
        "engines": [{"name": k.split("/")[-1], "path": f"/verif/{k}", "serves_properties": sorted(v),
                     "kind_free_text": "TLA+ specification checked with TLC, bound to geoh5py by replay (harness/)"}
                    for k, v in sorted(engines.items())],
        "checks": checks,
        "notes": "Every check = TLC on an explicit TLA+ spec + conformance replay into /repo's working tree. "
                 "known_findings.json lists genuine defects that could not be repaired as fix: commits.",
        "not_applicable": [{"property_id": p, "reason": NOT_YET} for p in ALL if p not in CHECKS],
    }
    (VERIF / "MANIFEST.json").write_text(json.dumps(doc, indent=1) + "\n")
    print("checks:", [c["property_id"] for c in checks])


if __name__ == "__main__":
    main()
