#!/venv/bin/python
"""Generate /verif/MANIFEST.json from the table below (single source of truth for the interface)."""
import json
from pathlib import Path

VERIF = Path(__file__).resolve().parent.parent
ALL = [f"C{i:02d}" for i in range(1, 21)]

CHECKS = {
    "C16": dict(
        engine="spec/merge",
        category="model_checking",
        technique="TLA+ spec Merge.tla (TLC exhaustive over input lists) + spec-to-code replay of every enumerated case through PointsMerger/CurveMerger/SurfaceMerger",
        text="TLC enumerates every list of 2-3 same-class inputs within the cfg bounds (vertex counts, all injective cells incl. "
             "unordered and not reaching the last vertex, every subset of data keys), checks the spec-level invariants on the "
             "specified Merged() and exports each case; the harness replays the cases through the real mergers and compares "
             "vertices, per-cell coordinates, per-key data arrays and input immutability. Right level: the property is a pure "
             "input/output relation whose failures depend on input shape, which small exhaustive enumeration reaches.",
        design_ref="DESIGN.md section 5 (C16)",
        note="Small-scope bounds (cfg files); float data only; the quick tier replays a seeded sample of the TLC-enumerated cases. "
             "Trusted: TLC, the token->array mapping in harness/checks/C16.py.",
    ),
}

CORE_NOTE = ("Small-scope bounds (slot counts, 2 names, 2 value tokens, depth 5-7; cfg files in spec/core); entity classes are a "
             "refinement parameter rotated over 6 group and 8 object classes; float data; GC schedule driven by the harness; "
             "trusted: TLC, h5py, harness/core_replay.py + harness/h5snap.py. Quick replays a feature-prioritised seeded sample of <=1500 paths "
             "of the transition cover; thorough up to 12000 paths per configuration of larger configurations plus random simulation "
             "(tlc -simulate) with 3 groups / 2 objects / 4 data / 2 property groups and behaviours of 30 steps.")
CORE_TECH = ("TLA+ spec Geoh5Core.tla (live tree / weak-ref registries / HDF5 node+link graph / handle mode; GC, purge, close, "
             "re-open as separate actions) model-checked with TLC (Ideal design: all invariants; as-built: named deviation), "
             "state graph exported and a transition cover replayed through the public API with full state comparison "
             "(live projection + independent raw-h5py snapshot) after every action")


def core(pid, text):
    return dict(engine="spec/core", category="model_checking", technique=CORE_TECH, text=text,
                design_ref="DESIGN.md section 2", note=CORE_NOTE)


CHECKS.update({
    "C01": core("C01", "Invariant ReopenEqualsLive (what a reader loads from the file = the live tree) is model-checked over every "
                "interleaving of create/rename/assign/move/copy/remove/close/open/GC/purge within the bounds; the implementation is "
                "held to the specification step by step (outcome, live projection, raw file snapshot) and, independently, the tree "
                "before every close is compared with the tree a fresh Workspace loads."),
    "C02": core("C02", "History-dependent layout invariants (links point to nodes, one parent, reachability, property groups list "
                "children) are model-checked; every closed file produced by the replayed behaviours is validated with an "
                "independent raw-h5py checker (containers, ID attributes, Type links by HDF5 object address, hard links, single "
                "parent, reachability from Root, property-group membership). Unreachable nodes predicted by the named as-built "
                "deviation are reported as the recorded finding, anything else as a violation."),
    "C05": core("C05", "Both removal entry points on trees with data in 0-2 property groups, objects with children and nested groups, "
                "with refusal (allow_delete off) frames, GC/purge placements and follow-up operations; after every step flat "
                "containers, links, property-group blocks, children lists and registries must equal the specification."),
    "C06": core("C06", "Explicit identifiers colliding with live entities of any kind must be refused with live tree, registries and "
                "file unchanged; re-creation after removal and same-workspace copies get fresh identifiers; registry/live agreement "
                "(RegistryMatchesMemory) is model-checked and compared on the implementation after every step."),
    "C09": core("C09", "Action property Footprint (every action changes only nodes in its footprint) is model-checked; on the "
                "implementation per-node content and link digests, every type node and the header are compared before/after every "
                "replayed action against the footprint the specification computed; open/close without mutation must not change any digest."),
    "C11": core("C11", "Close in its three forms (close(), with-exit, exception escaping the block) at every reachable state, calls on "
                "the closed workspace (must raise Geoh5FileClosedError), re-open; after every close the count of open HDF5 "
                "file/group/dataset/attribute identifiers must be 0, the file must be valid and equal the specification (all completed "
                "operations present)."),
    "C12": core("C12", "Copy of data, objects and groups (deep/shallow, any attached target) is specified as an isomorphic subtree with "
                "fresh slots and remapped property groups and an unchanged source; followed by edits of copy and source and re-opens, "
                "with the full state compared after every step (so aliasing shows up as a divergence of the source)."),
})

CHECKS["C15"] = dict(
    engine="spec/uijson", category="model_checking",
    technique="TLA+ spec UiJsonValidate.tla: declared layer (RequiresValue from the documented groupOptional > dependency > optional "
              "hierarchy; Accepts = type, choice list, well-formed identifier, membership of the parent object / parent group / "
              "workspace, property-group type, item-wise rule for multiSelect lists; AcceptsNew for the rules a Parameter declares) "
              "vs operational layer shaped like the code (rule table, validator chain, promotion incl. lists, one_of bookkeeping, "
              "enforcer pool, Parameter.value, form members, UIJson.validate) as a bounded state machine over one validator / "
              "parameter / form object, five targets; TLC checks verdict = Accepts(current form, value) and "
              "rejected-leaves-unchanged on every transition plus the hierarchy laws; every exported call and a path cover of the "
              "call-sequence graphs (for every subset of seven named deviations) are replayed on real InputFile / InputValidation / "
              "Parameter / FormParameter / EnforcerPool / UIJson objects over a real workspace",
    text="Exhaustive within the bounds: 340 canonical switch combinations x 13 form kinds x {None, good, bad} x 5 entry points; "
         "every value kind per form kind incl. empty string, lists, identifiers of members / strangers / nothing / another workspace; "
         "the same calls after another multiSelect ui.json was loaded in the process; 14 parameter kinds x 3 wrappers; member "
         "assignments of a FormParameter; all call sequences of the path cover up to depth 3 (quick) / 4-5 (thorough) on both APIs; "
         "every exported call is replayed (no sampling). An answer is attributed to a recorded finding only if it equals exactly the "
         "prediction of that named deviation of the spec.",
    design_ref="DESIGN.md section 6 (C15); notes/C15.md",
    note="Verdicts only (any exception = rejected). optional:false, multiSelect data / group forms (only the object selector is enumerated), property-group uuids on plain data forms "
         "and the new API's missing optional hierarchy are documented ambiguities outside the model. Trusted: TLC, harness/uijson_impl.py.",
)

CHECKS["C08"] = dict(
    engine="spec/values", category="model_checking",
    technique="TLA+ function-style specification of the value codec over value classes (spec/values/ValueCodec.tla): TLC enumerates "
              "every request (family x data kind x operation x source dtype/form x <=2 element classes x length relation; value-map "
              "operation shapes incl. in-place edit + assign back; host geometry class x session (creating / re-opened before the "
              "geometry was touched) for the length rule; concatenated drillhole float channels under scenarios that remove / append / "
              "overwrite other holes between write and first read), checks RoundTrip, UnrepresentableRejected, NaNIsFloatNDV, "
              "IntGapIsIntNDV, BooleansAreBits, KeyZeroIsUnknown, MapWritten, LengthRule, TooLongRejected, ConcatGapsStayGaps on the "
              "specified outcome and exports it; the harness instantiates each class with boundary and seeded random members and "
              "replays every request through the public API on real files (up to three sessions per file), comparing verdict, live "
              "value, raw HDF5 datasets and the value after re-open; six named as-built deviations serve as negative controls and as "
              "exact signatures of known defects",
    text="Model checking of the class abstraction (exhaustive over the class table of the cfg) + replay of concrete "
         "representatives of every class into the implementation; a wrong answer is attributed to a recorded finding only when "
         "it equals the prediction of the named deviation.",
    design_ref="DESIGN.md section 6 (C08); notes/C08.md",
    note="Not a proof over IEEE-754/Unicode: behaviour is assumed uniform inside a value class; members are boundaries plus seeded "
         "samples; arrays carry at most two classes. Requests whose verdict C08 does not decide (representable values the code "
         "refuses) are accepted either way, with the round trip required when accepted.",
)
CHECKS["C13"] = dict(
    engine="spec/select", category="model_checking",
    technique="TLA+ specs ExtentSelect.tla / ExtentGrid.tla / ExtentBox.tla (exact integer-rational geometry) define InBox, Mask and "
              "CopyFromExtent for Points, Curve, Surface, Drillhole, ContainerGroup, Grid2D, BlockModel, Octree, "
              "utils.mask_by_extent and Data.mask_by_extent; TLC enumerates every (object, box) configuration of each cfg, checks the "
              "selection invariants (incl. StoredEqualsLive) and named-deviation negative controls and prints the expected mask/copy per "
              "case; the harness replays every case through mask_by_extent (object, utils, Data) and one copy_from_extent per distinct "
              "selection, and compares masks positionally / by cell-centre coordinates and copies - both the live entity and the copy "
              "as stored in the file, read back with Workspace.fetch_values / fetch_array_attribute - as coordinate->value multisets",
    text="Exhaustive within the bounds of the cfg files: every vertex set (<=3-4 vertices on a 3x3x2 lattice), every cell set, "
         "every half-unit box (degenerate, face-on-point, touching, disjoint), both inverse flags, 2-D and 3-D extents; grids up to "
         "3x3 / 2x2x2, 5 octree layouts, 13 exact rotation/dip angles. The implementation is held to the printed outcome of every "
         "enumerated case (masks positionally / by cell-centre coordinates, copies as coordinate->value multisets).",
    design_ref="DESIGN.md section 5 (C13); notes/C13.md",
    note="Small-scope and exact-rational: off-lattice coordinates, irrational angles and faces closer than 1/10 unit to a rotated "
         "centre are not decided; float data only; None-vs-empty and inverse-on-miss follow the code where the property allows both; "
         "the stored view is read within the same session (no close/re-open); stored grid attributes are not compared.",
)
CHECKS["C14"] = dict(
    engine="spec/uijson", category="model_checking",
    technique="TLA+ state machine UiJsonRoundTrip.tla of InputFile (Load, SetValue, Assign through the data setter, Write, Read, "
              "Demote, Promote, and the environment action Edit that changes the project between promotions) over token-valued ui.json "
              "files of 1-3 template forms with optional / enabled / isValue / property / group / groupOptional / dependency / "
              "dependencyType / parent members (incl. group+dependency on one form), the update_enabled option on and off, and "
              "property groups on three different objects; TLC checks RoundTripData, RoundTripEnabled, ReadRefused, InStep, "
              "PromoteDemote on the ideal specification and Explained on the as-built specification with seven named deviations (each "
              "with a negative-control cfg); a stratified path cover of the exported as-built state graph is replayed through "
              "geoh5py.ui_json.InputFile on real workspace files; data (entities by class, uid and name), ui_json members and the JSON "
              "text are compared with the TLC state after every action",
    text="Exhaustive over every form kind x 29 raw value kinds x required/enabled/disabled for single-parameter files, all "
         "pairs/triples of a form catalogue with parent, dependency and group relations, <=2 SetValue (incl. texts that look like "
         "None/inf/uuid/.geoh5) and <=2 writes; conformance by replay of a path cover (quick: stratified sample, thorough: all).",
    design_ref="DESIGN.md section 6 (C14); notes/C14.md",
    note="Values are classes with seeded representatives; validation verdicts belong to C15; NaN, in-memory workspaces and "
         "integers beyond 64 bits excluded; the intake of the raw dictionary is not charged. Seven genuine deviations are recorded "
         "as known findings with their own signatures.",
)
CHECKS["C17"] = dict(
    engine="spec/derived", category="model_checking",
    technique="TLA+ specs GridIndex / OctreeRefine (+ Recount phase) / CurveParts (+ Edit phase) (function style: TLC enumerates grid "
              "shapes, delimiters, origins, rational rotations/dips, power-of-two octree dimensions and later changes of one "
              "dimension, part labelings and removals of cells/vertices; exact rational arithmetic) and the state machines "
              "CentroidCache (every geometry setter x read, in a writable workspace and in a file re-opened read-only) and CurveStore "
              "(live view and stored Cells dataset of a curve under SetParts / RemoveCells / reads / close-and-reopen: stored = live "
              "after every action, a re-open returns the curve that was closed) + spec-to-code replay of every enumerated case and of a "
              "transition cover of every exported state graph through BlockModel/Grid2D/Octree/DrapeModel/Curve",
    text="TLC checks the format's index formulas, exact tiling of the base grid, #centres = #cells with and without origin, "
         "segments-join-consecutive-same-part and parts-equal-connected-components on the specified results and prints them as exact "
         "rationals; the harness rebuilds every case with geoh5py and compares centroids (1e-9), n_cells, octree_cells, cells, parts; "
         "all interleavings of geometry setters and reads over finite domains are replayed on real objects (cache coherence).",
    design_ref="DESIGN.md section 5 (C17); notes/C17.md",
    note="Small-scope bounds (<=3 cells per axis, 12 rational angles, octree dimensions <=16, curves <=7 vertices / 3 labels); "
         "in-memory workspaces; first block delimiter 0 as the format asks. Trusted: TLC, Rat.tla arithmetic, the rational->float "
         "conversion in C17.py.",
)
CHECKS["C18"] = dict(
    engine="spec/desurvey", category="model_checking",
    technique="TLA+ specifications over exact rationals (SurveyPath, Desurvey, DesurveyCache, DrillholeLog) model-checked by TLC; "
              "every enumerated survey table and every history of setters, queries and add_data calls within the bounds is replayed "
              "through Drillhole.desurvey / add_data and compared with the positions and states TLC computed (live and re-opened)",
    text="Exhaustive within the bounds for desurvey (all tables of <=3 rows over integer depths and 5-14 rational directions, "
         "half-integer query grid) and for setter/query histories of length 3 (4); add_data histories: 2-call histories with "
         "text/float values and two tolerances, 3-set histories grouped into 1-3 calls, 2-set histories with the call's tolerance "
         "given as argument or as per-set keys and with a property group, and histories with one Drillhole.copy() - exhaustively in "
         "the thorough tier, by shape-prioritised seeded samples in quick (every depth->interval->depth history, interval-then-depth "
         "and depth re-use inside one call, differing own tolerances in one call, property-group calls that re-sort, and depth data "
         "added to a copy are always present).",
    design_ref="DESIGN.md section 5 (C18); notes/C18.md",
    note="Decides C18 only for directions with rational components, integer station depths, grid query depths and a small tick set "
         "with tolerances 0.001/0.01; arbitrary real azimuth/dip and tolerance-boundary cases are residue. 'Last direction' is read "
         "as the last leg's.",
)

CHECKS["C07"] = dict(
    engine="spec/align", category="model_checking",
    technique="TLA+ state machine VertexCellAlign.tla of one Points/Curve/Surface object (AddData, SetValues, RemoveVertices / "
              "RemoveCells with every index sequence and clear_cache, masked object copies by vertex and by cell mask, masked "
              "Data.copy onto a twin object, copy(clear_cache=True), Curve.parts reads, Reopen; removal arithmetic written line by "
              "line after cell_object.py) with token-keyed ghost variables; TLC checks the alignment invariants and exports the state "
              "graph with the predictions of four named as-built deviations; a tour cover of every transition is replayed on real "
              ".geoh5 files (source dtypes, index containers and data kinds rotating) and outcome, vertices, cells and all children "
              "values are compared after every action (live and from a freshly opened workspace)",
    text="Exhaustive over the bounded state graphs of spec/align/*.cfg (TLC); every exported transition replayed into geoh5py at "
         "least once (quick: all; thorough: all but seeded path samples of the three largest graphs). A failing operation is "
         "required to leave a mutually consistent state, not the pre-state.",
    design_ref="DESIGN.md section 4; notes/C07.md",
    note="Bounds n <= 4 vertices, <= 3 cells, 2 data names, index sequences <= 3, numeric data kinds (float, integer, boolean); "
         "TEXT data, negative indices and growing vertices are not modelled. Trusted: TLC, harness/checks/C07.py, align_cover.py.",
)
CHECKS["C19"] = dict(
    engine="spec/reader", category="model_checking",
    technique="TLA+ spec ReaderFaults.tla: geoh5 file at the item level (every attribute, link and dataset of project, containers, "
              "entities, property-group blocks and types), build histories -> DeleteItem(i) -> Open with a model of the reader; TLC "
              "checks the item model (every item classified from the format documents, Describes/Bystanders sane) and PropertyHolds; "
              "every (file, item) is exported and replayed: file built with the API, items discovered with raw h5py and matched both "
              "ways, item deleted, Workspace(path, mode='r'), bystanders compared with the intact projection",
    text="Model-driven exhaustive single-fault enumeration: for every file of the bounded build histories and every single "
         "attribute / link / dataset of it, the outcome of opening the damaged file must be inside the set the property allows "
         "(optional => opens and every non-described entity unchanged; mandatory => error or only the described entities and their "
         "descendants affected); checked on the reader model by TLC and on geoh5py by replay of every enumerated case.",
    design_ref="DESIGN.md section 6 (C19); notes/C19.md",
    note="Small files (<= 3 groups, 2 objects, 3 data, 1 property group; 5 entity classes, 5 data kinds), single removals only, "
         "mode 'r'; classification optional/mandatory as written in the spec from the format documents; content = public getters.",
)

CHECKS["C10"] = dict(
    engine="spec/readonly", category="model_checking",
    technique="TLA+ state machine ReadOnly.tla (handle mode, file version token, live token with a 'refused-only' stage, fetch "
              "context, repeat token; Read/Write/Probe over 42 operation classes, Repeat, 5 helpers, open/re-open/close/save_as/fetch "
              "actions) checked by TLC (9 action properties, 8 negative controls, 3 as-built graphs); the exported state graph is "
              "replayed through geoh5py with the operation classes bound to all reflectively discovered public entry points "
              "(classified by their immediate or close-deferred effect in r+); every mutating setter is repeated verbatim, every "
              "mutating method is followed by assignments on the entities it was about; SHA-256 of the file, handle mode, every "
              "opened HDF5 handle and raise/no-raise are compared with the generated transitions after every step",
    text="Every discovered entry point (about 2200 quick / 2800 thorough, about 750 of them mutating) is exercised in mode r at least "
         "once and in depth-3/4 sequences drawn from the TLC graph; after every step the observed (outcome, handle mode, file "
         "changed, writable handle opened) must be a transition TLC generated. Helpers (InputFile, path2workspace, "
         "monitored_directory_copy, fetch_active_workspace) must leave the source bytes and the handle mode unchanged.",
    design_ref="DESIGN.md section 7 (C10); notes/C10.md",
    note="h5repack is not installed: the C10 workers put a functional stand-in (h5py copy that logs invocations) on their PATH so that "
         "the repack branch of close() is observable. Entry points that cannot be called generically are listed in the evidence. "
         "In-memory state after a refused write is not compared (documented observation).",
)

CHECKS["C04"] = dict(
    engine="spec/concat", category="model_checking",
    technique="TLA+ state machine DrillholeConcat.tla of the Concatenator (live python objects + attribute records + per-label "
              "concatenated array and index table, written line by line after delete_index_data / fetch_start_index / "
              "update_array_attribute / remove_entity), checked by TLC for tiling, ownership, one record per entity, Property-key "
              "consistency, read-back, table view and the action property Isolation; the state graph for the deviations the "
              "implementation still shows (learned by a probe) is exported and a path cover is replayed on a real DrillholeGroup in a "
              "real geoh5 file, comparing after every action the API reads, the raw Concatenated Data datasets (h5py), depth_table "
              "and, after re-open, the attribute records",
    text="All behaviours of the specification within the bounds (2-3 holes, 2 shared names, depth and interval tables, lengths 0-3, "
         "4-5 actions or a populated 3-hole scene + 3-4 actions, attribute encodings 2.0 and 2.1); implementation bound to it by "
         "replaying a transition cover (quick: seeded sample of the cover of the larger graphs). Row order and slice position are not "
         "compared; tiling and per-owner content are.",
    design_ref="DESIGN.md section 3; notes/C04.md",
    note="One depth table and one interval table per hole with the default names; DEPTH/FROM/TO never rewritten; a hole slot is used "
         "once; hole order in depth_table compared as a set of per-hole blocks. Two open findings (rename keeps the old label; "
         "table columns looked up by label) are re-observed with their own signatures; five were fixed in /repo.",
)

CHECKS["C03"] = dict(
    engine="spec/writethrough", category="model_checking",
    technique="TLA+ spec WriteThrough.tla: one stored entity seen through K (1-3) attribute slots with 3 value tokens each; actions "
              "Set, SetSame, SetInvalid, Close, Open (fresh workspace and fetch) and Resume (same Workspace instance re-opened, entity "
              "object kept); TLC checks WriteThrough, ReaderSeesLastAssigned, Frame, SessionKeepsFile and the refusal / re-open "
              "properties on the complete Ideal graph and on all action orders to depth 4, and that each of the six named deviations "
              "(forgets to persist, persists before storing, clobbers another attribute, stale live cache, destroys the stored value, "
              "close reverts to the loaded twin) violates them; reflective spec-to-code replay of the exported transition cover",
    text="The harness discovers by reflection every assignable attribute of every concrete object / group / data class (plain and "
         "concatenated drillhole storage), the three type classes, the value objects of data types (ColorMap, ReferenceValueMap), "
         "PropertyGroup and the project header (about 1,035 pairs), derives 3 valid values per attribute (near-equal neighbours for "
         "floats, same-length renamed colour maps, strings longer than stored ones, None where documented), and replays the exported "
         "transition cover, a share of all orders and a close-resume-assign-close behaviour on entities that were created, closed and "
         "re-opened; after every action the live getters, every other scalar attribute, a fresh Workspace on a flushed copy "
         "(write-back storage: on the closed file) and the raw HDF5 content are matched against the successors TLC printed in the "
         "as-built graph.",
    design_ref="DESIGN.md section 7 (C03), 11.3; notes/C03.md",
    note="Small scope: K = 2 (quick) / 3 (thorough) attributes of one entity, 3 values each, one small fixture per class; pairs not "
         "exercised are listed with a reason in the evidence; concatenated storage is C04. spec/writethrough/exercised_pairs.json "
         "is the vacuity baseline (a pair that can no longer be exercised is exit 2). Trusted: TLC, h5py, the value domain table.",
)
CHECKS["C20"] = dict(
    engine="spec/survey", category="model_checking",
    technique="TLA+ state machine survey/LinkedSurveys.tla (LinkFrom / Edit / Copy / CopyGroup / Reopen over two partner entities - "
              "optionally a second receiver and transmitter object for take-overs -, their live and stored metadata, partner pointers "
              "and all copies) model-checked by TLC per linked class pair (10 pair configurations of 9 class families, one large-loop "
              "pair with a transmitter loop no receiver refers to; extra configurations for re-linking, for a property group that holds "
              "the linking data and for copying the group that holds the pair) with 15 invariants / action properties; the exported "
              "state graph is replayed edge-complete on real survey objects in .geoh5 files, comparing live metadata, raw h5py "
              "metadata, partner getters, geometry and per-station loop references of every entity after every newly covered action "
              "(already verified prefixes are re-run without calling partner getters so that edits meet cold caches), plus the "
              "file-layout oracle of harness/h5snap.py after copies and on the closed files where property groups are involved; ten "
              "named as-built deviations with negative-control configurations",
    text="Exhaustive over all histories within the cfg bounds (quick: <= 4 actions, <= 2 copies, <= 2 edits, 1 re-open; thorough adds "
         "all 15 setters on every pair with rejected values, boolean masks, two masks, cross-workspace extent copies, DC/MT depth 5); "
         "every exported transition replayed against the implementation.",
    design_ref="DESIGN.md section 6 (C20), 11.3; notes/C20.md",
    note="Bounded: 4 stations / 2 loops, 2 values per setter, one setter group per history; property groups in the EM metadata, "
         "re-linking to another partner and ill-formed surveys (no id data) are outside the model; value-map labels of copied id data "
         "are not compared.",
)

NOT_YET = "check not built yet in this round (planned: see DESIGN.md section 7)"


def main():
    checks = []
    for pid in ALL:
        c = CHECKS.get(pid)
        if not c:
            continue
        checks.append({
            "property_id": pid,
            "quick_cmd": f"./check {pid} --tier quick",
            "thorough_cmd": f"./check {pid} --tier thorough",
            "evidence_file": f"/verif/evidence/{pid}.json",
            "replay_cmd_template": f"./check {pid} --replay {{path}}",
            "engine": c["engine"],
            "level_claimed": {"category": c["category"], "text": c["text"], "design_ref": c["design_ref"]},
            "level_note": c["note"],
            "technique": c["technique"],
        })
    engines = {}
    for pid, c in CHECKS.items():
        engines.setdefault(c["engine"], []).append(pid)
    doc = {
        "version": 1,
        "setup_cmd": "cd /verif && ./setup.sh",
        "hooks": {
            "guard": "GEOH5PY_VERIF",
            "enable": "no source hooks: the harness observes geoh5py through its public API, raw h5py snapshots and "
                      "driver-side wrappers installed at run time when GEOH5PY_VERIF=1 (set by ./check)",
            "baseline_off_cmd": "cd /repo && env -u GEOH5PY_VERIF /venv/bin/python -m pytest -ra -q -p no:cacheprovider --timeout=900 --continue-on-collection-errors",
            "source_commits": [],
            "add_only": True,
        },
        "engines": [{"name": k.split("/")[-1], "path": f"/verif/{k}", "serves_properties": sorted(v),
                     "kind_free_text": "TLA+ specification checked with TLC, bound to geoh5py by replay (harness/)"}
                    for k, v in sorted(engines.items())],
        "checks": checks,
        "notes": "Every check = TLC on an explicit TLA+ spec + conformance replay into /repo's working tree. "
                 "known_findings.json lists genuine defects that could not be repaired as fix: commits.",
        "not_applicable": [{"property_id": p, "reason": NOT_YET} for p in ALL if p not in CHECKS],
    }
    (VERIF / "MANIFEST.json").write_text(json.dumps(doc, indent=1) + "\n")
    print("checks:", [c["property_id"] for c in checks])


if __name__ == "__main__":
    main()
