#!/venv/bin/python
"""Generate /verif/MANIFEST.json from the table below (single source of truth for the interface)."""
import json
from pathlib import Path

VERIF = Path(__file__).resolve().parent.parent
ALL = [f"C{i:02d}" for i in range(1, 21)]

CHECKS = {
    "C16": dict(
        engine="spec/merge",
        category="model_checking",
        technique="TLA+ spec Merge.tla (TLC exhaustive over input lists) + spec-to-code replay of every enumerated case through PointsMerger/CurveMerger/SurfaceMerger",
        text="TLC enumerates every list of 2-3 same-class inputs within the cfg bounds (vertex counts, all injective cells incl. "
             "unordered and not reaching the last vertex, every subset of data keys), checks the spec-level invariants on the "
             "specified Merged() and exports each case; the harness replays the cases through the real mergers and compares "
             "vertices, per-cell coordinates, per-key data arrays and input immutability. Right level: the property is a pure "
             "input/output relation whose failures depend on input shape, which small exhaustive enumeration reaches.",
        design_ref="DESIGN.md section 5 (C16)",
        note="Small-scope bounds (cfg files); float data only; the quick tier replays a seeded sample of the TLC-enumerated cases. "
             "Trusted: TLC, the token->array mapping in harness/checks/C16.py.",
    ),
}

NOT_YET = "check not built yet in this round (planned: see DESIGN.md section 7)"


def main():
    checks = []
    for pid in ALL:
        c = CHECKS.get(pid)
        if not c:
            continue
        checks.append({
            "property_id": pid,
            "quick_cmd": f"./check {pid} --tier quick",
            "thorough_cmd": f"./check {pid} --tier thorough",
            "evidence_file": f"/verif/evidence/{pid}.json",
            "replay_cmd_template": f"./check {pid} --replay {{path}}",
            "engine": c["engine"],
            "level_claimed": {"category": c["category"], "text": c["text"], "design_ref": c["design_ref"]},
            "level_note": c["note"],
            "technique": c["technique"],
        })
    engines = {}
    for pid, c in CHECKS.items():
        engines.setdefault(c["engine"], []).append(pid)
    doc = {
        "version": 1,
        "setup_cmd": "cd /verif && ./setup.sh",
        "hooks": {
            "guard": "GEOH5PY_VERIF",
            "enable": "no source hooks: the harness observes geoh5py through its public API, raw h5py snapshots and "
                      "driver-side wrappers installed at run time when GEOH5PY_VERIF=1 (set by ./check)",
            "baseline_off_cmd": "cd /repo && env -u GEOH5PY_VERIF /venv/bin/python -m pytest -ra -q -p no:cacheprovider --timeout=900 --continue-on-collection-errors",
            "source_commits": [],
            "add_only": True,
        },
        "engines": [{"name": k.split("/")[-1], "path": f"/verif/{k}", "serves_properties": sorted(v),
                     "kind_free_text": "TLA+ specification checked with TLC, bound to geoh5py by replay (harness/)"}
                    for k, v in sorted(engines.items())],
        "checks": checks,
        "notes": "Every check = TLC on an explicit TLA+ spec + conformance replay into /repo's working tree. "
                 "known_findings.json lists genuine defects that could not be repaired as fix: commits.",
        "not_applicable": [{"property_id": p, "reason": NOT_YET} for p in ALL if p not in CHECKS],
    }
    (VERIF / "MANIFEST.json").write_text(json.dumps(doc, indent=1) + "\n")
    print("checks:", [c["property_id"] for c in checks])


if __name__ == "__main__":
    main()
