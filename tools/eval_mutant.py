#!/venv/bin/python
"""Confirm a seeded change and measure which checks detect it.

usage: tools/eval_mutant.py <worktree> <N> <property> [check ids to run ...] [--tier quick|thorough] [--skip-confirm]

1. confirm in the author's scratch worktree: patch applies, the repository's test-suite still passes (377),
   the demonstration fails with the change and passes without it;
2. copy the patched tree to a scratch directory outside /repo and /verif and run the named checks against it
   (VERIF_REPO=<copy>); /repo itself is never modified (builders and other checks may be using it);
3. record everything in /verif/seeded/<property>-m<N>/ (patch.diff, demo.py, meta.json)."""
import json
import os
import re
import shutil
import subprocess
import sys
import time

VERIF = os.path.dirname(os.path.dirname(os.path.abspath(__file__)))


def sh(cmd, cwd=None, env=None, timeout=3600):
    e = dict(os.environ)
    e.update(env or {})
    p = subprocess.run(cmd, shell=True, cwd=cwd, env=e, capture_output=True, text=True, timeout=timeout)
    return p.returncode, p.stdout + p.stderr


def main():
    args = [a for a in sys.argv[1:] if not a.startswith("--")]
    tier = "quick"
    if "--tier" in sys.argv:
        tier = sys.argv[sys.argv.index("--tier") + 1]
        args.remove(tier)
    out_name = None
    if "--out" in sys.argv:
        out_name = sys.argv[sys.argv.index("--out") + 1]
        args.remove(out_name)
    wt, n, pid = args[0], args[1], args[2]
    checks = args[3:] or [pid]
    mdir = os.path.join(wt, "mutants")
    diff = os.path.join(mdir, f"m{n}.diff")
    demo = os.path.join(mdir, f"demo_m{n}.py")
    out = os.path.join(VERIF, "seeded", out_name or f"{pid}-m{n}")
    os.makedirs(out, exist_ok=True)
    meta = {"property": pid, "mutant": f"m{n}", "source": "independent sub-agent given only the property text and a scratch worktree"}
    pyenv = {"PYTHONPATH": wt}
    if "--skip-confirm" not in sys.argv:
        rc, o = sh("git checkout -- . && git status --short", cwd=wt)
        rc, o = sh(f"git apply {diff}", cwd=wt)
        assert rc == 0, o
        rc, o = sh("/venv/bin/python -m pytest -q -p no:cacheprovider -x 2>&1 | tail -3", cwd=wt, env=pyenv)
        m = re.search(r"(\d+) passed", o)
        meta["suite_with_change"] = o.strip().splitlines()[-1]
        suite_ok = bool(m) and int(m.group(1)) == 377 and "failed" not in o
        rc1, o1 = sh(f"/venv/bin/python {demo}", cwd=wt, env=pyenv)
        sh("git checkout -- .", cwd=wt)
        rc0, o0 = sh(f"/venv/bin/python {demo}", cwd=wt, env=pyenv)
        meta["demo_exit_with_change"] = rc1
        meta["demo_exit_without_change"] = rc0
        meta["demo_output_with_change"] = o1.strip()[-600:]
        meta["confirmed"] = suite_ok and rc1 != 0 and rc0 == 0
        print(f"confirm: suite_ok={suite_ok} demo with={rc1} without={rc0}")
    if "--confirm-only" in sys.argv:
        mp = os.path.join(out, "meta.json")
        old = json.load(open(mp)) if os.path.exists(mp) else {}
        old.update(meta)
        json.dump(old, open(mp, "w"), indent=1)
        return
    # scratch copy with the change
    scratch = f"/tmp/mrepo_{pid}_{n}_{os.getpid()}"
    sh(f"rsync -a --exclude .git --exclude mutants {wt}/ {scratch}/")
    rc, o = sh(f"patch -p1 -s < {diff}", cwd=scratch)
    assert rc == 0, o
    results = {}
    for c in checks:
        t0 = time.time()
        rc, o = sh(f"./check {c} --tier {tier}", cwd=VERIF, env={"VERIF_REPO": scratch}, timeout=7200)
        lines = [l for l in o.splitlines() if l.startswith("VIOLATION") or l.startswith("MACHINERY") or l.startswith("  ")]
        results[c] = {"exit": rc, "tier": tier, "wall_s": round(time.time() - t0, 1), "lines": lines[:8]}
        print(f"check {c}: exit {rc} in {results[c]['wall_s']}s")
        for l in lines[:6]:
            print("   ", l[:300])
    shutil.rmtree(scratch, ignore_errors=True)
    # the evidence file was rewritten by a run against the mutated copy: restore the committed one
    sh("git checkout -- evidence 2>/dev/null", cwd=VERIF)
    if os.path.abspath(diff) != os.path.abspath(os.path.join(out, "patch.diff")):
        shutil.copy(diff, os.path.join(out, "patch.diff"))
        shutil.copy(demo, os.path.join(out, "demo.py"))
    readme = os.path.join(mdir, "README.md")
    if os.path.exists(readme):
        shutil.copy(readme, os.path.join(out, "author_README.md"))
    old = {}
    mp = os.path.join(out, "meta.json")
    if os.path.exists(mp):
        old = json.load(open(mp))
    old.update(meta)
    old.setdefault("checks_run", {}).update(results)
    old["detected_by"] = sorted(c for c, r in old["checks_run"].items() if r["exit"] == 1)
    json.dump(old, open(mp, "w"), indent=1)


if __name__ == "__main__":
    main()
