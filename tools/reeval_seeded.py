#!/venv/bin/python
"""Re-evaluate recorded seeded changes (seeded/<name>/patch.diff) against the CURRENT harness and /repo HEAD.

usage: tools/reeval_seeded.py [--only REGEX] [--par N] [--tier quick]

Each change is applied to a scratch copy of /repo's working tree (never to /repo); the checks recorded in its
meta.json (`checks_run`) are run again with VERIF_REPO pointing at the copy; `checks_run`, `detected_by`,
`reevaluated_at_repo_head` are updated. A patch that no longer applies is marked `applies_to_head: false`
(a later `fix:` commit rewrote the lines it changes) and its earlier results are kept."""
import glob
import json
import os
import re
import shutil
import subprocess
import sys
import time
from concurrent.futures import ThreadPoolExecutor

VERIF = os.path.dirname(os.path.dirname(os.path.abspath(__file__)))


def sh(cmd, cwd=None, env=None, timeout=7200):
    e = dict(os.environ)
    e.update(env or {})
    p = subprocess.run(cmd, shell=True, cwd=cwd, env=e, capture_output=True, text=True, timeout=timeout)
    return p.returncode, p.stdout + p.stderr


def one(name):
    d = os.path.join(VERIF, "seeded", name)
    mp = os.path.join(d, "meta.json")
    meta = json.load(open(mp))
    head = sh("git -C /repo rev-parse --short HEAD")[1].strip()
    scratch = f"/tmp/mre_{name}_{os.getpid()}"
    shutil.rmtree(scratch, ignore_errors=True)
    sh(f"rsync -a --exclude .git /repo/ {scratch}/")
    rc, o = sh(f"patch -p1 -s --no-backup-if-mismatch < {d}/patch.diff", cwd=scratch)
    if rc != 0:
        meta["applies_to_head"] = False
        meta["reevaluated_at_repo_head"] = head
        json.dump(meta, open(mp, "w"), indent=1)
        shutil.rmtree(scratch, ignore_errors=True)
        return f"{name}: patch no longer applies to {head}"
    meta["applies_to_head"] = True
    checks = list(meta.get("checks_run") or {}) or [meta["property"]]
    tier = "quick"
    res = {}
    for c in checks:
        t0 = time.time()
        rc, o = sh(f"./check {c} --tier {tier}", cwd=VERIF, env={"VERIF_REPO": scratch})
        lines = [ln for ln in o.splitlines() if ln.startswith(("VIOLATION", "MACHINERY", "  "))]
        res[c] = {"exit": rc, "tier": tier, "wall_s": round(time.time() - t0, 1), "lines": lines[:8]}
    shutil.rmtree(scratch, ignore_errors=True)
    meta["checks_run"] = res
    meta["detected_by"] = sorted(c for c, r in res.items() if r["exit"] == 1)
    meta["reevaluated_at_repo_head"] = head
    json.dump(meta, open(mp, "w"), indent=1)
    return f"{name}: " + " ".join(f"{c}=exit{r['exit']}({r['wall_s']}s)" for c, r in res.items())


def main():
    only = None
    par = 3
    if "--only" in sys.argv:
        only = re.compile(sys.argv[sys.argv.index("--only") + 1])
    if "--par" in sys.argv:
        par = int(sys.argv[sys.argv.index("--par") + 1])
    names = sorted(os.path.basename(os.path.dirname(p)) for p in glob.glob(os.path.join(VERIF, "seeded", "*", "patch.diff")))
    names = [n for n in names if only is None or only.search(n)]
    print("re-evaluating", len(names), "changes", flush=True)
    with ThreadPoolExecutor(par) as ex:
        for msg in ex.map(one, names):
            print(msg, flush=True)
    sh("git checkout -- evidence 2>/dev/null", cwd=VERIF)


if __name__ == "__main__":
    main()
