#!/venv/bin/python
"""Evaluate every finished seeded change of a later round (ROUND=2 default, ROUND=3: /tmp/wt3_Cxx -> Cxx-r3mN) that has no result yet."""
import glob, json, os, subprocess, sys, time
from concurrent.futures import ThreadPoolExecutor
VERIF = os.path.dirname(os.path.dirname(os.path.abspath(__file__)))
head = subprocess.run("git -C /repo rev-parse HEAD", shell=True, capture_output=True, text=True).stdout.strip()
todo = []
RND = os.environ.get("ROUND", "2")
for wt in sorted(glob.glob(f"/tmp/wt{RND}_C*")):
    if not os.path.isdir(wt):
        continue
    pid = os.path.basename(wt).split("_")[1]
    if not os.path.exists(os.path.join(wt, "mutants", "README.md")):
        continue            # author not finished
    for n in (1, 2, 3):
        if not os.path.exists(os.path.join(wt, "mutants", f"m{n}.diff")):
            continue
        out = os.path.join(VERIF, "seeded", f"{pid}-r{RND}m{n}", "meta.json")
        if os.path.exists(out) and json.load(open(out)).get("checks_run"):
            continue
        todo.append((wt, n, pid))
print("to evaluate:", [(os.path.basename(w), n) for w, n, _ in todo])
done_wt = set()
def job(group):
    out = []
    for wt, n, pid in group:          # one worktree is used by one evaluation at a time
        r = subprocess.run(f"tools/eval_mutant.py {wt} {n} {pid} --out {pid}-r{RND}m{n}", shell=True, cwd=VERIF, capture_output=True, text=True)
        lines = [l for l in (r.stdout + r.stderr).splitlines() if l.startswith(("confirm", "check")) or "Error" in l or "VIOLATION" in l]
        msg = f"{pid} r{RND}m{n}: " + " | ".join(l.strip()[:120] for l in lines[:4])
        print(msg, flush=True)
        out.append(msg)
    return out
groups = {}
for t in todo:
    groups.setdefault(t[0], []).append(t)
for wt in groups:
    subprocess.run(f"git -C {wt} checkout -q -- . ; git -C {wt} checkout -q --detach {head}", shell=True)
with ThreadPoolExecutor(int(os.environ.get("R2_PAR", "3"))) as ex:
    list(ex.map(job, groups.values()))
