#!/venv/bin/python
"""Evaluate every finished second-round seeded change that has no result yet (2 at a time)."""
import glob, json, os, subprocess, sys, time
from concurrent.futures import ThreadPoolExecutor
VERIF = os.path.dirname(os.path.dirname(os.path.abspath(__file__)))
head = subprocess.run("git -C /repo rev-parse HEAD", shell=True, capture_output=True, text=True).stdout.strip()
todo = []
for wt in sorted(glob.glob("/tmp/wt2_C*")):
    if not os.path.isdir(wt):
        continue
    pid = os.path.basename(wt)[4:]
    if not os.path.exists(os.path.join(wt, "mutants", "README.md")):
        continue            # author not finished
    for n in (1, 2, 3):
        if not os.path.exists(os.path.join(wt, "mutants", f"m{n}.diff")):
            continue
        out = os.path.join(VERIF, "seeded", f"{pid}-r2m{n}", "meta.json")
        if os.path.exists(out) and json.load(open(out)).get("checks_run"):
            continue
        todo.append((wt, n, pid))
print("to evaluate:", [(os.path.basename(w), n) for w, n, _ in todo])
done_wt = set()
def job(t):
    wt, n, pid = t
    r = subprocess.run(f"tools/eval_mutant.py {wt} {n} {pid} --out {pid}-r2m{n}", shell=True, cwd=VERIF, capture_output=True, text=True)
    lines = [l for l in (r.stdout + r.stderr).splitlines() if l.startswith(("confirm", "check")) or "Error" in l or "VIOLATION" in l]
    return f"{pid} r2m{n}: " + " | ".join(l.strip()[:120] for l in lines[:4])
for wt in {t[0] for t in todo}:
    subprocess.run(f"git -C {wt} checkout -q -- . ; git -C {wt} checkout -q --detach {head}", shell=True)
with ThreadPoolExecutor(2) as ex:
    for res in ex.map(job, todo):
        print(res, flush=True)
