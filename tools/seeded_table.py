#!/venv/bin/python
"""Markdown table of the seeded changes in /verif/seeded and which checks detect them."""
import glob
import json
import os

rows = []
for d in sorted(glob.glob(os.path.join(os.path.dirname(__file__), "..", "seeded", "*"))):
    mp = os.path.join(d, "meta.json")
    if not os.path.exists(mp):
        continue
    m = json.load(open(mp))
    name = os.path.basename(d)
    runs = {c: r for c, r in m.get("checks_run", {}).items() if r}
    det = ", ".join(f"{c} ({r['tier']})" for c, r in runs.items() if r["exit"] == 1) or "-"
    miss = ", ".join(c for c, r in runs.items() if r["exit"] == 0) or ""
    broken = ", ".join(c for c, r in runs.items() if r["exit"] not in (0, 1))
    if broken:
        miss = (miss + " " if miss else "") + f"[exit 2: {broken}]"
    first = ""
    for c, r in runs.items():
        if r["exit"] == 1 and r["lines"]:
            sigs = [l.strip() for l in r["lines"] if l.startswith("  ")]
            if sigs:
                first = sigs[0].split(":")[0] + ":" + sigs[0].split(":")[1][:40] if ":" in sigs[0] else sigs[0][:60]
            break
    conf = m.get("confirmed")
    note = m.get("note", m.get("needs", ""))
    if m.get("applies_to_head") is False:
        note = "no longer applies to /repo HEAD (a later fix: commit rewrote these lines); last result kept. " + note
    if m.get("rebased"):
        note = "re-made by hand on /repo HEAD after a fix: commit touched the neighbouring lines. " + note
    rows.append((name, m.get("property"), "yes" if conf else ("no" if conf is False else "n/a"), det, miss, first, note[:200]))
print("| seeded change | property | confirmed (suite passes, demo fails with / passes without) | detected by | run but silent | first signature | note |")
print("|---|---|---|---|---|---|---|")
for r in rows:
    print("| " + " | ".join(str(x).replace("|", "/") for x in r) + " |")
