SPECIFICATION Spec
CONSTANTS
  NG = 3
  NO = 2
  ND = 4
  NP = 2
  Names = {"a", "b"}
  Vals = {1, 2}
  Acts = {"CreateGroup", "CreateObject", "AddData", "AddVisual", "AddComment", "AddFile", "CreateWithUid", "Rename", "SetFlag", "SetVal", "SetMeta", "Move", "MoveSame", "AddToGroup", "AddDataFails", "StripOpt", "SaveAs", "Helper", "Copy2", "Remove2", "ScrubData", "CreateDeferred", "PGWithUid", "RemoveFromGroup", "RemovePG", "RemoveViaWorkspace", "RemoveViaParent", "DropRef", "Collect", "Purge", "LookupDead", "Copy", "Close", "Open", "RemoveBlocked", "OpenAgain", "SetType", "Copy2Data", "RemoveNotAChild", "CopyIntoSelf", "AddDataLike", "RemovePair", "AddDataRefused"}
  Deviations = {"CloseKeepsOrphans"}
  MaxDepth = 60
CONSTRAINT DepthBound
VIEW vw
INVARIANT TypeOK
INVARIANT DirtyOnlyInRW
INVARIANT W2WellFormed
INVARIANT ReopenEqualsLive
INVARIANT LinksToNodes
INVARIANT OneParent
INVARIANT PGPropsAreChildren
INVARIANT WriteThrough
INVARIANT NoDanglingPG
INVARIANT RegistryMatchesMemory
PROPERTY Footprint
PROPERTY FrozenFile
PROPERTY OptStaysStripped
PROPERTY FreshOnlyWhenTaken
INVARIANT ExportState
ACTION_CONSTRAINT ExportTrans
CHECK_DEADLOCK FALSE
