SPECIFICATION Spec
CONSTANTS
  NG = 1
  NO = 1
  ND = 2
  NP = 1
  Names = {"a", "b"}
  Vals = {1, 2}
  Acts = {"CreateGroup", "CreateObject", "AddData", "AddVisual", "AddComment", "AddFile", "CreateWithUid", "Rename", "SetFlag", "SetVal", "SetMeta", "Move", "MoveSame", "AddToGroup", "AddDataFails", "StripOpt", "SaveAs", "Helper", "Copy2", "Remove2", "ScrubData", "CreateDeferred", "PGWithUid", "RemoveFromGroup", "RemovePG", "RemoveViaWorkspace", "RemoveViaParent", "DropRef", "Collect", "Purge", "LookupDead", "Copy", "Close", "Open", "RemoveBlocked", "OpenAgain", "SetType", "Copy2Data", "RemoveNotAChild", "CopyIntoSelf", "AddDataLike", "RemovePair", "AddDataRefused"}
  Deviations = {}
  MaxDepth = 5
CONSTRAINT DepthBound
VIEW vw
INVARIANT TypeOK
INVARIANT DirtyOnlyInRW
INVARIANT W2WellFormed
INVARIANT ReopenEqualsLive
INVARIANT LinksToNodes
INVARIANT OneParent
INVARIANT PGPropsAreChildren
INVARIANT WriteThrough
INVARIANT NoDanglingPG
INVARIANT RegistryMatchesMemory
INVARIANT NoOrphansWhenClosed
PROPERTY Footprint
PROPERTY FrozenFile
PROPERTY OptStaysStripped
PROPERTY FreshOnlyWhenTaken
CHECK_DEADLOCK FALSE
