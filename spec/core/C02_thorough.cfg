SPECIFICATION Spec
CONSTANTS
  NG = 2
  NO = 2
  ND = 2
  NP = 2
  Names = {"a"}
  Vals = {1}
  Acts = {"CreateGroup", "CreateObject", "AddData", "Move", "MoveSame", "AddToGroup", "RemoveViaWorkspace", "RemoveViaParent", "RemovePair", "Copy", "Close", "Open", "AddDataFails", "DropRef", "Collect", "Purge", "LookupDead", "RemoveFromGroup", "SaveAs"}
  Deviations = {"CloseKeepsOrphans"}
  MaxDepth = 6
CONSTRAINT DepthBound
VIEW vw
INVARIANT TypeOK
INVARIANT DirtyOnlyInRW
INVARIANT W2WellFormed
INVARIANT ReopenEqualsLive
INVARIANT LinksToNodes
INVARIANT OneParent
INVARIANT PGPropsAreChildren
INVARIANT WriteThrough
INVARIANT NoDanglingPG
INVARIANT RegistryMatchesMemory
PROPERTY Footprint
PROPERTY FrozenFile
PROPERTY OptStaysStripped
PROPERTY FreshOnlyWhenTaken
INVARIANT ExportState
ACTION_CONSTRAINT ExportTrans
CHECK_DEADLOCK FALSE
