SPECIFICATION Spec
CONSTANTS
  NG = 1
  NO = 1
  ND = 2
  NP = 1
  Names = {"a", "b"}
  Vals = {1, 2}
  Acts = {"CreateGroup","CreateObject","AddData","Rename","SetVal","Move","AddToGroup","RemoveFromGroup","RemovePG","RemoveViaWorkspace","RemoveViaParent","DropRef","Collect","Purge","LookupDead","Copy","Close","Open","CallClosed","SetFlag"}
  Deviations = {}
  MaxDepth = 6
CONSTRAINT DepthBound
VIEW vw
INVARIANT TypeOK
INVARIANT ReopenEqualsLive
INVARIANT LinksToNodes
INVARIANT OneParent
INVARIANT PGPropsAreChildren
INVARIANT WriteThrough
INVARIANT NoDanglingPG
INVARIANT RegistryMatchesMemory
PROPERTY Footprint
PROPERTY FrozenFile
INVARIANT NoOrphansWhenClosed
CHECK_DEADLOCK FALSE
