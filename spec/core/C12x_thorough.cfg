SPECIFICATION Spec
CONSTANTS
  NG = 2
  NO = 1
  ND = 2
  NP = 2
  Names = {"a", "b"}
  Vals = {1, 2}
  Acts = {"CreateGroup", "CreateObject", "AddData", "AddToGroup", "Copy2", "Remove2", "SetVal", "Rename", "Close", "Open", "Copy", "Copy2Data"}
  Deviations = {"CloseKeepsOrphans"}
  MaxDepth = 6
CONSTRAINT DepthBound
VIEW vw
INVARIANT TypeOK
INVARIANT DirtyOnlyInRW
INVARIANT W2WellFormed
INVARIANT ReopenEqualsLive
INVARIANT LinksToNodes
INVARIANT OneParent
INVARIANT PGPropsAreChildren
INVARIANT WriteThrough
INVARIANT NoDanglingPG
INVARIANT RegistryMatchesMemory
PROPERTY Footprint
PROPERTY FrozenFile
PROPERTY OptStaysStripped
PROPERTY FreshOnlyWhenTaken
INVARIANT ExportState
ACTION_CONSTRAINT ExportTrans
CHECK_DEADLOCK FALSE
