SPECIFICATION Spec
CONSTANTS
  NG = 2
  NO = 1
  ND = 2
  NP = 1
  Names = {"a"}
  Vals = {1}
  Acts = {"CreateGroup", "CreateObject", "AddData", "SetFlag", "RemoveBlocked", "RemoveViaWorkspace", "Close", "Open", "Collect", "DropRef"}
  Deviations = {"CloseKeepsOrphans"}
  MaxDepth = 7
CONSTRAINT DepthBound
VIEW vw
INVARIANT TypeOK
INVARIANT DirtyOnlyInRW
INVARIANT W2WellFormed
INVARIANT ReopenEqualsLive
INVARIANT LinksToNodes
INVARIANT OneParent
INVARIANT PGPropsAreChildren
INVARIANT WriteThrough
INVARIANT NoDanglingPG
INVARIANT RegistryMatchesMemory
PROPERTY Footprint
PROPERTY FrozenFile
PROPERTY OptStaysStripped
PROPERTY FreshOnlyWhenTaken
INVARIANT ExportState
ACTION_CONSTRAINT ExportTrans
CHECK_DEADLOCK FALSE
