SPECIFICATION Spec
CONSTANTS
  NG = 1
  NO = 1
  ND = 1
  NP = 1
  Names = {"a"}
  Vals = {1, 2}
  Acts = {"CreateGroup", "CreateObject", "SetMeta", "Close", "Open"}
  Deviations = {"CloseKeepsOrphans"}
  MaxDepth = 6
CONSTRAINT DepthBound
VIEW vw
INVARIANT TypeOK
INVARIANT DirtyOnlyInRW
INVARIANT W2WellFormed
INVARIANT ReopenEqualsLive
INVARIANT LinksToNodes
INVARIANT OneParent
INVARIANT PGPropsAreChildren
INVARIANT WriteThrough
INVARIANT NoDanglingPG
INVARIANT RegistryMatchesMemory
PROPERTY Footprint
PROPERTY FrozenFile
PROPERTY OptStaysStripped
PROPERTY FreshOnlyWhenTaken
INVARIANT ExportState
ACTION_CONSTRAINT ExportTrans
CHECK_DEADLOCK FALSE
