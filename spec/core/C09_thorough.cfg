SPECIFICATION Spec
CONSTANTS
  NG = 2
  NO = 1
  ND = 2
  NP = 2
  Names = {"a", "b"}
  Vals = {1, 2}
  Acts = {"CreateGroup", "CreateObject", "AddData", "Rename", "SetFlag", "SetVal", "Move", "AddToGroup", "RemoveFromGroup", "RemovePG", "RemoveViaWorkspace", "RemoveViaParent", "DropRef", "Collect", "Purge", "LookupDead", "Copy", "Close", "Open", "MoveSame", "StripOpt", "AddDataFails", "SetMeta", "AddVisual", "SetType"}
  Deviations = {"CloseKeepsOrphans"}
  MaxDepth = 5
CONSTRAINT DepthBound
VIEW vw
INVARIANT TypeOK
INVARIANT DirtyOnlyInRW
INVARIANT W2WellFormed
INVARIANT ReopenEqualsLive
INVARIANT LinksToNodes
INVARIANT OneParent
INVARIANT PGPropsAreChildren
INVARIANT WriteThrough
INVARIANT NoDanglingPG
INVARIANT RegistryMatchesMemory
PROPERTY Footprint
PROPERTY FrozenFile
PROPERTY OptStaysStripped
PROPERTY FreshOnlyWhenTaken
INVARIANT ExportState
ACTION_CONSTRAINT ExportTrans
CHECK_DEADLOCK FALSE
