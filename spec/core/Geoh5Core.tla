------------------------------ MODULE Geoh5Core ------------------------------
(* Core specification of a geoh5py Workspace: the three views the library keeps in step     *)
(*   mem/kids/pg   - the live Python object tree (strong references)                          *)
(*   reg           - the uid-keyed weak-reference registries of the Workspace                 *)
(*   fnode/flink/fpg - the HDF5 file: flat nodes, parent->child hard links, property-group    *)
(*                   blocks                                                                    *)
(* plus the handle mode and the handles the caller still holds (they decide what the garbage *)
(* collector may reclaim).  One action per public operation (geoh5py/workspace/workspace.py, *)
(* shared/entity.py, shared/entity_container.py, objects/object_base.py,                      *)
(* groups/property_group.py, io/h5_writer.py); GC and registry purges are separate actions so *)
(* that TLC explores every placement of them.                                                 *)
(*                                                                                            *)
(* Slots are identifiers: Root = 0, groups 1..NG, objects 11..10+NO, data 21..20+ND, property *)
(* groups 31..30+NP.  A slot stands for one uid; new entities take the lowest free slot of    *)
(* their kind (built-in symmetry reduction); the harness binds slots to real UUIDs.           *)
EXTENDS Integers, FiniteSets, Sequences, TLC, TLCExt, Json

CONSTANTS NG, NO, ND, NP,     \* slot counts
          Names,              \* entity / property-group names (2: lookups by name can be ambiguous)
          Vals,               \* value tokens of data
          Acts,               \* enabled action names (per-property configurations)
          Deviations,         \* named as-built deviations, {} = Ideal
          MaxDepth

VARIABLES mem, kids, pg, reg, fnode, flink, fpg, held, mode, last,
          dirty,   \* data slots left half-written by a failed operation (node without values, not linked yet)
          fopt,    \* per stored node: are the optional scalar attributes present (a foreign writer may omit them)
          saved,   \* save_as was used (at most once per behaviour)
          w2, w2pg, \* a second workspace (always open r+), target of cross-workspace copies: stored entities / property groups
          cmode,   \* the mode the live Workspace OBJECT was constructed with (Open on the same object does not change it)
          inord    \* per container: is its in-memory children list known to be in ascending slot order (see InordUpdate)
vw   == <<mem, kids, pg, reg, fnode, flink, fpg, held, mode, dirty, fopt, saved, w2, w2pg, inord, cmode>>
vars == <<mem, kids, pg, reg, fnode, flink, fpg, held, mode, dirty, fopt, saved, w2, w2pg, inord, cmode, last>>
Aux  == <<dirty, fopt, saved, w2, w2pg>>

Root == 0
GS == 1..NG
OS == 11..(10 + NO)
DS == 21..(20 + ND)
PS == 31..(30 + NP)
ES == GS \cup OS \cup DS
Cont == {Root} \cup GS \cup OS
\* identifiers in the second workspace: 1000 + 100*g + s, g = 0: the uid of slot s was free there and is kept,
\* g = 1: a fresh uid (second copy of the same entity); 1000 is its root
W2(s, g) == 1000 + 100 * g + s
W2Root == 1000
W2E == {W2(s, g) : s \in ES, g \in {0, 1}}
W2P == {W2(p, g) : p \in PS, g \in {0, 1}}
NoW2 == [on |-> FALSE, par |-> -1, name |-> "", flag |-> FALSE, val |-> 0]
Kind(s) == IF s \in GS THEN "G" ELSE IF s \in OS THEN "O" ELSE IF s \in DS THEN "D" ELSE "R"

NoMem  == [par |-> -1, name |-> "", flag |-> FALSE, val |-> 0, meta |-> 0, ty |-> 0]
NoNode == [on |-> FALSE, name |-> "", flag |-> FALSE, val |-> 0, meta |-> 0, ty |-> 0]
NoPG   == [owner |-> -1, name |-> "", props |-> {}]
Live(s) == mem[s].par # -1                      \* a Python object for this uid exists
Node(s) == [on |-> TRUE, name |-> mem[s].name, flag |-> mem[s].flag, val |-> mem[s].val, meta |-> mem[s].meta, ty |-> mem[s].ty]

\* ======================= reachability
RECURSIVE Down(_, _)
Down(front, seen) ==                              \* closure under kids
    IF front = {} THEN seen
    ELSE LET nxt == (UNION {kids[x] : x \in front \cap Cont}) \ seen
         IN Down(nxt, seen \cup nxt)
Att == Down({Root}, {Root})                       \* attached entities (incl. Root)
Sub(s) == Down({s}, {s})                          \* s and its descendants in memory

RECURSIVE CloG(_, _, _, _)
CloG(k, m, front, seen) ==                        \* closure under children lists and _parent pointers
    IF front = {} THEN seen
    ELSE LET nxt == ((UNION {k[x] : x \in front \cap Cont})
                     \cup {m[x].par : x \in {y \in front \cap ES : m[y].par # -1}}) \ (seen \cup {-1})
         IN CloG(k, m, nxt, seen \cup nxt)
RECURSIVE DownG(_, _, _)
DownG(k, front, seen) ==
    IF front = {} THEN seen
    ELSE LET nxt == (UNION {k[x] : x \in front \cap Cont}) \ seen
         IN DownG(k, nxt, seen \cup nxt)
\* strongly reachable from the root or from a handle: cannot be garbage collected (DESIGN.md appendix D)
PinnedG(k, m, h) == LET start == DownG(k, {Root}, {Root}) \cup h IN CloG(k, m, start, start)
Pinned(extra) == PinnedG(kids, mem, held \cup extra)

RECURSIVE FDown(_, _)
FDown(front, seen) ==                             \* what a reader reaches in the file from Root
    IF front = {} THEN seen
    ELSE LET nxt == {l[2] : l \in {m \in flink : m[1] \in front}} \ seen
         IN FDown(nxt, seen \cup nxt)
FReach == FDown({Root}, {Root})

\* a slot stands for one uid: it is not given a new uid while the second workspace still holds a copy made under the old one
FreeE(s) == /\ ~Live(s) /\ reg[s] = "none" /\ ~fnode[s].on /\ s \notin held
            /\ \A l \in flink : l[1] # s /\ l[2] # s
            /\ ~w2[W2(s, 0)].on /\ ~w2[W2(s, 1)].on
FreeSet(K) == {s \in K : FreeE(s)}
FreeP == {p \in PS : pg[p].owner = -1 /\ fpg[p].owner = -1}
Rank(x, S) == Cardinality({y \in S : y < x})
Nth(S, r) == CHOOSE x \in S : Rank(x, S) = r      \* r-th smallest (0-based), requires r < |S|
Lowest(S) == Nth(S, 0)
KindSet(s) == IF s \in GS THEN GS ELSE IF s \in OS THEN OS ELSE DS

\* property groups: drop removed data; a group that becomes empty is deleted
\* (property_group.py:225-247 remove_properties; object_base.py:630-648 remove_data_from_groups)
Scrub(table, gone) ==
    [p \in PS |-> IF table[p].owner = -1 THEN table[p]
                  ELSE IF table[p].props \subseteq gone /\ (table[p].props \cap gone) # {} THEN NoPG
                  ELSE [table[p] EXCEPT !.props = @ \ gone]]
DropOwners(table, owners) == [p \in PS |-> IF table[p].owner \in owners THEN NoPG ELSE table[p]]

Writable == mode = "r+"
Do(a) == a \in Acts
Ok(act, args, foot) == last' = [act |-> act, args |-> args, out |-> "ok", foot |-> foot]
Refused(act, args, cls) == last' = [act |-> act, args |-> args, out |-> cls, foot |-> {}]

\* ======================= initial state
Init ==
    /\ mem = [s \in ES |-> NoMem]
    /\ kids = [c \in Cont |-> {}]
    /\ pg = [p \in PS |-> NoPG]
    /\ reg = [s \in ES |-> "none"]
    /\ fnode = [s \in ES |-> NoNode]
    /\ flink = {}
    /\ fpg = [p \in PS |-> NoPG]
    /\ held = {}
    /\ mode = "r+"
    /\ dirty = {}
    /\ fopt = [s \in ES |-> TRUE]
    /\ saved = FALSE
    /\ w2 = [y \in W2E |-> NoW2]
    /\ w2pg = [q \in W2P |-> NoPG]
    /\ inord = [c \in Cont |-> TRUE]
    /\ cmode = "r+"
    /\ last = [act |-> "Init", args |-> [x |-> 0], out |-> "ok", foot |-> {}]

\* ======================= creation
\* data types: every data set created by add_data gets a type of its own (data_type.py find_or_create without uid);
\* copies inside the workspace share the type of their source; Data.entity_type can be re-assigned (SetType).
\* ty is a token naming the type (0: groups, objects and the special children, whose types are fixed by their class);
\* a new data takes the lowest token no live or stored data uses.
NewTy(s, n) ==
    IF s \notin DS \/ n \in {"Visual Parameters", "UserComments", "file.dat"} THEN 0
    ELSE Lowest({t \in 1..ND : \A x \in DS : mem[x].ty # t /\ fnode[x].ty # t})

\* Workspace.create_entity -> save_entity -> H5Writer.write_entity / write_to_parent
\* (workspace.py:434-480,1300-1331; h5_writer.py:214-248,686-752,943-988)
Birth(s, p, n, v) ==
    /\ mem' = [mem EXCEPT ![s] = [par |-> p, name |-> n, flag |-> TRUE, val |-> v, meta |-> 0, ty |-> NewTy(s, n)]]
    /\ kids' = [kids EXCEPT ![p] = @ \cup {s}]
    /\ reg' = [reg EXCEPT ![s] = "live"]
    /\ fnode' = [fnode EXCEPT ![s] = [on |-> TRUE, name |-> n, flag |-> TRUE, val |-> v, meta |-> 0, ty |-> NewTy(s, n)]]
    /\ flink' = flink \cup {<<p, s>>}
    /\ fopt' = [fopt EXCEPT ![s] = TRUE]

CreateGroup(p, n) ==
    /\ Do("CreateGroup") /\ Writable /\ p \in Att \cap ({Root} \cup GS) /\ p \notin dirty /\ FreeSet(GS) # {}
    /\ LET s == Lowest(FreeSet(GS)) IN
         /\ Birth(s, p, n, 0)
         /\ Ok("CreateGroup", [s |-> s, p |-> p, n |-> n], {s, p})
    /\ UNCHANGED <<pg, fpg, held, mode, dirty, saved, w2, w2pg>>

CreateObject(p, n) ==
    /\ Do("CreateObject") /\ Writable /\ p \in Att \cap ({Root} \cup GS) /\ p \notin dirty /\ FreeSet(OS) # {}
    /\ LET s == Lowest(FreeSet(OS)) IN
         /\ Birth(s, p, n, 0)
         /\ Ok("CreateObject", [s |-> s, p |-> p, n |-> n], {s, p})
    /\ UNCHANGED <<pg, fpg, held, mode, dirty, saved, w2, w2pg>>

AddData(o, n, v) ==                                \* ObjectBase.add_data (object_base.py:125-180)
    /\ Do("AddData") /\ Writable /\ o \in Att \cap OS /\ FreeSet(DS) # {}
    /\ LET s == Lowest(FreeSet(DS)) IN
         /\ Birth(s, o, n, v)
         /\ Ok("AddData", [s |-> s, p |-> o, n |-> n, v |-> v], {s, o})
    /\ UNCHANGED <<pg, fpg, held, mode, dirty, saved, w2, w2pg>>

\* add_data with an entity_type dictionary that carries the uid of the type of an existing data set e (plus attributes that type
\* does not define): the new data set JOINS that type (data_type.py find_or_create: the "find" leg); the shared type itself -
\* and with it every other data set that uses it - stays exactly as it is
AddDataLike(o, n, v, e) ==
    /\ Do("AddDataLike") /\ Writable /\ o \in Att \cap OS /\ FreeSet(DS) # {}
    /\ e \in Att \cap DS /\ e \notin dirty /\ mem[e].name \notin {"Visual Parameters", "UserComments", "file.dat"}
    /\ LET s == Lowest(FreeSet(DS)) IN
         /\ mem' = [mem EXCEPT ![s] = [par |-> o, name |-> n, flag |-> TRUE, val |-> v, meta |-> 0, ty |-> mem[e].ty]]
         /\ kids' = [kids EXCEPT ![o] = @ \cup {s}]
         /\ reg' = [reg EXCEPT ![s] = "live"]
         /\ fnode' = [fnode EXCEPT ![s] = [on |-> TRUE, name |-> n, flag |-> TRUE, val |-> v, meta |-> 0, ty |-> mem[e].ty]]
         /\ flink' = flink \cup {<<o, s>>}
         /\ fopt' = [fopt EXCEPT ![s] = TRUE]
         /\ Ok("AddDataLike", [s |-> s, p |-> o, n |-> n, v |-> v, e |-> e], {s, o})
    /\ UNCHANGED <<pg, fpg, held, mode, dirty, saved, w2, w2pg>>

\* Workspace.create_entity(..., save_on_creation=False): the entity exists in memory only; the final save of
\* Workspace.close (root subtree, add_children=True) writes and links it (workspace.py:196,477-478)
CreateDeferred(p, n) ==
    /\ Do("CreateDeferred") /\ Writable /\ p \in Att \cap ({Root} \cup GS) /\ p \notin dirty /\ FreeSet(GS) # {} /\ dirty = {}
    /\ LET s == Lowest(FreeSet(GS)) IN
         /\ mem' = [mem EXCEPT ![s] = [par |-> p, name |-> n, flag |-> TRUE, val |-> 0, meta |-> 0, ty |-> 0]]
         /\ kids' = [kids EXCEPT ![p] = @ \cup {s}]
         /\ reg' = [reg EXCEPT ![s] = "live"]
         /\ dirty' = dirty \cup {s}
         /\ Ok("CreateDeferred", [s |-> s, p |-> p, n |-> n], {})
    /\ UNCHANGED <<pg, fpg, fnode, flink, held, mode, fopt, saved, w2, w2pg>>

\* ObjectBase.add_default_visual_parameters (object_base.py:605-628): a text data child named "Visual Parameters";
\* value token 3 stands for its XML text.  It is never renamed, re-valued or put in a property group by the model.
VP == "Visual Parameters"
CM == "UserComments"
FL == "file.dat"
Special(n) == n \in {VP, CM, FL}     \* data children with a fixed name and non-array content
AddVisual(o) ==
    /\ Do("AddVisual") /\ Writable /\ o \in Att \cap OS /\ o \notin dirty /\ FreeSet(DS) # {}
    /\ \A d \in kids[o] : mem[d].name # VP
    /\ LET s == Lowest(FreeSet(DS)) IN
         /\ Birth(s, o, VP, 3)
         /\ Ok("AddVisual", [s |-> s, p |-> o], {s, o})
    /\ UNCHANGED <<pg, fpg, held, mode, dirty, saved, w2, w2pg>>

\* add_comment (groups/base.py:79-105, object_base.py:94-121): the first comment creates a CommentsData child named
\* "UserComments", later comments are appended to it.  add_file (entity_container.py:52-92): a FilenameData child.
AddComment(e) ==
    /\ Do("AddComment") /\ Writable /\ e \in Att \cap (GS \cup OS) /\ e \notin dirty
    /\ IF \E d \in kids[e] : mem[d].name = CM
       THEN /\ Ok("AddComment", [p |-> e, s |-> (CHOOSE d \in kids[e] : mem[d].name = CM), first |-> FALSE],
                  {CHOOSE d \in kids[e] : mem[d].name = CM})
            /\ UNCHANGED <<mem, kids, pg, reg, fnode, flink, fpg, held, mode, Aux>>
       ELSE /\ FreeSet(DS) # {}
            /\ LET s == Lowest(FreeSet(DS)) IN
                 /\ Birth(s, e, CM, 3)
                 /\ Ok("AddComment", [p |-> e, s |-> s, first |-> TRUE], {s, e})
            /\ UNCHANGED <<pg, fpg, held, mode, dirty, saved, w2, w2pg>>

AddFile(e) ==
    /\ Do("AddFile") /\ Writable /\ e \in Att \cap (GS \cup OS) /\ e \notin dirty /\ FreeSet(DS) # {}
    /\ \A d \in kids[e] : mem[d].name # FL
    /\ LET s == Lowest(FreeSet(DS)) IN
         /\ Birth(s, e, FL, 3)
         /\ Ok("AddFile", [p |-> e, s |-> s], {s, e})
    /\ UNCHANGED <<pg, fpg, held, mode, dirty, saved, w2, w2pg>>

\* explicit identifier (C06): refused when the uid is in use by any live entity of any kind
\* (workspace.py create_entity pre-check + weakref_utils.insert_once); accepted when the uid is free again
CreateWithUid(u, p, n) ==
    /\ Do("CreateWithUid") /\ Writable /\ u \in GS \cup OS /\ p \in Att \cap ({Root} \cup GS) /\ p \notin dirty
    /\ IF Live(u)
       THEN /\ Refused("CreateWithUid", [s |-> u, p |-> p, n |-> n], "RuntimeError")
            /\ UNCHANGED <<mem, kids, pg, reg, fnode, flink, fpg, held, mode, Aux>>
       ELSE /\ ~fnode[u].on /\ u \notin held /\ \A l \in flink : l[1] # u /\ l[2] # u
            /\ Birth(u, p, n, 0)
            /\ Ok("CreateWithUid", [s |-> u, p |-> p, n |-> n], {u, p})
            /\ UNCHANGED <<pg, fpg, held, mode, dirty, saved, w2, w2pg>>

\* ======================= write-through setters
\* Entity.name / allow_delete setters -> Workspace.update_attribute -> H5Writer.update_field
\* (entity.py:77-100,251-260; workspace.py:1359-1389)
Rename(s, n) ==
    /\ Do("Rename") /\ Writable /\ s \in Att \cap ES /\ mem[s].name # n /\ s \notin dirty /\ ~Special(mem[s].name)
    /\ mem' = [mem EXCEPT ![s].name = n]
    /\ fnode' = [fnode EXCEPT ![s].name = n]
    /\ fopt' = [fopt EXCEPT ![s] = TRUE]      \* H5Writer.write_attributes rewrites every scalar attribute (h5_writer.py:303-361)
    /\ Ok("Rename", [s |-> s, n |-> n], {s})
    /\ UNCHANGED <<kids, pg, reg, flink, fpg, held, mode, dirty, saved, w2, w2pg>>

SetFlag(s, b) ==                                   \* allow_delete
    /\ Do("SetFlag") /\ Writable /\ s \in Att \cap ES /\ mem[s].flag # b /\ s \notin dirty
    /\ mem' = [mem EXCEPT ![s].flag = b]
    /\ fnode' = [fnode EXCEPT ![s].flag = b]
    /\ fopt' = [fopt EXCEPT ![s] = TRUE]
    /\ Ok("SetFlag", [s |-> s, b |-> b], {s})
    /\ UNCHANGED <<kids, pg, reg, flink, fpg, held, mode, dirty, saved, w2, w2pg>>

SetVal(d, v) ==                                    \* Data.values setter (data/data.py, numeric_data.py)
    /\ Do("SetVal") /\ Writable /\ d \in Att \cap DS /\ mem[d].val # v /\ d \notin dirty /\ ~Special(mem[d].name)
    /\ mem' = [mem EXCEPT ![d].val = v]
    /\ fnode' = [fnode EXCEPT ![d].val = v]
    /\ Ok("SetVal", [s |-> d, v |-> v], {d})
    /\ UNCHANGED <<kids, pg, reg, flink, fpg, held, mode, Aux>>

\* Data.entity_type setter (data/data.py:232-235): the data joins the type of another data set; the Type link of its
\* node is replaced (h5_writer.py update_field "entity_type").  Nothing else may change - in particular the type it
\* leaves stays listed as long as another data set uses it.
SetType(d, e) ==
    /\ Do("SetType") /\ Writable /\ d \in Att \cap DS /\ e \in Att \cap DS /\ d # e /\ {d, e} \cap dirty = {}
    /\ ~Special(mem[d].name) /\ ~Special(mem[e].name) /\ mem[d].ty # mem[e].ty
    /\ mem' = [mem EXCEPT ![d].ty = mem[e].ty]
    /\ fnode' = [fnode EXCEPT ![d].ty = mem[e].ty]
    /\ Ok("SetType", [s |-> d, e |-> e], {d})
    /\ UNCHANGED <<kids, pg, reg, fpg, flink, held, mode, Aux>>

\* Entity.metadata setter (entity.py:229-243): a dictionary stored with the entity (groups and objects)
SetMeta(s, v) ==
    /\ Do("SetMeta") /\ Writable /\ s \in Att \cap (GS \cup OS) /\ mem[s].meta # v /\ s \notin dirty
    /\ mem' = [mem EXCEPT ![s].meta = v]
    /\ fnode' = [fnode EXCEPT ![s].meta = v]
    /\ Ok("SetMeta", [s |-> s, v |-> v], {s})
    /\ UNCHANGED <<kids, pg, reg, flink, fpg, held, mode, Aux>>

\* ======================= re-parenting
\* Entity.parent setter (entity.py:268-286): add to the new parent, unlink from the old one
\* (memory + file link), re-save (link under the new parent).  A data leaving an object is
\* scrubbed from that object's property groups (object_base.py:497-523).
Move(s, p) ==
    /\ Do("Move") /\ Writable /\ s \in Att \cap ES /\ Sub(s) \cap dirty = {}
    /\ p \in Att /\ p # mem[s].par /\ p \notin Sub(s) /\ p \notin dirty
    /\ IF s \in DS THEN p \in OS /\ ~Special(mem[s].name) ELSE p \in {Root} \cup GS
    /\ LET old == mem[s].par IN
         /\ mem' = [mem EXCEPT ![s].par = p]
         /\ kids' = [kids EXCEPT ![p] = @ \cup {s}, ![old] = @ \ {s}]
         /\ flink' = (flink \ {<<old, s>>}) \cup {<<p, s>>}
         /\ pg' = IF s \in DS THEN Scrub(pg, {s}) ELSE pg
         /\ fpg' = IF s \in DS THEN Scrub(fpg, {s}) ELSE fpg
         /\ Ok("Move", [s |-> s, p |-> p], {s, p, old})
    /\ UNCHANGED <<reg, fnode, held, mode, Aux>>

\* assigning the parent an entity already has is a no-op (entity.py:268-286: `current_parent != self._parent`)
MoveSame(s) ==
    /\ Do("MoveSame") /\ Writable /\ s \in Att \cap ES /\ s \notin dirty
    /\ Ok("MoveSame", [s |-> s, p |-> mem[s].par], {})
    /\ UNCHANGED <<mem, kids, pg, reg, fnode, flink, fpg, held, mode, Aux>>

\* an operation that fails half-way (crash point inside add_data: the values cannot be written, e.g. an invalid
\* compression level): the data entity is registered and attached in memory, its node exists in the flat container
\* with attributes but no values and is NOT yet linked under its parent (h5_writer.py:686-752 write_entity raises in
\* write_properties before write_to_parent runs).  The final save of Workspace.close repairs the link.
AddDataFails(o, n) ==
    /\ Do("AddDataFails") /\ Writable /\ o \in Att \cap OS /\ o \notin dirty /\ FreeSet(DS) # {} /\ dirty = {}
    /\ LET s == Lowest(FreeSet(DS)) IN
         \* the entity keeps the values it was given in memory (token 1); the node has none (token 0)
         /\ mem' = [mem EXCEPT ![s] = [par |-> o, name |-> n, flag |-> TRUE, val |-> 1, meta |-> 0, ty |-> NewTy(s, n)]]
         /\ kids' = [kids EXCEPT ![o] = @ \cup {s}]
         /\ reg' = [reg EXCEPT ![s] = "live"]
         /\ fnode' = [fnode EXCEPT ![s] = [on |-> TRUE, name |-> n, flag |-> TRUE, val |-> 0, meta |-> 0, ty |-> NewTy(s, n)]]
         /\ fopt' = [fopt EXCEPT ![s] = TRUE]
         /\ dirty' = dirty \cup {s}
         /\ last' = [act |-> "AddDataFails", args |-> [s |-> s, p |-> o, n |-> n], out |-> "ValueError", foot |-> {s}]
    /\ UNCHANGED <<pg, fpg, flink, held, mode, saved, w2, w2pg>>

\* a creation that is refused BEFORE anything is attached (add_data with an association the format does not know):
\* nothing changes - in particular the children the object already has stay where they are
AddDataRefused(o, n) ==
    /\ Do("AddDataRefused") /\ Writable /\ o \in Att \cap OS /\ o \notin dirty
    /\ Refused("AddDataRefused", [p |-> o, n |-> n], "ValueError")
    /\ UNCHANGED <<mem, kids, pg, reg, fnode, flink, fpg, held, mode, Aux>>

\* a foreign writer (or an older version) may omit optional scalar attributes of a node: the harness strips them with
\* raw h5py while the workspace is closed.  Nothing but a rewrite of that node's attributes may bring them back (C09).
StripOpt(s) ==
    /\ Do("StripOpt") /\ mode = "closed" /\ s \in ES /\ fnode[s].on /\ fopt[s] /\ s \in FReach
    /\ fopt' = [fopt EXCEPT ![s] = FALSE]
    /\ Ok("StripOpt", [s |-> s], {s})
    /\ UNCHANGED <<mem, kids, pg, reg, fnode, flink, fpg, held, mode, dirty, saved, w2, w2pg>>

\* ======================= property groups
\* ObjectBase.add_data_to_group(data, name): find the group by name or create it, add the data
\* (object_base.py:182-231, property_group.py:76-98)
PGsOf(o) == {p \in PS : pg[p].owner = o}
AddToGroup(o, d, n) ==
    /\ Do("AddToGroup") /\ Writable /\ o \in Att \cap OS /\ d \in kids[o] /\ d \notin dirty /\ ~Special(mem[d].name)
    /\ LET same == {p \in PGsOf(o) : pg[p].name = n} IN
       IF same # {}
       THEN LET p == Lowest(same) IN
            /\ d \notin pg[p].props
            /\ pg' = [pg EXCEPT ![p].props = @ \cup {d}]
            /\ fpg' = [fpg EXCEPT ![p] = [pg[p] EXCEPT !.props = @ \cup {d}]]
            /\ Ok("AddToGroup", [o |-> o, d |-> d, n |-> n, p |-> p], {o})
       ELSE /\ FreeP # {}
            /\ LET p == Lowest(FreeP) IN
               /\ pg' = [pg EXCEPT ![p] = [owner |-> o, name |-> n, props |-> {d}]]
               /\ fpg' = [fpg EXCEPT ![p] = [owner |-> o, name |-> n, props |-> {d}]]
               /\ Ok("AddToGroup", [o |-> o, d |-> d, n |-> n, p |-> p], {o})
    /\ UNCHANGED <<mem, kids, reg, fnode, flink, held, mode, Aux>>

\* a property group requested with an identifier that is in use - by a property group of the same or of another
\* object, or by an entity of any kind - is refused without side effects (C06; property_group.py __init__)
PGWithUid(o, d, n, u) ==
    /\ Do("PGWithUid") /\ Writable /\ o \in Att \cap OS /\ d \in kids[o] /\ d \notin dirty /\ ~Special(mem[d].name)
    /\ \A p \in PGsOf(o) : pg[p].name # n
    /\ \/ (u \in PS /\ pg[u].owner \in Att)
       \/ (u \in ES /\ u \in Att)
    /\ Refused("PGWithUid", [o |-> o, d |-> d, n |-> n, u |-> u], "RuntimeError")
    /\ UNCHANGED <<mem, kids, pg, reg, fnode, flink, fpg, held, mode, Aux>>

RemoveFromGroup(p, d) ==                           \* PropertyGroup.remove_properties
    /\ Do("RemoveFromGroup") /\ Writable /\ p \in PS /\ pg[p].owner \in Att /\ d \in pg[p].props
    /\ pg' = Scrub(pg, {d}) /\ fpg' = Scrub(fpg, {d})    \* only groups of this owner contain d
    /\ pg' = [q \in PS |-> IF q = p THEN Scrub(pg, {d})[p] ELSE pg[q]]
    /\ fpg' = [q \in PS |-> IF q = p THEN Scrub(fpg, {d})[p] ELSE fpg[q]]
    /\ Ok("RemoveFromGroup", [p |-> p, d |-> d, o |-> pg[p].owner], {pg[p].owner})
    /\ UNCHANGED <<mem, kids, reg, fnode, flink, held, mode, Aux>>

\* ======================= garbage collection
\* entities not strongly reachable from the root or from a handle the caller holds die;
\* their registry entries become dead weak references (workspace.py:113-129)
Dying(extra) == {x \in ES : Live(x) /\ x \notin Pinned(extra)}
AfterGC(m, k, g, r, dying) ==
    /\ mem' = [s \in ES |-> IF s \in dying THEN NoMem ELSE m[s]]
    /\ kids' = [c \in Cont |-> IF c \in dying THEN {} ELSE k[c]]
    /\ pg' = DropOwners(g, dying)
    /\ reg' = [s \in ES |-> IF s \in dying /\ r[s] = "live" THEN "dead" ELSE r[s]]

Collect ==
    /\ Do("Collect") /\ Dying({}) # {}
    /\ AfterGC(mem, kids, pg, reg, Dying({}))
    /\ Ok("Collect", [dying |-> Dying({})], {})
    /\ UNCHANGED <<fnode, flink, fpg, held, mode, Aux>>

DropRef(s) ==
    /\ Do("DropRef") /\ s \in held
    /\ held' = held \ {s}
    /\ Ok("DropRef", [s |-> s], {})
    /\ UNCHANGED <<mem, kids, pg, reg, fnode, flink, fpg, mode, Aux>>

\* reading ws.groups / ws.objects / ws.data purges the file nodes of dead registry entries
\* (workspace.py:152-175,631-648 remove_none_referents -> H5Writer.remove_entity)
PurgeSet(K) == {x \in K : reg[x] = "dead"}
Purge(kind) ==
    /\ Do("Purge") /\ Writable
    /\ LET K == IF kind = "G" THEN GS ELSE IF kind = "O" THEN OS ELSE DS
           S == PurgeSet(K) IN
       /\ S # {}
       /\ reg' = [s \in ES |-> IF s \in S THEN "none" ELSE reg[s]]
       /\ fnode' = [s \in ES |-> IF s \in S THEN NoNode ELSE fnode[s]]
       /\ flink' = {l \in flink : l[1] \notin S}
       /\ fpg' = DropOwners(fpg, S)
       /\ Ok("Purge", [kind |-> kind, gone |-> S], S)
    /\ UNCHANGED <<mem, kids, pg, held, mode, Aux>>

\* ws.get_entity(uid) on a dead reference silently drops the registry entry without touching the
\* file (weakref_utils.get_clean_ref, workspace.py:910-954): afterwards no purge can reach the node
LookupDead(s) ==
    /\ Do("LookupDead") /\ mode # "closed" /\ s \in ES /\ reg[s] = "dead"
    /\ reg' = [reg EXCEPT ![s] = "none"]
    /\ Ok("LookupDead", [s |-> s], {})
    /\ UNCHANGED <<mem, kids, pg, fnode, flink, fpg, held, mode, Aux>>

\* ======================= removal
\* Workspace.remove_entity (workspace.py:602-658): refused when allow_delete is off; otherwise
\* remove_recursively (children first), unlink from the parent (memory + file), delete the flat
\* nodes, then gc.collect().  The caller still holds the handle it passed in (held) until DropRef.
\* Detached descendants keep their _parent pointer (they pin their ancestors, not conversely).
RemoveViaWorkspace(s) ==
    /\ Do("RemoveViaWorkspace") /\ Writable /\ s \in Att \cap ES /\ Sub(s) \cap dirty = {}
    /\ \A x \in Sub(s) \ {s} : mem[x].flag              \* protected descendants: RemoveBlocked
    /\ IF ~mem[s].flag
       THEN /\ Refused("RemoveViaWorkspace", [s |-> s], "UserWarning")
            /\ UNCHANGED <<mem, kids, pg, reg, fnode, flink, fpg, held, mode, Aux>>
       ELSE LET D == Sub(s)
                par == mem[s].par
                k1 == [c \in Cont |-> IF c \in D THEN {} ELSE IF c = par THEN kids[c] \ {s} ELSE kids[c]]
                g1 == Scrub(DropOwners(pg, D), D \cap DS)
                h1 == held \cup {s}
                dy == {x \in ES : Live(x) /\ x \notin PinnedG(k1, mem, h1)}     \* in-call gc.collect()
            IN
            /\ held' = h1
            /\ fnode' = [x \in ES |-> IF x \in D THEN NoNode ELSE fnode[x]]
            /\ flink' = {l \in flink : l[1] \notin D /\ l[2] \notin D}
            /\ fpg' = Scrub(DropOwners(fpg, D), D \cap DS)
            /\ AfterGC(mem, k1, g1, reg, dy)
            /\ Ok("RemoveViaWorkspace", [s |-> s], D \cup {par})
            /\ UNCHANGED <<mode, Aux>>

\* remove_entity(s) where s may be deleted but something below it may not (workspace.py:618-674).  As built the call
\* is NOT all-or-nothing: remove_recursively walks the children lists in order and removes, completely, every child
\* subtree that comes before the first protected entity it meets; then the UserWarning of that entity propagates and
\* everything else (s itself included) stays.  RemOut(x) = <<entities removed by remove_entity(x), did it complete>>;
\* children are visited in list order, which the model knows only where inord holds.
RECURSIVE RemOut(_), RemKids(_)
RemKids(rest) ==
    IF rest = {} THEN <<{}, TRUE>>
    ELSE LET c == Lowest(rest)
             r == RemOut(c) IN
         IF r[2] THEN LET q == RemKids(rest \ {c}) IN <<r[1] \cup q[1], q[2]>>
         ELSE <<r[1], FALSE>>
RemOut(x) ==
    IF ~mem[x].flag THEN <<{}, FALSE>>
    ELSE LET q == RemKids(IF x \in Cont THEN kids[x] ELSE {}) IN
         IF q[2] THEN <<q[1] \cup {x}, TRUE>> ELSE <<q[1], FALSE>>

RemoveBlocked(s) ==
    /\ Do("RemoveBlocked") /\ Writable /\ s \in Att \cap (GS \cup OS) /\ Sub(s) \cap dirty = {}
    /\ mem[s].flag /\ \E x \in Sub(s) \ {s} : ~mem[x].flag
    /\ \A c \in Sub(s) \cap Cont : inord[c]
    /\ LET D == RemOut(s)[1] IN
       \* property groups sit in the children list of their object too (object_base.py:70-94): the model leaves out
       \* objects with property groups that are entered but not removed (their fate depends on that interleaving)
       /\ \A o \in (Sub(s) \cap OS) \ D : mem[o].flag => PGsOf(o) = {}
       /\ LET k1 == [c \in Cont |-> IF c \in D THEN {} ELSE kids[c] \ D]
              g1 == Scrub(DropOwners(pg, D), D \cap DS)
              \* every completed nested remove_entity ends with gc.collect()
              dy == IF D = {} THEN {} ELSE {x \in ES : Live(x) /\ x \notin PinnedG(k1, mem, held)}
          IN
          /\ fnode' = [x \in ES |-> IF x \in D THEN NoNode ELSE fnode[x]]
          /\ flink' = {l \in flink : l[1] \notin D /\ l[2] \notin D}
          /\ fpg' = Scrub(DropOwners(fpg, D), D \cap DS)
          /\ AfterGC(mem, k1, g1, reg, dy)
          /\ last' = [act |-> "RemoveBlocked", args |-> [s |-> s, gone |-> D], out |-> "UserWarning",
                      foot |-> D \cup {mem[x].par : x \in D}]
    /\ UNCHANGED <<held, mode, Aux>>

\* Workspace.open() on a workspace that is already open warns and returns the workspace as it is (workspace.py:1183-1190)
OpenAgain ==
    /\ Do("OpenAgain") /\ mode # "closed"
    /\ Ok("OpenAgain", [m |-> mode], {})
    /\ UNCHANGED <<mem, kids, pg, reg, fnode, flink, fpg, held, mode, Aux>>

\* EntityContainer.remove_children / ObjectBase.remove_children (entity_container.py:222-240,
\* object_base.py:497-523) -> Workspace.remove_children -> H5Writer.remove_child: unlink only.
\* The flat node stays until the entity has been garbage collected AND a registry is read (Purge).
RemoveViaParent(s) ==
    /\ Do("RemoveViaParent") /\ Writable /\ s \in Att \cap ES /\ Sub(s) \cap dirty = {}
    /\ LET par == mem[s].par IN
         /\ kids' = [kids EXCEPT ![par] = @ \ {s}]
         /\ flink' = flink \ {<<par, s>>}
         /\ pg' = IF s \in DS THEN Scrub(pg, {s}) ELSE pg
         /\ fpg' = IF s \in DS THEN Scrub(fpg, {s}) ELSE fpg
         /\ held' = held \cup {s}
         /\ Ok("RemoveViaParent", [s |-> s], {par})
    /\ UNCHANGED <<mem, reg, fnode, mode, Aux>>

\* one remove_children call with TWO children: two entities (of the same or of different kinds: they live in different
\* containers of the parent's node), or a data set together with a property group of the same object (which the removal
\* of the data may already have emptied and deleted)
RemovePair(c, x, y) ==
    /\ Do("RemovePair") /\ Writable /\ c \in Att \cap Cont /\ c \notin dirty /\ x \in kids[c]
    /\ \/ (y \in kids[c] /\ x < y)
       \/ (y \in PS /\ pg[y].owner = c /\ x \in DS)
    /\ LET S == {x} \cup (IF y \in ES THEN {y} ELSE {}) IN
       /\ \A z \in S : Sub(z) \cap dirty = {}
       /\ kids' = [kids EXCEPT ![c] = @ \ S]
       /\ flink' = flink \ {<<c, z>> : z \in S}
       /\ pg' = LET t == Scrub(pg, S \cap DS) IN IF y \in PS THEN [t EXCEPT ![y] = NoPG] ELSE t
       /\ fpg' = LET t == Scrub(fpg, S \cap DS) IN IF y \in PS THEN [t EXCEPT ![y] = NoPG] ELSE t
       /\ held' = held \cup S
       /\ Ok("RemovePair", [c |-> c, x |-> x, y |-> y], {c})
    /\ UNCHANGED <<mem, reg, fnode, mode, Aux>>

\* c.remove_children([x]) where x is not a child of c - an entity under another parent, or a property group of another
\* object - changes nothing: not in memory (entity_container.py:236-239, object_base.py:513-515 skip it) and not in the file
RemoveNotAChild(c, x) ==
    /\ Do("RemoveNotAChild") /\ Writable /\ c \in Att \cap (GS \cup OS) /\ c \notin dirty
    /\ \/ (x \in Att \cap ES /\ x \notin kids[c] /\ x # c /\ x \notin dirty /\ (x \in DS => c \in OS))
       \/ (x \in PS /\ c \in OS /\ pg[x].owner \in Att /\ pg[x].owner # c)
    /\ Ok("RemoveNotAChild", [c |-> c, x |-> x], {})
    /\ UNCHANGED <<mem, kids, pg, reg, fnode, flink, fpg, held, mode, Aux>>

\* ObjectBase.remove_data_from_groups([d1, d2]) (object_base.py:630-648): every group of the object loses both
ScrubData(o, ds) ==
    /\ Do("ScrubData") /\ Writable /\ o \in Att \cap OS /\ ds \subseteq kids[o] \cap DS /\ Cardinality(ds) = 2
    /\ ds \cap dirty = {}
    /\ \E p \in PGsOf(o) : pg[p].props \cap ds # {}
    /\ pg' = [q \in PS |-> IF pg[q].owner = o THEN Scrub(pg, ds)[q] ELSE pg[q]]
    /\ fpg' = [q \in PS |-> IF fpg[q].owner = o THEN Scrub(fpg, ds)[q] ELSE fpg[q]]
    /\ Ok("ScrubData", [o |-> o, ds |-> ds], {o})
    /\ UNCHANGED <<mem, kids, reg, fnode, flink, held, mode, Aux>>

RemovePG(p) ==                                     \* ws.remove_entity(property_group)
    /\ Do("RemovePG") /\ Writable /\ p \in PS /\ pg[p].owner \in Att
    /\ pg' = [pg EXCEPT ![p] = NoPG] /\ fpg' = [fpg EXCEPT ![p] = NoPG]
    /\ Ok("RemovePG", [p |-> p, o |-> pg[p].owner], {pg[p].owner})
    /\ UNCHANGED <<mem, kids, reg, fnode, flink, held, mode, Aux>>

\* ======================= copy
\* Entity.copy -> Workspace.copy_to_parent (workspace.py:231-339; object_base.py:255-311;
\* groups/base.py:114-153; data/data.py:66-117).  Same workspace: fresh identifiers for the entity,
\* every copied child and every property group; property groups reference the copied children.
Copy(s, p, deep) ==
    /\ Do("Copy") /\ Writable /\ s \in Att \cap ES /\ p \in Att /\ Sub(s) \cap dirty = {}
    /\ IF s \in DS THEN p \in OS /\ deep /\ ~Special(mem[s].name) ELSE p \in {Root} \cup GS
    /\ p \notin Sub(s) /\ p \notin dirty
    /\ LET S == IF deep THEN Sub(s) ELSE {s}
           SP == IF deep THEN {q \in PS : pg[q].owner \in S} ELSE {}
       IN
       /\ \A K \in {GS, OS, DS} : Cardinality(S \cap K) <= Cardinality(FreeSet(K))
       /\ Cardinality(SP) <= Cardinality(FreeP)
       /\ LET f == [x \in S |-> Nth(FreeSet(KindSet(x)), Rank(x, S \cap KindSet(x)))]
              fp == [q \in SP |-> Nth(FreeP, Rank(q, SP))]
              New == {f[x] : x \in S}
              src(y) == CHOOSE x \in S : f[x] = y
              srcp(r) == CHOOSE q \in SP : fp[q] = r
              NewP == {fp[q] : q \in SP}
          IN
          /\ mem' = [y \in ES |-> IF y \in New
                                   THEN [mem[src(y)] EXCEPT !.par = IF src(y) = s THEN p ELSE f[mem[src(y)].par]]
                                   ELSE mem[y]]
          /\ kids' = [c \in Cont |-> IF c \in New THEN {f[x] : x \in kids[src(c)] \cap S}
                                     ELSE IF c = p THEN kids[c] \cup {f[s]} ELSE kids[c]]
          /\ reg' = [y \in ES |-> IF y \in New THEN "live" ELSE reg[y]]
          /\ fnode' = [y \in ES |-> IF y \in New THEN Node(src(y)) ELSE fnode[y]]
          /\ flink' = flink \cup {<<IF x = s THEN p ELSE f[mem[x].par], f[x]>> : x \in S}
          /\ pg' = [r \in PS |-> IF r \in NewP
                                  THEN [owner |-> f[pg[srcp(r)].owner], name |-> pg[srcp(r)].name,
                                        props |-> {f[d] : d \in pg[srcp(r)].props}]
                                  ELSE pg[r]]
          /\ fpg' = [r \in PS |-> IF r \in NewP
                                   THEN [owner |-> f[pg[srcp(r)].owner], name |-> pg[srcp(r)].name,
                                         props |-> {f[d] : d \in pg[srcp(r)].props}]
                                   ELSE fpg[r]]
          /\ fopt' = [y \in ES |-> IF y \in New THEN TRUE ELSE fopt[y]]
          /\ Ok("Copy", [s |-> s, p |-> p, deep |-> deep, map |-> f, pmap |-> fp], New \cup {p})
    /\ UNCHANGED <<held, mode, dirty, saved, w2, w2pg>>

\* a group cannot be copied into itself or into one of its own descendants (the copy would be part of what is being
\* copied): the request is refused without side effects (groups/base.py copy)
CopyIntoSelf(s, p) ==
    /\ Do("CopyIntoSelf") /\ Writable /\ s \in Att \cap GS /\ p \in Sub(s) \cap GS /\ Sub(s) \cap dirty = {}
    /\ Refused("CopyIntoSelf", [s |-> s, p |-> p], "ValueError")
    /\ UNCHANGED <<mem, kids, pg, reg, fnode, flink, fpg, held, mode, Aux>>

\* copy into ANOTHER workspace (workspace.py:288-292,310-339): every copied entity and property group keeps its
\* identifier when that identifier is free in the target, otherwise it gets a fresh one; the source is untouched
Copy2(s, deep) ==
    /\ Do("Copy2") /\ mode # "closed" /\ s \in Att \cap (GS \cup OS) /\ Sub(s) \cap dirty = {}     \* the source may be read-only
    /\ LET S == IF deep THEN Sub(s) ELSE {s}
           SP == IF deep THEN {q \in PS : pg[q].owner \in S} ELSE {}
           gen(x) == IF ~w2[W2(x, 0)].on THEN 0 ELSE 1
           genp(q) == IF w2pg[W2(q, 0)].owner = -1 THEN 0 ELSE 1
           t(x) == W2(x, gen(x))
           tp(q) == W2(q, genp(q))
       IN
       /\ \A x \in S : ~w2[t(x)].on
       /\ \A q \in SP : w2pg[tp(q)].owner = -1
       /\ w2' = [y \in W2E |-> IF \E x \in S : t(x) = y
                               THEN LET x == CHOOSE z \in S : t(z) = y IN
                                    [on |-> TRUE, par |-> IF x = s THEN W2Root ELSE t(mem[x].par),
                                     name |-> mem[x].name, flag |-> mem[x].flag, val |-> mem[x].val]
                               ELSE w2[y]]
       /\ w2pg' = [r \in W2P |-> IF \E q \in SP : tp(q) = r
                                 THEN LET q == CHOOSE z \in SP : tp(z) = r IN
                                      [owner |-> t(pg[q].owner), name |-> pg[q].name, props |-> {t(d) : d \in pg[q].props}]
                                 ELSE w2pg[r]]
       /\ Ok("Copy2", [s |-> s, deep |-> deep, map |-> [x \in S |-> t(x)], pmap |-> [q \in SP |-> tp(q)]], {})
    /\ UNCHANGED <<mem, kids, pg, reg, fnode, flink, fpg, held, mode, dirty, fopt, saved>>

\* a single data set copied under an object of the second workspace (data/data.py copy with a parent elsewhere):
\* afterwards its identifier is taken there while the identifier of its source object may still be free
Copy2Data(d, y) ==
    /\ Do("Copy2Data") /\ mode # "closed" /\ d \in Att \cap DS /\ d \notin dirty /\ ~Special(mem[d].name)
    /\ y \in W2E /\ w2[y].on /\ \E o \in OS, g \in {0, 1} : y = W2(o, g)
    /\ LET t == W2(d, IF ~w2[W2(d, 0)].on THEN 0 ELSE 1) IN
       /\ ~w2[t].on
       /\ w2' = [w2 EXCEPT ![t] = [on |-> TRUE, par |-> y, name |-> mem[d].name, flag |-> mem[d].flag, val |-> mem[d].val]]
       /\ Ok("Copy2Data", [s |-> d, y |-> y, t |-> t], {})
    /\ UNCHANGED <<mem, kids, pg, reg, fnode, flink, fpg, held, mode, dirty, fopt, saved, w2pg>>

RECURSIVE W2Down(_, _)
W2Down(front, seen) ==
    IF front = {} THEN seen
    ELSE LET nxt == {y \in W2E : w2[y].on /\ w2[y].par \in front} \ seen IN W2Down(nxt, seen \cup nxt)
\* ws2.remove_entity(y): frees identifiers in the second workspace so that a later copy can keep them again
Remove2(y) ==
    /\ Do("Remove2") /\ y \in W2E /\ w2[y].on /\ w2[y].par = W2Root
    /\ LET D == W2Down({y}, {y}) IN
       /\ \A z \in D : w2[z].flag
       /\ w2' = [z \in W2E |-> IF z \in D THEN NoW2 ELSE w2[z]]
       /\ w2pg' = [r \in W2P |-> IF w2pg[r].owner \in D THEN NoPG ELSE w2pg[r]]
       /\ Ok("Remove2", [y |-> y], {})
    /\ UNCHANGED <<mem, kids, pg, reg, fnode, flink, fpg, held, mode, dirty, fopt, saved>>

\* ======================= close / open
\* Workspace.close (workspace.py:184-218): reading self.groups purges dead GROUP references only, the root subtree is
\* re-saved (a no-op for stored and linked nodes; it links the half-written nodes a failed operation left behind),
\* the handle is released.  `how` is the way the block was left (close() / normal exit of the with-block / exception
\* escaping it).
Hows == {"close", "exit", "raise"}
RECURSIVE FDownL(_, _, _)
FDownL(fl, front, seen) ==
    IF front = {} THEN seen
    ELSE LET nxt == {l[2] : l \in {m \in fl : m[1] \in front}} \ seen
         IN FDownL(fl, nxt, seen \cup nxt)

CloseResult ==                                  \* what the final save leaves in the file
    IF ~Writable THEN [fnode |-> fnode, flink |-> flink, fpg |-> fpg, reg |-> reg, foot |-> {}]
    ELSE LET relink == {<<mem[x].par, x>> : x \in {y \in Att \cap ES : <<mem[y].par, y>> \notin flink}}
             fn1 == [s \in ES |-> IF s \in Att /\ ~fnode[s].on THEN Node(s) ELSE fnode[s]]   \* deferred entities are written
             fl1 == flink \cup relink
             reach1 == FDownL(fl1, {Root}, {Root})
             S == IF "CloseKeepsOrphans" \in Deviations THEN PurgeSet(GS)                  \* as built
                  ELSE {x \in ES : fn1[x].on /\ x \notin reach1} \cup PurgeSet(GS)        \* intended: no unreachable node survives
         IN [fnode |-> [s \in ES |-> IF s \in S THEN NoNode ELSE fn1[s]],
             flink |-> {l \in fl1 : l[1] \notin S},
             fpg   |-> DropOwners(fpg, S),
             reg   |-> [s \in ES |-> IF s \in S /\ reg[s] = "dead" THEN "none" ELSE reg[s]],
             foot  |-> S \cup dirty \cup {mem[x].par : x \in dirty}]

\* Workspace.open (workspace.py:1183-1215): registries reset, tree reloaded from Root
LoadOf(fn, fl, fg) ==
    LET R == FDownL(fl, {Root}, {Root}) IN
    [mem  |-> [s \in ES |-> IF s \in R /\ fn[s].on
                             THEN [par |-> (CHOOSE q \in Cont : <<q, s>> \in fl /\ q \in R),
                                   name |-> fn[s].name, flag |-> fn[s].flag, val |-> fn[s].val, meta |-> fn[s].meta, ty |-> fn[s].ty]
                             ELSE NoMem],
     kids |-> [c \in Cont |-> IF c \in R THEN {l[2] : l \in {x \in fl : x[1] = c}} ELSE {}],
     pg   |-> [p \in PS |-> IF fg[p].owner \in R \ {Root} THEN fg[p] ELSE NoPG],
     reg  |-> [s \in ES |-> IF s \in R THEN "live" ELSE "none"]]

Close(how) ==
    /\ Do("Close") /\ mode # "closed"
    /\ LET C == CloseResult IN
       /\ reg' = C.reg /\ fnode' = C.fnode /\ flink' = C.flink /\ fpg' = C.fpg
       /\ Ok("Close", [how |-> how], C.foot)
    /\ mode' = "closed" /\ dirty' = {}
    /\ UNCHANGED <<mem, kids, pg, held, fopt, saved, w2, w2pg>>

\* fresh: a new Workspace object is constructed on the file in mode m (Workspace(path, mode=m)); otherwise the same
\* object is re-opened (ws.open(mode=m)) and keeps the mode it was constructed with - the two may then differ
Open(m, fresh) ==
    /\ Do("Open") /\ mode = "closed"
    /\ LET L == LoadOf(fnode, flink, fpg) IN
       /\ mem' = L.mem /\ kids' = L.kids /\ pg' = L.pg /\ reg' = L.reg
    /\ held' = {}
    /\ mode' = m
    /\ Ok("Open", [m |-> m, fresh |-> fresh], {})
    /\ UNCHANGED <<fnode, flink, fpg, Aux>>

\* Workspace.save_as (workspace.py:1268-1298): close (final save), copy the bytes to the new path, re-open the SAME
\* Workspace object on the new file.  The original file must stay as it was at that moment; the harness checks that
\* its bytes never change afterwards and that later operations land in the new file.
SaveAs ==
    /\ Do("SaveAs") /\ Writable /\ ~saved
    /\ LET C == CloseResult
           L == LoadOf(C.fnode, C.flink, C.fpg) IN
       /\ fnode' = C.fnode /\ flink' = C.flink /\ fpg' = C.fpg
       /\ mem' = L.mem /\ kids' = L.kids /\ pg' = L.pg /\ reg' = L.reg
       /\ Ok("SaveAs", [x |-> 0], C.foot)
    \* save_as re-opens the SAME Workspace object on the new file with its default, i.e. the mode it was constructed with
    /\ held' = {} /\ mode' = cmode /\ dirty' = {} /\ saved' = TRUE
    /\ UNCHANGED <<fopt, w2, w2pg>>

\* shared.utils.fetch_active_workspace(ws, mode=m) used as a context manager (utils.py:95-123): when the workspace is
\* open and m is contained in its mode ("r" is contained in "r+") the block runs on the workspace as it is; otherwise
\* the workspace is closed (if open), re-opened in mode m, and closed again when the block is left - normally or
\* because an exception escaped it (exc).
Helper(m, exc) ==
    /\ Do("Helper")
    /\ IF mode # "closed" /\ (m = mode \/ (m = "r" /\ mode = "r+"))
       THEN /\ Ok("Helper", [m |-> m, exc |-> exc, reopened |-> FALSE], {})
            /\ UNCHANGED <<mem, kids, pg, reg, fnode, flink, fpg, held, mode, Aux>>
       ELSE LET C == CloseResult
                L == LoadOf(C.fnode, C.flink, C.fpg) IN
            /\ fnode' = C.fnode /\ flink' = C.flink /\ fpg' = C.fpg
            /\ mem' = L.mem /\ kids' = L.kids /\ pg' = L.pg /\ reg' = L.reg
            /\ held' = {} /\ mode' = "closed" /\ dirty' = {}
            /\ Ok("Helper", [m |-> m, exc |-> exc, reopened |-> TRUE], C.foot)
            /\ UNCHANGED <<fopt, saved, w2, w2pg>>

\* any operation that needs the file on a closed workspace raises Geoh5FileClosedError
\* (workspace.py:1000-1008,1409-1441) and changes nothing
ClosedOps == {"create", "values", "rename", "remove", "listing"}
CallClosed(op) ==
    /\ Do("CallClosed") /\ mode = "closed" /\ last.act # "CallClosed"
    /\ Refused("CallClosed", [op |-> op], "Geoh5FileClosedError")
    /\ UNCHANGED <<mem, kids, pg, reg, fnode, flink, fpg, held, mode, Aux>>

\* ======================= next-state relation
\* children lists are appended to on attach and filtered on detach (entity_container.py, object_base.py); a re-load
\* lists children in the order of the HDF5 link names (identifiers), which the model does not know
InordUpdate ==
    LET reloaded == last'.act \in {"Open", "SaveAs"} \/ (last'.act = "Helper" /\ last'.args.reopened) IN
    inord' = [c \in Cont |->
                IF Cardinality(kids'[c]) <= 1 THEN TRUE
                ELSE IF reloaded THEN FALSE
                ELSE IF kids'[c] \subseteq kids[c] THEN inord[c]
                ELSE IF kids[c] \subseteq kids'[c] /\ Cardinality(kids'[c] \ kids[c]) = 1
                     THEN inord[c] /\ \A x \in kids'[c] \ kids[c], y \in kids[c] : y < x
                ELSE FALSE]

Step ==
    \/ \E p \in Cont, n \in Names : CreateGroup(p, n) \/ CreateObject(p, n)
    \/ \E o \in OS, n \in Names, v \in Vals : AddData(o, n, v)
    \/ \E o \in OS : AddVisual(o)
    \/ \E e \in GS \cup OS : AddComment(e) \/ AddFile(e)
    \/ \E u \in GS \cup OS, p \in Cont, n \in Names : CreateWithUid(u, p, n)
    \/ \E s \in ES, n \in Names : Rename(s, n)
    \/ \E s \in ES, b \in BOOLEAN : SetFlag(s, b)
    \/ \E d \in DS, v \in Vals : SetVal(d, v)
    \/ \E s \in GS \cup OS, v \in Vals : SetMeta(s, v)
    \/ \E s \in ES, p \in Cont : Move(s, p)
    \/ \E s \in ES : MoveSame(s) \/ StripOpt(s)
    \/ \E o \in OS, n \in Names : AddDataFails(o, n)
    \/ SaveAs
    \/ \E x \in GS \cup OS, deep \in BOOLEAN : Copy2(x, deep)
    \/ \E y \in W2E : Remove2(y)
    \/ \E m \in {"r+", "r"}, exc \in BOOLEAN : Helper(m, exc)
    \/ \E o \in OS, d \in DS, n \in Names : AddToGroup(o, d, n)
    \/ \E p \in PS, d \in DS : RemoveFromGroup(p, d)
    \/ \E o \in OS, d \in DS, n \in Names, u \in PS \cup ES : PGWithUid(o, d, n, u)
    \/ \E p \in PS : RemovePG(p)
    \/ \E o \in OS, ds \in SUBSET DS : ScrubData(o, ds)
    \/ \E p \in Cont, n \in Names : CreateDeferred(p, n)
    \/ \E s \in ES : RemoveViaWorkspace(s) \/ RemoveViaParent(s) \/ DropRef(s) \/ LookupDead(s)
    \/ Collect
    \/ \E k \in {"G", "O", "D"} : Purge(k)
    \/ \E s \in ES, p \in Cont, deep \in BOOLEAN : Copy(s, p, deep)
    \/ \E h \in Hows : Close(h)
    \/ \E m \in {"r+", "r"}, fresh \in BOOLEAN : Open(m, fresh)
    \/ \E op \in ClosedOps : CallClosed(op)
    \/ \E s \in GS \cup OS : RemoveBlocked(s)
    \/ OpenAgain
    \/ \E d \in DS, e \in DS : SetType(d, e)
    \/ \E d \in DS, y \in W2E : Copy2Data(d, y)
    \/ \E c \in GS \cup OS, x \in ES \cup PS : RemoveNotAChild(c, x)
    \/ \E x \in GS, q \in GS : CopyIntoSelf(x, q)
    \/ \E c \in Cont, x \in ES, y \in ES \cup PS : RemovePair(c, x, y)
    \/ \E o \in OS, n \in Names : AddDataRefused(o, n)
    \/ \E o \in OS, n \in Names, v \in Vals, e \in DS : AddDataLike(o, n, v, e)

CmodeUpdate == cmode' = IF last'.act = "Open" /\ last'.args.fresh THEN last'.args.m ELSE cmode
Next == Step /\ InordUpdate /\ CmodeUpdate
Spec == Init /\ [][Next]_vars
DepthBound == TLCGet("level") <= MaxDepth

\* ======================= properties
\* --- C01: what a fresh reader would load equals what the live workspace shows
LoadTree == [s \in ES |-> IF s \in FReach /\ fnode[s].on
                          THEN [par |-> (CHOOSE q \in Cont : <<q, s>> \in flink /\ q \in FReach),
                                name |-> fnode[s].name, flag |-> fnode[s].flag, val |-> fnode[s].val, meta |-> fnode[s].meta, ty |-> fnode[s].ty]
                          ELSE NoMem]
LiveTree == [s \in ES |-> IF s \in Att THEN mem[s] ELSE NoMem]
LoadPG == [p \in PS |-> IF fpg[p].owner \in FReach THEN fpg[p] ELSE NoPG]
LivePG == [p \in PS |-> IF pg[p].owner \in Att THEN pg[p] ELSE NoPG]
\* (a data slot left half-written by a failed operation is exempt until the next close repairs it)
ReopenEqualsLive == mode # "closed" => (\A s \in ES \ dirty : LoadTree[s] = LiveTree[s]) /\ LoadPG = LivePG

\* --- C02: layout rules that depend on the history (the per-node rules are checked on the real file)
LinksToNodes  == \A l \in flink : l[1] \in FReach => fnode[l[2]].on /\ (l[1] = Root \/ fnode[l[1]].on)
OneParent     == \A s \in ES : fnode[s].on /\ s \in FReach => Cardinality({l \in flink : l[2] = s}) = 1
PGPropsAreChildren == \A p \in PS : fpg[p].owner # -1 =>
                         /\ fnode[fpg[p].owner].on
                         /\ \A d \in fpg[p].props : <<fpg[p].owner, d>> \in flink
NoOrphansWhenClosed == mode = "closed" => \A s \in ES : fnode[s].on => s \in FReach

\* --- C03 (core part): write-through - stored content of every attached entity equals the live one
WriteThrough == mode # "closed" => \A s \in (Att \cap ES) \ dirty : fnode[s] = Node(s)

\* --- C05: nothing refers to an entity that is gone
NoDanglingPG == \A p \in PS : pg[p].owner # -1 => pg[p].props \subseteq kids[pg[p].owner]
RemovedAreGone == \A s \in ES : (Live(s) /\ s \notin Att /\ last.act = "RemoveViaWorkspace") => ~fnode[s].on

\* --- C06: a uid has at most one owner: registries never list an entity that is not that slot's object
RegistryMatchesMemory == \A s \in ES : (reg[s] = "live") = Live(s)

\* --- C09: every action only touches its footprint (content of nodes and their child links)
LinksOf(fl, c) == {l \in fl : l[1] = c}
PGOf(t, o) == {[name |-> t[p].name, props |-> t[p].props] : p \in {q \in PS : t[q].owner = o}}
Footprint ==
    [][\A s \in ES \cup {Root} : s \notin last'.foot =>
            /\ (s \in ES => fnode'[s] = fnode[s])
            /\ LinksOf(flink', s) = LinksOf(flink, s)
            /\ PGOf(fpg', s) = PGOf(fpg, s)]_vars

\* --- C10/C11: a closed or read-only workspace never changes the file
FrozenFile == [][((mode \in {"closed", "r"} /\ mode' \in {"closed", "r"}) => (fnode' = fnode /\ flink' = flink /\ fpg' = fpg))]_vars

\* nothing but a rewrite of a node's own attributes brings back optional attributes a foreign writer omitted
OptStaysStripped == [][\A s \in ES : (fnode[s].on /\ ~fopt[s] /\ fnode'[s].on /\ fopt'[s]) => s \in last'.foot]_vars
DirtyOnlyInRW == dirty # {} => mode = "r+"
\* second workspace: stored parents exist; property groups list children of their owner (C02/C12 on the target file)
W2WellFormed ==
    /\ \A y \in W2E : w2[y].on => (w2[y].par = W2Root \/ w2[w2[y].par].on)
    /\ \A r \in W2P : w2pg[r].owner # -1 => w2[w2pg[r].owner].on /\ \A d \in w2pg[r].props : w2[d].on /\ w2[d].par = w2pg[r].owner
\* C06: a fresh identifier (g = 1) is only used when the original one (g = 0) is taken in the target
FreshOnlyWhenTaken == [][\A x \in ES : (~w2[W2(x, 1)].on /\ w2'[W2(x, 1)].on) => w2[W2(x, 0)].on]_vars
TypeOK ==
    /\ \A s \in ES : Live(s) => mem[s].par \in Cont
    /\ \A c \in Cont : kids[c] \subseteq ES
    /\ held \subseteq ES

\* ======================= export
ExportState == PrintT(<<"ST", TLCFP(vw), TLCFP(<<vw, 1>>), ToJson([mem |-> mem, kids |-> kids, pg |-> pg, reg |-> reg,
                        fnode |-> fnode, flink |-> flink, fpg |-> fpg, held |-> held, mode |-> mode,
                        dirty |-> dirty, fopt |-> fopt, saved |-> saved,
                        w2 |-> [y \in {z \in W2E : w2[z].on} |-> w2[y]],
                        w2pg |-> [r \in {z \in W2P : w2pg[z].owner # -1} |-> w2pg[r]]])>>)
ExportTrans == PrintT(<<"TR", TLCFP(vw), TLCFP(<<vw, 1>>), TLCFP(vw'), TLCFP(<<vw', 1>>), ToJson(last')>>)
=============================================================================
