#!/venv/bin/python
"""Generate the TLC configurations of the core spec (one family per property). Run from spec/core."""
ALL = ["CreateGroup", "CreateObject", "AddData", "AddVisual", "AddComment", "AddFile", "CreateWithUid", "Rename", "SetFlag", "SetVal", "SetMeta", "Move", "MoveSame", "AddToGroup",
       "AddDataFails", "StripOpt", "SaveAs", "Helper", "Copy2", "Remove2", "ScrubData", "CreateDeferred", "PGWithUid",
       "RemoveFromGroup", "RemovePG", "RemoveViaWorkspace", "RemoveViaParent", "DropRef", "Collect", "Purge",
       "LookupDead", "Copy", "Close", "Open", "CallClosed", "RemoveBlocked", "OpenAgain", "SetType", "Copy2Data", "RemoveNotAChild", "CopyIntoSelf", "AddDataLike", "RemovePair", "AddDataRefused"]
INV_ASBUILT = ["TypeOK", "DirtyOnlyInRW", "W2WellFormed", "ReopenEqualsLive", "LinksToNodes", "OneParent", "PGPropsAreChildren", "WriteThrough",
               "NoDanglingPG", "RegistryMatchesMemory"]
PROPS = ["Footprint", "FrozenFile", "OptStaysStripped", "FreshOnlyWhenTaken"]


def cfg(name, ng, no, nd, np_, acts, depth, devs=("CloseKeepsOrphans",), export=True, extra_inv=(), names=("a", "b"),
        vals=(1, 2)):
    lines = ["SPECIFICATION Spec", "CONSTANTS", f"  NG = {ng}", f"  NO = {no}", f"  ND = {nd}", f"  NP = {np_}",
             "  Names = {" + ", ".join(f'"{n}"' for n in names) + "}",
             "  Vals = {" + ", ".join(str(v) for v in vals) + "}",
             "  Acts = {" + ", ".join(f'"{a}"' for a in acts) + "}",
             "  Deviations = {" + ", ".join(f'"{d}"' for d in devs) + "}",
             f"  MaxDepth = {depth}", "CONSTRAINT DepthBound", "VIEW vw"]
    lines += [f"INVARIANT {i}" for i in list(INV_ASBUILT) + list(extra_inv)]
    lines += [f"PROPERTY {p}" for p in PROPS]
    if export:
        lines += ["INVARIANT ExportState", "ACTION_CONSTRAINT ExportTrans"]
    lines += ["CHECK_DEADLOCK FALSE"]
    open(name + ".cfg", "w").write("\n".join(lines) + "\n")


def minus(*drop):
    return [a for a in ALL if a not in drop]


GC = ["DropRef", "Collect", "Purge", "LookupDead"]
NEW = ["RemoveBlocked", "OpenAgain", "SetType", "Copy2Data", "RemoveNotAChild", "CopyIntoSelf", "AddDataLike", "RemovePair", "AddDataRefused", "AddComment", "AddFile", "AddVisual", "SetMeta", "MoveSame", "AddDataFails", "StripOpt", "SaveAs", "Helper", "Copy2", "Remove2", "ScrubData", "CreateDeferred", "PGWithUid"]
BASE = minus("CreateWithUid", "CallClosed", *NEW)
# --- C01: histories of create/assign/rename/move/copy/delete with close/re-open and GC points
cfg("C01_quick", 1, 1, 1, 1, [a for a in BASE if a != "SetFlag"] + ["MoveSame", "CreateDeferred", "AddDataFails"], 6, names=("a",), vals=(1, 2))
# property-group bookkeeping under list removals, in both orders (data in overlapping groups)
cfg("C01pg_quick", 0, 1, 3, 2, ["CreateObject", "AddData", "AddToGroup", "ScrubData", "RemoveFromGroup", "Close", "Open"], 8,
    names=("a", "b"), vals=(1,))
# copies of objects that own property groups, then close / re-open (every object class: the class-specific copy() overrides differ)
cfg("C01cp_quick", 0, 2, 2, 2, ["CreateObject", "AddData", "AddToGroup", "Copy", "Close", "Open"], 6, names=("a",), vals=(1,))
# successive metadata assignments on stored groups and objects (the setter merges), close / re-open in between
cfg("C01md_quick", 1, 1, 1, 1, ["CreateGroup", "CreateObject", "SetMeta", "Close", "Open"], 6, names=("a",), vals=(1, 2))
cfg("C01_thorough", 2, 1, 2, 1, BASE + ["MoveSame", "AddDataFails", "SaveAs", "CreateDeferred", "SetMeta"], 5, names=("a", "b"))
# comments and attached files on groups and objects through create / copy / remove / re-open
cfg("C01cf_quick", 1, 1, 3, 1, ["CreateGroup", "CreateObject", "AddComment", "AddFile", "AddData", "Copy", "Move", "RemoveViaWorkspace",
                                "RemoveViaParent", "RemovePair", "Close", "Open", "Collect", "DropRef"], 6, names=("a",), vals=(1,))
# --- C02: layout of every closed file: removals, re-parenting, copies, failed writes, closes
C02A = ["CreateGroup", "CreateObject", "AddData", "Move", "MoveSame", "AddToGroup", "RemoveViaWorkspace", "RemoveViaParent", "RemovePair",
        "Copy", "Close", "Open", "AddDataFails"] + GC
cfg("C02_quick", 2, 1, 1, 1, C02A, 6, names=("a",), vals=(1,))
# data that are members of property groups re-parented between objects
cfg("C02mv_quick", 0, 2, 2, 2, ["CreateObject", "AddData", "AddToGroup", "Move", "MoveSame", "Copy", "RemoveViaParent", "Close", "Open"], 6,
    names=("a",), vals=(1,))
cfg("C02_thorough", 2, 2, 2, 2, C02A + ["RemoveFromGroup", "SaveAs"], 6, names=("a",), vals=(1,))
# removal requests addressed to the wrong parent (other object's property group, entity under another parent): no effect
cfg("C05na_quick", 1, 2, 2, 1, ["CreateGroup", "CreateObject", "AddData", "AddToGroup", "RemoveNotAChild", "RemovePair", "Close", "Open"], 6, names=("a",), vals=(1,))
# a data set removed through its parent, released, collected, and the listing that purges its node (six actions deep)
cfg("C05gc_quick", 0, 1, 2, 1, ["CreateObject", "AddData", "RemoveViaParent", "DropRef", "Collect", "Purge", "LookupDead", "Close", "Open"], 8,
    names=("a",), vals=(1,))
# --- C05: removal through both entry points; data in 0/1/2 property groups; survivors keep working
C05A = ["CreateGroup", "CreateObject", "AddData", "AddToGroup", "SetFlag", "RemoveViaWorkspace", "RemoveViaParent", "RemovePG",
        "Close", "Open", "Copy"] + GC
# MaxDepth counts the initial state: 6 = behaviours of 5 actions (object, data, two property groups, removal)
cfg("C05_quick", 1, 1, 2, 2, C05A, 6, names=("a", "b"), vals=(1,))
# removal of special children (visual parameters, comments, files) and of their owners
cfg("C05vp_quick", 1, 1, 2, 1, ["CreateGroup", "CreateObject", "AddVisual", "AddComment", "AddFile", "RemoveViaWorkspace",
                                "RemoveViaParent", "Copy", "Close", "Open"] + GC, 5, names=("a",), vals=(1,))
# removal refused below the entity asked for (protected descendants): the as-built partial removal
cfg("C05blk_quick", 2, 1, 2, 1, ["CreateGroup", "CreateObject", "AddData", "SetFlag", "RemoveBlocked", "RemoveViaWorkspace", "Close", "Open",
                                 "Collect", "DropRef"], 7, names=("a",), vals=(1,))
cfg("C05_thorough", 2, 1, 2, 2, C05A + ["RemoveFromGroup", "Move", "RemoveBlocked"], 6, names=("a", "b"), vals=(1,))
# --- C06: identifiers: explicit uids, collisions with live entities of any kind, re-creation, copies
C06A = ["CreateGroup", "CreateObject", "AddData", "CreateWithUid", "RemoveViaWorkspace", "RemoveViaParent", "Copy", "Close",
        "Open", "OpenAgain"] + GC
# property groups requested with identifiers in use (same object, other object, entities of other kinds)
cfg("C06pg_quick", 0, 2, 2, 2, ["CreateObject", "AddData", "AddToGroup", "PGWithUid", "RemoveFromGroup", "Close", "Open"], 6,
    names=("a", "b"), vals=(1,))
cfg("C06_quick", 2, 1, 1, 1, C06A, 6, names=("a",), vals=(1,))
cfg("C06_thorough", 2, 2, 2, 1, C06A + ["AddToGroup"], 6, names=("a",), vals=(1,))
# cross-workspace copies: identifiers kept when free in the target, fresh otherwise (also after freeing them again)
C06X = ["CreateGroup", "CreateObject", "AddData", "AddToGroup", "Copy2", "Remove2", "RemoveViaWorkspace", "Copy"]
cfg("C06x_quick", 1, 1, 1, 1, C06X, 8, names=("a",), vals=(1,))
cfg("C06x_thorough", 2, 1, 2, 1, C06X + ["Close", "Open"], 8, names=("a",), vals=(1,))
# --- C09: every single mutation applied to every reachable state; footprint; files with omitted optional attributes
cfg("C09_quick", 1, 1, 1, 1, [a for a in BASE if a != "LookupDead"] + ["MoveSame", "StripOpt"], 6, names=("a", "b"), vals=(1, 2))
# bystanders: several data sets (shared types), visual parameters, shallow copies, metadata
cfg("C09by_quick", 0, 2, 2, 1, ["CreateObject", "AddData", "AddVisual", "AddComment", "AddFile", "AddDataRefused", "Copy", "SetVal", "SetMeta",
                                "Rename", "AddToGroup", "RemoveViaWorkspace", "Collect", "DropRef", "Purge", "Close", "Open"], 5, names=("a",), vals=(1, 2))
# shared data types: copies share the type of their source; re-assigning the type of one data set leaves the others alone
cfg("C09ty_quick", 0, 1, 3, 1, ["CreateObject", "AddData", "AddDataLike", "Copy", "SetType", "SetVal", "RemoveViaWorkspace", "Collect", "DropRef",
                                "Close", "Open"], 8, names=("a",), vals=(1,))
cfg("C09_thorough", 2, 1, 2, 2, BASE + ["MoveSame", "StripOpt", "AddDataFails", "SetMeta", "AddVisual", "SetType"], 5, names=("a", "b"), vals=(1, 2))
# --- C11: close / abort at every point (also after a failed operation), calls on a closed workspace, re-open,
#          save_as, fetch_active_workspace re-opening in another mode
C11A = ["CreateGroup", "CreateObject", "AddData", "SetVal", "Rename", "RemoveViaWorkspace", "RemoveViaParent", "Close", "Open",
        "CallClosed", "AddDataFails", "SaveAs", "Helper", "OpenAgain"]
cfg("C11_quick", 1, 1, 1, 1, C11A, 5, names=("a", "b"))
# a workspace constructed read-only and re-opened for writing: the final save of close (deferred entities, half-written nodes)
cfg("C11ro_quick", 1, 1, 1, 1, ["CreateObject", "AddDataFails", "CreateDeferred", "Close", "Open"], 8, names=("a",), vals=(1,))
cfg("C11_thorough", 2, 1, 2, 1, C11A + ["Move", "Copy", "AddToGroup", "Collect", "DropRef"], 6, names=("a", "b"))
# --- C12: copies of data / objects / groups, deep and shallow, then edits of copy and source, re-open
C12A = ["CreateGroup", "CreateObject", "AddData", "AddToGroup", "Copy", "SetVal", "SetMeta", "Rename", "Close", "Open"]
cfg("C12_quick", 1, 2, 2, 1, C12A, 5, names=("a", "b"), vals=(1, 2))
cfg("C12_thorough", 2, 2, 3, 2, C12A + ["SetFlag", "Move"], 5, names=("a", "b"), vals=(1, 2))
# nested groups with differently named members, copied deep and shallow (options given to copy() are for the copied entity only)
cfg("C12grp_quick", 2, 2, 1, 1, ["CreateGroup", "CreateObject", "Copy", "CopyIntoSelf"], 5, names=("a", "b"), vals=(1,))
# visual parameters and metadata of copies (aliasing between copy and source)
cfg("C12vp_quick", 1, 2, 2, 1, ["CreateObject", "AddVisual", "AddData", "Copy", "SetMeta", "RemoveViaWorkspace", "Close", "Open"], 6,
    names=("a",), vals=(1, 2))
C12X = ["CreateGroup", "CreateObject", "AddData", "AddToGroup", "Copy2", "Remove2", "SetVal", "Rename"]
cfg("C12x_quick", 1, 1, 2, 1, C12X, 6, names=("a", "b"), vals=(1, 2))
# copies out of a read-only source; a child whose identifier is taken in the target while its object's is free
cfg("C12xd_quick", 0, 2, 1, 1, ["CreateObject", "AddData", "AddToGroup", "Copy2", "Copy2Data"], 8, names=("a",), vals=(1,))
cfg("C12ro_quick", 0, 1, 1, 1, ["CreateObject", "AddData", "AddToGroup", "Copy2", "Copy2Data", "Close", "Open"], 8, names=("a",), vals=(1,))
cfg("C12x_thorough", 2, 1, 2, 2, C12X + ["Close", "Open", "Copy", "Copy2Data"], 6, names=("a", "b"), vals=(1, 2))
# --- random simulation with larger constants (thorough tiers): long behaviours, more entities
cfg("Sim_all", 3, 2, 4, 2, minus("CallClosed"), 60, names=("a", "b"), vals=(1, 2))
cfg("Sim_remove", 3, 2, 4, 2, C05A + ["RemoveFromGroup", "Move", "MoveSame", "CreateWithUid", "AddDataFails"], 60,
    names=("a", "b"), vals=(1, 2))
# --- Ideal design: no deviation, every invariant incl. NoOrphansWhenClosed must hold (no export)
cfg("Ideal_quick", 1, 1, 2, 1, minus("CallClosed"), 5, devs=(), export=False, extra_inv=("NoOrphansWhenClosed",))
cfg("Ideal_thorough", 2, 1, 2, 2, minus("CallClosed"), 6, devs=(), export=False, extra_inv=("NoOrphansWhenClosed",))
# --- negative control: the as-built close violates NoOrphansWhenClosed
cfg("AsBuilt_orphans", 1, 1, 1, 1, minus("CallClosed", *NEW), 6, export=False, extra_inv=("NoOrphansWhenClosed",))
print("ok")
