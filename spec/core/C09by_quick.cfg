SPECIFICATION Spec
CONSTANTS
  NG = 0
  NO = 2
  ND = 2
  NP = 1
  Names = {"a"}
  Vals = {1, 2}
  Acts = {"CreateObject", "AddData", "AddVisual", "AddComment", "AddFile", "AddDataRefused", "Copy", "SetVal", "SetMeta", "Rename", "AddToGroup", "RemoveViaWorkspace", "Collect", "DropRef", "Purge", "Close", "Open"}
  Deviations = {"CloseKeepsOrphans"}
  MaxDepth = 5
CONSTRAINT DepthBound
VIEW vw
INVARIANT TypeOK
INVARIANT DirtyOnlyInRW
INVARIANT W2WellFormed
INVARIANT ReopenEqualsLive
INVARIANT LinksToNodes
INVARIANT OneParent
INVARIANT PGPropsAreChildren
INVARIANT WriteThrough
INVARIANT NoDanglingPG
INVARIANT RegistryMatchesMemory
PROPERTY Footprint
PROPERTY FrozenFile
PROPERTY OptStaysStripped
PROPERTY FreshOnlyWhenTaken
INVARIANT ExportState
ACTION_CONSTRAINT ExportTrans
CHECK_DEADLOCK FALSE
