SPECIFICATION Spec
CONSTANTS
  NG = 1
  NO = 1
  ND = 2
  NP = 1
  Names = {"a"}
  Vals = {1}
  Acts = {"CreateGroup", "CreateObject", "AddVisual", "AddComment", "AddFile", "RemoveViaWorkspace", "RemoveViaParent", "Copy", "Close", "Open", "DropRef", "Collect", "Purge", "LookupDead"}
  Deviations = {"CloseKeepsOrphans"}
  MaxDepth = 5
CONSTRAINT DepthBound
VIEW vw
INVARIANT TypeOK
INVARIANT DirtyOnlyInRW
INVARIANT W2WellFormed
INVARIANT ReopenEqualsLive
INVARIANT LinksToNodes
INVARIANT OneParent
INVARIANT PGPropsAreChildren
INVARIANT WriteThrough
INVARIANT NoDanglingPG
INVARIANT RegistryMatchesMemory
PROPERTY Footprint
PROPERTY FrozenFile
PROPERTY OptStaysStripped
PROPERTY FreshOnlyWhenTaken
INVARIANT ExportState
ACTION_CONSTRAINT ExportTrans
CHECK_DEADLOCK FALSE
