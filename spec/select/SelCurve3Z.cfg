SPECIFICATION Spec
CONSTANTS
  Kind = "curve"
  NX = 2
  NY = 2
  NZ = 2
  MinV = 2
  MaxV = 3
  MaxCells = 3
  BoxMode = "cross"
  Dims = {3}
  Deviations = {}
INVARIANT PointsExact
INVARIANT HoleExact
INVARIANT CellsExact
INVARIANT VertexClosure
INVARIANT Partition
INVARIANT NoneOnlyWhenAllowed
INVARIANT CopyExact
INVARIANT GroupExact
INVARIANT ExportCase
CHECK_DEADLOCK FALSE
