SPECIFICATION Spec
CONSTANTS
  Kind = "octree"
  NUs = {1}
  NVs = {1}
  NWs = {1}
  DUs = {1}
  DVs = {2}
  DWs = {3}
  Layouts = {0, 2}
  Rots = {0, 7}
  Dips = {0}
  Orgs = {0}
  Dims = {2, 3}
  BoxMode = "cross"
  Deviations = {}
INVARIANT CentresExact
INVARIANT Partition
INVARIANT NoneOnlyWhenAllowed
INVARIANT ValuesFollow
INVARIANT StoredEqualsLive
INVARIANT SmallestSubGrid
INVARIANT FacesSafe
INVARIANT ExportCase
CHECK_DEADLOCK FALSE
