SPECIFICATION Spec
CONSTANTS
  Kind = "surface"
  NX = 2
  NY = 2
  NZ = 2
  MinV = 3
  MaxV = 4
  MaxCells = 1
  BoxMode = "cross"
  Dims = {3}
  Deviations = {}
INVARIANT PointsExact
INVARIANT HoleExact
INVARIANT CellsExact
INVARIANT VertexClosure
INVARIANT Partition
INVARIANT NoneOnlyWhenAllowed
INVARIANT CopyExact
INVARIANT GroupExact
INVARIANT ExportCase
CHECK_DEADLOCK FALSE
