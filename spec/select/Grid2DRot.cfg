SPECIFICATION Spec
CONSTANTS
  Kind = "grid2d"
  NUs = {1, 2, 3}
  NVs = {1, 2, 3}
  NWs = {1}
  DUs = {1, 2}
  DVs = {1, 3}
  DWs = {1}
  Layouts = {0}
  Rots = {1, 2, 3, 4, 5, 6, 7, 8, 9, 10, 11, 12}
  Dips = {0}
  Orgs = {1}
  Dims = {2}
  BoxMode = "cross"
  Deviations = {}
INVARIANT CentresExact
INVARIANT Partition
INVARIANT NoneOnlyWhenAllowed
INVARIANT ValuesFollow
INVARIANT StoredEqualsLive
INVARIANT SmallestSubGrid
INVARIANT FacesSafe
INVARIANT ExportCase
CHECK_DEADLOCK FALSE
