SPECIFICATION Spec
CONSTANTS
  Kind = "drillhole"
  NX = 2
  NY = 1
  NZ = 1
  MinV = 1
  MaxV = 1
  MaxCells = 0
  BoxMode = "full"
  Dims = {2}
  Deviations = {"HoleMaskAsVertexMask"}
INVARIANT PointsExact
INVARIANT HoleExact
INVARIANT CellsExact
INVARIANT VertexClosure
INVARIANT Partition
INVARIANT NoneOnlyWhenAllowed
INVARIANT CopyExact
INVARIANT GroupExact
CHECK_DEADLOCK FALSE
