SPECIFICATION Spec
CONSTANTS
  Kind = "grid2d"
  NUs = {2}
  NVs = {2}
  NWs = {1}
  DUs = {1}
  DVs = {1}
  DWs = {1}
  Layouts = {0}
  Rots = {0}
  Dips = {0}
  Orgs = {0}
  Dims = {2}
  BoxMode = "cross"
  Deviations = {"OpenBox"}
INVARIANT CentresExact
INVARIANT Partition
INVARIANT NoneOnlyWhenAllowed
INVARIANT ValuesFollow
INVARIANT StoredEqualsLive
INVARIANT SmallestSubGrid
INVARIANT FacesSafe
CHECK_DEADLOCK FALSE
