---------------------------- MODULE ExtentSelect ----------------------------
(* C13 - spatial selection on vertex objects: Points, Curve, Surface, Drillhole (collar) and    *)
(* ContainerGroup (children recursively), plus utils.mask_by_extent and Data.mask_by_extent.    *)
(* Function-style: Init enumerates (object, box) on a small integer lattice, the single action   *)
(* Select computes Mask / CopyFromExtent for inverse = FALSE and TRUE, invariants state C13 on   *)
(* the result, ExportCase prints one CASE line per configuration (replayed by harness/checks/   *)
(* C13.py into mask_by_extent / copy_from_extent).                                              *)
(* Coordinates are in half lattice units (Q = 2): lattice point (x,y,z) is <<2x,2y,2z>>, box     *)
(* faces are the integers -1 .. 2n-1, i.e. the lattice values and the half-way values, one step  *)
(* beyond the lattice on both sides.  Vertices / cells are 0-based as in the code.               *)
EXTENDS ExtentBox, TLC, Json

CONSTANTS
    Kind,        \* "points" | "curve" | "surface" | "drillhole" | "group"
    NX, NY, NZ,  \* lattice sizes: x in 0..NX-1, y in 0..NY-1, z in 0..NZ-1
    MinV, MaxV,  \* vertices per object (per leaf for groups)
    MaxCells,    \* at most this many cells per object
    BoxMode,     \* "full" | "cross"  (see ExtentBox)
    Dims,        \* subset of {2, 3}: 2-D (x,y) and/or 3-D extents
    Deviations   \* {} = the property.  "OpenBox": strict inequalities ; "KeepOrphans": vertices of
                 \* dropped cells stay selected ; "AnyVertex": a cell is kept when any vertex qualifies

VARIABLES cfg, out
vars == <<cfg, out>>

Q == 2
Arity == CASE Kind = "curve" -> 2 [] Kind = "surface" -> 3 [] OTHER -> 0
NoOut == [none |-> TRUE]

\* ------------------------------------------------------------------ input space
NP == NX * NY * NZ
Pt(k) == <<2 * (k % NX), 2 * ((k \div NX) % NY), 2 * (k \div (NX * NY))>>
\* vertex lists: strictly increasing lattice ids (all distinct vertices, every subset once)
IdSeqs(n) == {s \in [1..n -> 0..(NP - 1)] : \A i \in 1..(n - 1) : s[i] < s[i + 1]}
VertSeqs == UNION {{[i \in 1..n |-> Pt(s[i])] : s \in IdSeqs(n)} : n \in MinV..MaxV}

\* all possible cells over nv vertices (mixed orientations), in a fixed order
Pool(nv) ==
    CASE Arity = 2 /\ nv = 2 -> << <<0, 1>> >>
      [] Arity = 2 /\ nv = 3 -> << <<0, 1>>, <<2, 0>>, <<1, 2>> >>
      [] Arity = 2 /\ nv = 4 -> << <<0, 1>>, <<2, 0>>, <<1, 2>>, <<0, 3>>, <<3, 1>>, <<2, 3>> >>
      [] Arity = 3 /\ nv = 3 -> << <<0, 1, 2>> >>
      [] Arity = 3 /\ nv = 4 -> << <<0, 1, 2>>, <<0, 3, 1>>, <<2, 3, 0>>, <<3, 2, 1>> >>
      [] OTHER -> <<>>
\* every non-empty cell set (so every "vertex used by no cell" pattern), as a sequence
CellSeqs(nv) ==
    IF Arity = 0 THEN {<<>>}
    ELSE LET pool == Pool(nv) IN
         {[i \in 1..Cardinality(S) |-> pool[SelectIdx([j \in 1..Len(pool) |-> j \in S], Len(pool))[i]]] :
            S \in {T \in SUBSET (1..Len(pool)) : T # {} /\ Cardinality(T) <= MaxCells}}
Objs == UNION {[verts : {v}, cells : CellSeqs(Len(v))] : v \in VertSeqs}

\* box faces per axis: -1 .. 2n-1 half units ; Reduced = strictly around everything, exactly the
\* lattice range (faces on the outermost points) and the degenerate interval on the first value
Iv(n) == Intervals(Faces(0 - 1, 2 * n - 1, 1))
Red(n) == {<<0 - 1, 2 * n - 1>>, <<0, 2 * (n - 1)>>, <<0, 0>>}
Boxes(d) ==
    IF d = 2 THEN (IF BoxMode = "full" THEN Full2(Iv(NX), Iv(NY))
                   ELSE Cross2(Iv(NX), Iv(NY), Red(NX), Red(NY)))
    ELSE (IF BoxMode = "full" THEN Full3(Iv(NX), Iv(NY), Iv(NZ))
          ELSE Cross3(Iv(NX), Iv(NY), Iv(NZ), Red(NX), Red(NY), Red(NZ)))
BoxSet == UNION {Boxes(d) : d \in Dims}

\* groups: top{ a, sub{ b, c } } ; c may be absent (<<>>), every leaf is a Points object
Leafs == VertSeqs

\* the configurations: (object, box) or (group, box).  Never built as one set: TLC sorts explicit
\* sets quadratically, so Select quantifies over the two small factors instead.
MkCfg(verts, cells, leaves, nd, box) == [verts |-> verts, cells |-> cells, leaves |-> leaves, nd |-> nd, box |-> box]
\* drillholes: number of depth samples (= vertices) the hole carries besides its collar
HoleNd == IF Kind = "drillhole" THEN {0, 1, 3} ELSE {0}

\* ------------------------------------------------------------------ the selection
Open == "OpenBox" \in Deviations

\* Mask(obj, box, inverse) and CopyFromExtent(obj, box, inverse) for one vertex object of arity ar
Sel(verts, cells, ar, box, inv) ==
    LET nv == Len(verts)
        nc == Len(cells)
        \* utils.mask_by_extent on the vertices (points.py:67, cell_object.py:65); this is also
        \* Data.mask_by_extent of VERTEX data (data.py:248-249)
        q == [i \in 1..nv |-> QualifiesD(verts[i], box, inv, Open)]
        \* cell_object.py:69  np.all(vert_mask[self.cells], axis=1) ; also Data.mask_by_extent of
        \* CELL data on a cell object (data.py:255-257)
        ck == [c \in 1..nc |-> IF "AnyVertex" \in Deviations
                               THEN \E a \in 1..ar : q[cells[c][a] + 1]
                               ELSE \A a \in 1..ar : q[cells[c][a] + 1]]
        \* cell_object.py:70-72 orphan_mask: only vertices of kept cells survive
        used == [i \in 1..nv |-> \E c \in 1..nc : ck[c] /\ \E a \in 1..ar : cells[c][a] + 1 = i]
        mask == IF ar = 0 \/ "KeepOrphans" \in Deviations THEN q
                ELSE [i \in 1..nv |-> q[i] /\ used[i]]
        \* points.py:64 / cell_object.py:62  box_intersect(self.extent, extent)
        miss == ~Intersects(BBox(Range(verts)), box)
        any == \E i \in 1..nv : mask[i]
        kept == SelectIdx(mask, nv)
        keptc == SelectIdx([c \in 1..nc |-> ck[c] /\ \A a \in 1..ar : mask[cells[c][a] + 1]], nc)
    IN [q |-> q, ck |-> ck, mask |-> mask, miss |-> miss,
        \* C13: "nothing is returned only when the box misses the bounding box or no element qualifies"
        none_ok |-> miss \/ ~any,
        \* what the code returns None for: a miss (both classes), an empty selection (cell objects,
        \* cell_object.py:74).  Points return an all-False mask / an empty copy instead.
        code_none |-> miss \/ (ar # 0 /\ ~any),
        \* The copy record describes the live copy AND the copy as stored in the file (what a later reader
        \* gets): copy_to_parent saves vertices / cells / values when the entity is created
        \* (workspace.py copy_to_parent -> create_entity -> save_entity); the harness compares both views.
        \* points.py:152 vertices[mask] ; cell_object.py:172-182 new_id re-indexing, new_cells[cell_mask];
        \* data.py:103 values[mask] for VERTEX data, values[cell_mask] for CELL data
        copy |-> [verts |-> [i \in 1..Len(kept) |-> kept[i] - 1],
                  cells |-> [c \in 1..Len(keptc) |->
                                [a \in 1..ar |-> PosOf(kept, cells[keptc[c]][a] + 1) - 1]],
                  csrc |-> [c \in 1..Len(keptc) |-> keptc[c] - 1]]]

\* ContainerGroup.copy_from_extent (groups/base.py:155-190): every child is copied by extent into
\* the new group, a (nested) group left without children is removed and None is returned.
\* A leaf that is absent has verts = <<>>.
GroupSel(leaves, box, inv) ==
    LET leaf == [l \in 1..3 |->
                   IF leaves[l] = <<>> THEN [present |-> FALSE, kept |-> <<>>, code_none |-> TRUE, none_ok |-> TRUE]
                   ELSE LET s == Sel(leaves[l], <<>>, 0, box, inv) IN
                        [present |-> TRUE, kept |-> s.copy.verts, code_none |-> s.code_none, none_ok |-> s.none_ok]]
        sub_none == leaf[2].code_none /\ leaf[3].code_none      \* base.py:187 len(children) == 0
        top_none == leaf[1].code_none /\ sub_none
    IN [leaf |-> leaf, sub_none |-> sub_none, code_none |-> top_none,
        \* every leaf is missed by the box or has no qualifying vertex (leaf-level reading of C13)
        none_ok |-> \A l \in 1..3 : leaf[l].none_ok]

\* Drillhole (drillhole.py:192-210): one element, the hole, selected by its collar; extent = the collar
\* point, so "the box misses the bounding box" = the collar is outside the box.  C13: the hole is
\* copied exactly when its collar qualifies.
\* Named deviation HoleMaskAsVertexMask (as built): Drillhole inherits Points.copy, so the 1-element
\* collar mask is applied to the hole's vertices (points.py:146-152): ValueError unless the hole has
\* exactly one vertex, and a hole is returned whatever the mask says.
HoleSel(verts, nd, box, inv) ==
    LET s == Sel(verts, <<>>, 0, box, inv)
        ideal == IF s.miss \/ ~s.mask[1] THEN "none" ELSE "hole"
        asbuilt == IF s.miss THEN "none" ELSE IF nd \in {0, 1} THEN "hole" ELSE "raises"
    IN [q |-> s.q, mask |-> s.mask, miss |-> s.miss, none_ok |-> s.none_ok, code_none |-> s.code_none,
        outcome |-> IF "HoleMaskAsVertexMask" \in Deviations THEN asbuilt ELSE ideal,
        asbuilt |-> asbuilt]

Result(c, inv) == CASE Kind = "group" -> GroupSel(c.leaves, c.box, inv)
                    [] Kind = "drillhole" -> HoleSel(c.verts, c.nd, c.box, inv)
                    [] OTHER -> Sel(c.verts, c.cells, Arity, c.box, inv)

\* ------------------------------------------------------------------ behaviour
\* One initial state; Select picks a configuration and computes its outcome in the same step
\* (TLC handles many successors of one state much faster than many initial states).
NoCfg == MkCfg(<<>>, <<>>, <<>>, 0, [lo |-> <<>>, hi |-> <<>>])
Init == cfg = NoCfg /\ out = NoOut
Pick(c) == /\ cfg' = c
           /\ out' = [none |-> FALSE, f |-> Result(c, FALSE), t |-> Result(c, TRUE)]
Select == /\ out = NoOut
          /\ IF Kind = "group"
             THEN \E la \in Leafs : \E lb \in Leafs : \E lc \in Leafs \cup {<<>>} : \E b \in BoxSet :
                     Pick(MkCfg(<<>>, <<>>, <<la, lb, lc>>, 0, b))
             ELSE \E o \in Objs : \E nd \in HoleNd : \E b \in BoxSet : Pick(MkCfg(o.verts, o.cells, <<>>, nd, b))
Next == Select
Spec == Init /\ [][Next]_vars

\* ------------------------------------------------------------------ properties (C13)
Done == ~out.none
IsObj == Kind \notin {"group", "drillhole"}
IsHole == Kind = "drillhole"
NV == Len(cfg.verts)
NC == Len(cfg.cells)
Inside(i) == InBox(cfg.verts[i], cfg.box)         \* the closed box, elevation ignored for 2-D boxes
CellOf(c) == {cfg.cells[c][a] + 1 : a \in 1..Arity}
R(inv) == IF inv THEN out.t ELSE out.f
Wanted(i, inv) == Inside(i) # inv

\* point clouds (and drillhole collars): selected exactly when inside the closed box; inverse = complement
PointsExact ==
    (Done /\ (IsObj \/ IsHole) /\ Arity = 0) =>
        \A inv \in BOOLEAN : \A i \in 1..NV : R(inv).mask[i] <=> Wanted(i, inv)
\* a drillhole is copied exactly when its collar qualifies; None only for a miss / a collar that does not qualify
HoleExact ==
    (Done /\ IsHole) => \A inv \in BOOLEAN :
        /\ R(inv).outcome = "hole" <=> Wanted(1, inv) /\ ~R(inv).miss
        /\ R(inv).outcome = "none" => R(inv).none_ok
        /\ R(inv).outcome # "raises"
\* curves / surfaces keep precisely the cells whose vertices all qualify ...
CellsExact ==
    (Done /\ IsObj /\ Arity # 0) =>
        \A inv \in BOOLEAN : \A c \in 1..NC : R(inv).ck[c] <=> \A i \in CellOf(c) : Wanted(i, inv)
\* ... together with the vertices those cells use
VertexClosure ==
    (Done /\ IsObj /\ Arity # 0) =>
        \A inv \in BOOLEAN : \A i \in 1..NV :
            R(inv).mask[i] <=> \E c \in 1..NC : R(inv).ck[c] /\ i \in CellOf(c)
\* mask and inverse mask partition the points; for cell objects the two selections are disjoint and
\* the cells in neither are exactly the straddling ones
Partition ==
    (Done /\ IsObj) =>
        /\ \A i \in 1..NV : ~(out.f.mask[i] /\ out.t.mask[i])
        /\ Arity = 0 => \A i \in 1..NV : out.f.mask[i] \/ out.t.mask[i]
        /\ \A c \in 1..NC : /\ ~(out.f.ck[c] /\ out.t.ck[c])
                            /\ (~out.f.ck[c] /\ ~out.t.ck[c]) <=>
                                  ((\E i \in CellOf(c) : Inside(i)) /\ (\E i \in CellOf(c) : ~Inside(i)))
\* nothing is returned only when the box misses the bounding box or no element qualifies
NoneOnlyWhenAllowed ==
    Done => \A inv \in BOOLEAN :
        /\ R(inv).code_none => R(inv).none_ok
        /\ (IsObj \/ IsHole) =>
              /\ R(inv).none_ok <=> (R(inv).miss \/ \A i \in 1..NV : ~R(inv).mask[i])
              /\ R(inv).miss => \A i \in 1..NV : ~Inside(i)
\* the copy holds exactly the selected vertices; copied cells join the same coordinates (source
\* vertices) as the cells they come from; data follow (copy.verts / copy.csrc are the source
\* indices of the vertex / cell data entries)
CopyExact ==
    (Done /\ IsObj) => \A inv \in BOOLEAN :
        LET cp == R(inv).copy IN
        /\ {cp.verts[i] + 1 : i \in DOMAIN cp.verts} = {i \in 1..NV : R(inv).mask[i]}
        /\ \A i \in 1..(Len(cp.verts) - 1) : cp.verts[i] < cp.verts[i + 1]
        /\ {cp.csrc[c] + 1 : c \in DOMAIN cp.csrc} = {c \in 1..NC : R(inv).ck[c]}
        /\ \A c \in DOMAIN cp.cells : \A a \in 1..Arity :
              /\ cp.cells[c][a] + 1 \in DOMAIN cp.verts
              /\ cp.verts[cp.cells[c][a] + 1] = cfg.cells[cp.csrc[c] + 1][a]
\* groups: the copy is None exactly when no child is copied, and that only happens when nothing qualifies
\* below it or every child is missed
GroupExact ==
    (Done /\ Kind = "group") => \A inv \in BOOLEAN :
        /\ R(inv).code_none => \A l \in 1..3 : R(inv).leaf[l].none_ok
        /\ \A l \in 1..3 : R(inv).leaf[l].present =>
              {R(inv).leaf[l].kept[i] + 1 : i \in DOMAIN R(inv).leaf[l].kept}
                 = {i \in 1..Len(cfg.leaves[l]) : InBox(cfg.leaves[l][i], cfg.box) # inv}

\* ------------------------------------------------------------------ export
ExportCase == Done => PrintT(<<"CASE", ToJson([kind |-> Kind, q |-> Q, verts |-> cfg.verts, cells |-> cfg.cells,
                                               leaves |-> cfg.leaves, nd |-> cfg.nd, box |-> cfg.box,
                                               f |-> out.f, t |-> out.t])>>)
=============================================================================
