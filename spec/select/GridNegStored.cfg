SPECIFICATION Spec
CONSTANTS
  Kind = "grid2d"
  NUs = {3}
  NVs = {3}
  NWs = {1}
  DUs = {1}
  DVs = {1}
  DWs = {1}
  Layouts = {0}
  Rots = {7}
  Dips = {0}
  Orgs = {0}
  Dims = {2}
  BoxMode = "cross"
  Deviations = {"BlankInMemoryOnly"}
INVARIANT CentresExact
INVARIANT Partition
INVARIANT NoneOnlyWhenAllowed
INVARIANT ValuesFollow
INVARIANT StoredEqualsLive
INVARIANT SmallestSubGrid
INVARIANT FacesSafe
CHECK_DEADLOCK FALSE
