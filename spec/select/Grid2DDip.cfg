SPECIFICATION Spec
CONSTANTS
  Kind = "grid2d"
  NUs = {2, 3}
  NVs = {2, 3}
  NWs = {1}
  DUs = {1}
  DVs = {1, 2}
  DWs = {1}
  Layouts = {0}
  Rots = {0, 1, 4, 7, 9}
  Dips = {1, 2, 3, 4, 5, 7, 8}
  Orgs = {0}
  Dims = {2, 3}
  BoxMode = "cross"
  Deviations = {}
INVARIANT CentresExact
INVARIANT Partition
INVARIANT NoneOnlyWhenAllowed
INVARIANT ValuesFollow
INVARIANT StoredEqualsLive
INVARIANT SmallestSubGrid
INVARIANT FacesSafe
INVARIANT ExportCase
CHECK_DEADLOCK FALSE
