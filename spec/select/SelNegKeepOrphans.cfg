SPECIFICATION Spec
CONSTANTS
  Kind = "curve"
  NX = 3
  NY = 1
  NZ = 1
  MinV = 3
  MaxV = 3
  MaxCells = 3
  BoxMode = "full"
  Dims = {2}
  Deviations = {"KeepOrphans"}
INVARIANT PointsExact
INVARIANT HoleExact
INVARIANT CellsExact
INVARIANT VertexClosure
INVARIANT Partition
INVARIANT NoneOnlyWhenAllowed
INVARIANT CopyExact
INVARIANT GroupExact
CHECK_DEADLOCK FALSE
