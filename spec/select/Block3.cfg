SPECIFICATION Spec
CONSTANTS
  Kind = "block"
  NUs = {3}
  NVs = {1, 2}
  NWs = {1}
  DUs = {1}
  DVs = {3}
  DWs = {4}
  Layouts = {0}
  Rots = {0, 4, 11}
  Dips = {0}
  Orgs = {2}
  Dims = {2, 3}
  BoxMode = "cross"
  Deviations = {}
INVARIANT CentresExact
INVARIANT Partition
INVARIANT NoneOnlyWhenAllowed
INVARIANT ValuesFollow
INVARIANT StoredEqualsLive
INVARIANT SmallestSubGrid
INVARIANT FacesSafe
INVARIANT ExportCase
CHECK_DEADLOCK FALSE
