SPECIFICATION Spec
CONSTANTS
  Kind = "block"
  NUs = {1, 2}
  NVs = {1, 2}
  NWs = {1, 2}
  DUs = {1}
  DVs = {2}
  DWs = {3}
  Layouts = {0}
  Rots = {0, 1, 5}
  Dips = {0}
  Orgs = {1}
  Dims = {2, 3}
  BoxMode = "cross"
  Deviations = {}
INVARIANT CentresExact
INVARIANT Partition
INVARIANT NoneOnlyWhenAllowed
INVARIANT ValuesFollow
INVARIANT StoredEqualsLive
INVARIANT SmallestSubGrid
INVARIANT FacesSafe
INVARIANT ExportCase
CHECK_DEADLOCK FALSE
