SPECIFICATION Spec
CONSTANTS
  Kind = "points"
  NX = 3
  NY = 3
  NZ = 2
  MinV = 1
  MaxV = 2
  MaxCells = 0
  BoxMode = "cross"
  Dims = {2, 3}
  Deviations = {}
INVARIANT PointsExact
INVARIANT HoleExact
INVARIANT CellsExact
INVARIANT VertexClosure
INVARIANT Partition
INVARIANT NoneOnlyWhenAllowed
INVARIANT CopyExact
INVARIANT GroupExact
INVARIANT ExportCase
CHECK_DEADLOCK FALSE
