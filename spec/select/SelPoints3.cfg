SPECIFICATION Spec
CONSTANTS
  Kind = "points"
  NX = 3
  NY = 3
  NZ = 1
  MinV = 3
  MaxV = 3
  MaxCells = 0
  BoxMode = "full"
  Dims = {2}
  Deviations = {}
INVARIANT PointsExact
INVARIANT HoleExact
INVARIANT CellsExact
INVARIANT VertexClosure
INVARIANT Partition
INVARIANT NoneOnlyWhenAllowed
INVARIANT CopyExact
INVARIANT GroupExact
INVARIANT ExportCase
CHECK_DEADLOCK FALSE
