SPECIFICATION Spec
CONSTANTS
  Kind = "curve"
  NX = 3
  NY = 1
  NZ = 2
  MinV = 2
  MaxV = 3
  MaxCells = 3
  BoxMode = "cross"
  Dims = {2, 3}
  Deviations = {}
INVARIANT PointsExact
INVARIANT HoleExact
INVARIANT CellsExact
INVARIANT VertexClosure
INVARIANT Partition
INVARIANT NoneOnlyWhenAllowed
INVARIANT CopyExact
INVARIANT GroupExact
INVARIANT ExportCase
CHECK_DEADLOCK FALSE
