------------------------------ MODULE ExtentBox ------------------------------
(* C13 - constant-free helpers shared by ExtentSelect.tla (vertex objects, drillholes, groups)  *)
(* and ExtentGrid.tla (Grid2D, BlockModel, Octree).                                             *)
(* Every coordinate is an exact rational k/Q held as the integer k (Q is fixed per case and     *)
(* exported with it), so "inside the closed box" is an exact integer comparison.                *)
(* A box is [lo |-> <<..>>, hi |-> <<..>>] with 2 (x,y) or 3 (x,y,z) entries: a 2-entry box     *)
(* ignores the elevation because the code zips coordinates with the extent columns and zip      *)
(* stops at the shorter one (geoh5py/shared/utils.py:545, :512).                                *)
EXTENDS Integers, Sequences, FiniteSets

Min2(a, b) == IF a <= b THEN a ELSE b
Max2(a, b) == IF a >= b THEN a ELSE b
Abs(a) == IF a < 0 THEN 0 - a ELSE a
SetMin(S) == CHOOSE m \in S : \A x \in S : m <= x
SetMax(S) == CHOOSE m \in S : \A x \in S : x <= m
Range(s) == {s[i] : i \in DOMAIN s}

Dim(box) == Len(box.lo)

\* utils.mask_by_extent, utils.py:545-546:  indices &= (lim[0] <= loc) & (loc <= lim[1])
\* open = TRUE is the named deviation "OpenBox" (strict comparisons), never the property.
InAxis(c, lo, hi, open) == IF open THEN lo < c /\ c < hi ELSE lo <= c /\ c <= hi
InBoxD(p, box, open) == \A a \in 1..Dim(box) : InAxis(p[a], box.lo[a], box.hi[a], open)
InBox(p, box) == InBoxD(p, box, FALSE)
\* utils.py:548-549  `if inverse: return ~indices` : the complementary test
QualifiesD(p, box, inverse, open) == InBoxD(p, box, open) # inverse
Qualifies(p, box, inverse) == QualifiesD(p, box, inverse, FALSE)

\* bounding box of a non-empty set of 3-D points (Points.extent points.py:52, GridObject.extent
\* grid_object.py:131, Drillhole.extent drillhole.py:163)
BBox(P) == [lo |-> [a \in 1..3 |-> SetMin({p[a] : p \in P})],
            hi |-> [a \in 1..3 |-> SetMax({p[a] : p \in P})]]
\* utils.box_intersect, utils.py:512-519: per axis max(lo) > min(hi) => no intersection
\* (closed: boxes that only touch do intersect)
Intersects(bb, box) ==
    \A a \in 1..Dim(box) : Max2(bb.lo[a], box.lo[a]) <= Min2(bb.hi[a], box.hi[a])

\* ------------------------------------------------------------------ interval / box families
\* faces f = m * step for m in mlo..mhi ; all closed intervals lo <= hi (degenerate included)
Faces(mlo, mhi, step) == {m * step : m \in mlo..mhi}
Intervals(F) == {<<a, b>> : a \in F, b \in F} \cap {iv \in F \X F : iv[1] <= iv[2]}

MkBox2(ix, iy) == [lo |-> <<ix[1], iy[1]>>, hi |-> <<ix[2], iy[2]>>]
MkBox3(ix, iy, iz) == [lo |-> <<ix[1], iy[1], iz[1]>>, hi |-> <<ix[2], iy[2], iz[2]>>]

\* "full" family: every combination of per-axis intervals
Full2(IX, IY) == {MkBox2(ix, iy) : ix \in IX, iy \in IY}
Full3(IX, IY, IZ) == {MkBox3(ix, iy, iz) : ix \in IX, iy \in IY, iz \in IZ}
\* "cross" family: one axis runs over all its intervals while the others take a few
\* representative ones (RX, RY, RZ); the in-box test is a per-axis conjunction, so every
\* per-axis boundary relation is still met, combined with non-trivial tests on the other axes.
Cross2(IX, IY, RX, RY) == Full2(IX, RY) \cup Full2(RX, IY)
Cross3(IX, IY, IZ, RX, RY, RZ) == Full3(IX, RY, RZ) \cup Full3(RX, IY, RZ) \cup Full3(RX, RY, IZ)

\* ------------------------------------------------------------------ sequences
RECURSIVE SelectIdx(_, _)
\* increasing sequence of the indices i in 1..n with keep[i]
SelectIdx(keep, n) ==
    IF n = 0 THEN <<>>
    ELSE IF keep[n] THEN Append(SelectIdx(keep, n - 1), n) ELSE SelectIdx(keep, n - 1)
\* position (1-based) of element e in a sequence without duplicates
PosOf(s, e) == CHOOSE i \in DOMAIN s : s[i] = e
=============================================================================
