SPECIFICATION Spec
CONSTANTS
  Kind = "surface"
  NX = 3
  NY = 2
  NZ = 1
  MinV = 3
  MaxV = 4
  MaxCells = 2
  BoxMode = "cross"
  Dims = {2, 3}
  Deviations = {}
INVARIANT PointsExact
INVARIANT HoleExact
INVARIANT CellsExact
INVARIANT VertexClosure
INVARIANT Partition
INVARIANT NoneOnlyWhenAllowed
INVARIANT CopyExact
INVARIANT GroupExact
INVARIANT ExportCase
CHECK_DEADLOCK FALSE
