----------------------------- MODULE ExtentGrid -----------------------------
(* C13 - spatial selection on cell-centre objects: Grid2D (rotation and dip), BlockModel and     *)
(* Octree (rotation).  Function-style like ExtentSelect.tla: Select picks a (grid, box)          *)
(* configuration and computes Mask / CopyFromExtent for inverse = FALSE and TRUE.                *)
(*                                                                                               *)
(* Exact rational geometry: an angle is a triple <<c, s, d>> with cos = c/d, sin = s/d (quarter  *)
(* turns and Pythagorean angles), local cell-centre coordinates are kept in half units and every *)
(* world coordinate is the integer numerator over Q = 2 * d_rot * d_dip:                         *)
(*   centroids = R_z(rot) . R_x(dip) . (u, v, w) + origin        (grid2d.py:124-137,             *)
(*   block_model.py:82-99, octree.py:137-160; xy_/yz_rotation_matrix utils.py:568-597)           *)
(* Box faces: in the exact case (rot = dip = 0: the code's arithmetic is exact) the faces lie    *)
(* on the centre coordinates and half-way between them; otherwise only faces at least Q/10 (1/10 *)
(* unit) away from every centre coordinate are used, so float round-off cannot flip a verdict.   *)
EXTENDS ExtentBox, TLC, Json

CONSTANTS
    Kind,            \* "grid2d" | "block" | "octree"
    NUs, NVs, NWs,   \* sets of cell counts per axis (NWs ignored for grid2d; all ignored for octree)
    DUs, DVs, DWs,   \* sets of cell-size ids (see Size; cfg files cannot hold negative numbers)
    Layouts,         \* octree layout ids (see OctLayout)
    Rots, Dips,      \* sets of angle ids (see Ang); Dips = {0} for block / octree
    Orgs,            \* origin ids (see Org)
    Dims,            \* subset of {2, 3}
    BoxMode,         \* "full" | "cross"
    Deviations       \* {} = the property ; "KronGaps" = Grid2D sub-grid as built before 4cf65a8 ; "OpenBox" ;
                     \* "BlankInMemoryOnly" = Grid2D blanking not written through to the file

VARIABLES cfg, out
vars == <<cfg, out>>
NoOut == [none |-> TRUE]

\* ------------------------------------------------------------------ exact angles and origins
Ang(id) == CASE id = 0 -> <<1, 0, 1>>          \*    0 deg   (exact in floating point too)
             [] id = 1 -> <<0, 1, 1>>          \*   90
             [] id = 2 -> <<0 - 1, 0, 1>>      \*  180
             [] id = 3 -> <<0, 0 - 1, 1>>      \*  -90
             [] id = 4 -> <<4, 3, 5>>          \*   36.87
             [] id = 5 -> <<3, 4, 5>>          \*   53.13
             [] id = 6 -> <<0 - 3, 4, 5>>      \*  126.87
             [] id = 7 -> <<4, 0 - 3, 5>>      \*  -36.87
             [] id = 8 -> <<12, 5, 13>>        \*   22.62
             [] id = 9 -> <<5, 0 - 12, 13>>    \*  -67.38
             [] id = 10 -> <<15, 8, 17>>       \*   28.07
             [] id = 11 -> <<0 - 4, 0 - 3, 5>> \* -143.13
             [] id = 12 -> <<0 - 8, 15, 17>>   \*  118.07
Size(id) == CASE id = 1 -> 1 [] id = 2 -> 2 [] id = 3 -> 0 - 1 [] id = 4 -> 0 - 2 [] id = 5 -> 3
Org(id) == CASE id = 0 -> <<0, 0, 0>> [] id = 1 -> <<1, 0 - 2, 1>> [] id = 2 -> <<0 - 3, 2, 0 - 1>>

\* octree layouts: <<u_count, v_count, w_count, cells <<I, J, K, NCells>> >>  (octree.py:144-152)
Unit8(i0) == [n \in 1..8 |-> <<i0 + ((n - 1) % 2), ((n - 1) \div 2) % 2, (n - 1) \div 4, 1>>]
OctLayout(id) ==
    CASE id = 0 -> <<2, 2, 2, << <<0, 0, 0, 2>> >> >>
      [] id = 1 -> <<2, 2, 2, Unit8(0)>>
      [] id = 2 -> <<4, 2, 2, << <<0, 0, 0, 2>> >> \o Unit8(2)>>
      [] id = 3 -> <<4, 2, 2, << <<0, 0, 0, 2>>, <<2, 0, 0, 2>> >> >>
      [] id = 4 -> <<4, 2, 2, Unit8(0) \o Unit8(2)>>

\* ------------------------------------------------------------------ grids
\* g = [nu, nv, nw, du, dv, dw, lay, rot, dip, org]
SZ(ids) == {Size(i) : i \in ids}
Grids ==
    IF Kind = "octree"
    THEN [nu : {0}, nv : {0}, nw : {0}, du : SZ(DUs), dv : SZ(DVs), dw : SZ(DWs), lay : Layouts, rot : Rots, dip : {0}, org : Orgs]
    ELSE [nu : NUs, nv : NVs, nw : (IF Kind = "block" THEN NWs ELSE {1}), du : SZ(DUs), dv : SZ(DVs),
          dw : (IF Kind = "block" THEN SZ(DWs) ELSE {1}), lay : {0}, rot : Rots, dip : Dips, org : Orgs]

QOf(g) == 2 * Ang(g.rot)[3] * Ang(g.dip)[3]
Exact(g) == g.rot = 0 /\ g.dip = 0

\* local cell-centre coordinates in half units, cell index k (1-based; the spec's own numbering:
\* the harness matches cells by coordinates, never by position in the library's arrays)
Local(g) ==
    CASE Kind = "grid2d" ->   \* grid2d.py:78-99 cumsum(ones * size) - size / 2
            [k \in 1..(g.nu * g.nv) |->
                <<(2 * ((k - 1) % g.nu) + 1) * g.du, (2 * ((k - 1) \div g.nu) + 1) * g.dv, 0>>]
      [] Kind = "block" ->    \* block_model.py:78-80
            [k \in 1..(g.nu * g.nv * g.nw) |->
                <<(2 * ((k - 1) % g.nu) + 1) * g.du,
                  (2 * (((k - 1) \div g.nu) % g.nv) + 1) * g.dv,
                  (2 * ((k - 1) \div (g.nu * g.nv)) + 1) * g.dw>>]
      [] Kind = "octree" ->   \* octree.py:144-152 (I + NCells / 2) * size
            LET cells == OctLayout(g.lay)[4] IN
            [k \in 1..Len(cells) |->
                <<(2 * cells[k][1] + cells[k][4]) * g.du, (2 * cells[k][2] + cells[k][4]) * g.dv,
                  (2 * cells[k][3] + cells[k][4]) * g.dw>>]

\* world coordinate numerators (over QOf(g)) of the local half-unit point <<U, V, W>>
World(g, p) ==
    LET r == Ang(g.rot)
        d == Ang(g.dip)
        o == Org(g.org)
        q == QOf(g)
        yd == d[1] * p[2] - d[2] * p[3]       \* numerator of the dipped y (over 2 * d[3])
        zd == d[2] * p[2] + d[1] * p[3]
    IN <<o[1] * q + p[1] * r[1] * d[3] - yd * r[2],
         o[2] * q + p[1] * r[2] * d[3] + yd * r[1],
         o[3] * q + zd * r[3]>>
Cells(g) == LET loc == Local(g) IN [k \in DOMAIN loc |-> World(g, loc[k])]

\* ------------------------------------------------------------------ boxes of a grid
\* candidate faces on axis a: one half unit beyond the centres on both sides, half-way between
\* consecutive distinct centre coordinates and (exact case only) the centre coordinates themselves;
\* in the inexact case a face closer than Q/10 to any centre coordinate is dropped.
AxisCoords(cells, a) == {cells[k][a] : k \in DOMAIN cells}
SafeFace(g, C, f) == Exact(g) \/ \A c \in C : 10 * Abs(c - f) >= QOf(g)
FacesOf(g, cells, a) ==
    LET C == AxisCoords(cells, a)
        h == QOf(g) \div 2
        consec == {p \in C \X C : p[1] < p[2] /\ ~\E c3 \in C : p[1] < c3 /\ c3 < p[2]}
        between == {(p[1] + p[2]) \div 2 : p \in consec} \ C
        cand == {SetMin(C) - h, SetMax(C) + h} \cup between \cup (IF Exact(g) THEN C ELSE {})
    IN {f \in cand : SafeFace(g, C, f)}
IvOf(g, cells, a) == Intervals(FacesOf(g, cells, a))
\* representative intervals for the axes that are not swept: everything, and the upper part
RedOf(g, cells, a) ==
    LET F == FacesOf(g, cells, a)
        lo == SetMin(F)
        hi == SetMax(F)
        upper == {f \in F : 2 * Cardinality({x \in F : x < f}) >= Cardinality(F) - 1}
    IN {<<lo, hi>>, <<SetMin(upper), hi>>}
BoxesOf(g, cells, d) ==
    IF d = 2 THEN (IF BoxMode = "full" THEN Full2(IvOf(g, cells, 1), IvOf(g, cells, 2))
                   ELSE Cross2(IvOf(g, cells, 1), IvOf(g, cells, 2), RedOf(g, cells, 1), RedOf(g, cells, 2)))
    ELSE (IF BoxMode = "full" THEN Full3(IvOf(g, cells, 1), IvOf(g, cells, 2), IvOf(g, cells, 3))
          ELSE Cross3(IvOf(g, cells, 1), IvOf(g, cells, 2), IvOf(g, cells, 3),
                      RedOf(g, cells, 1), RedOf(g, cells, 2), RedOf(g, cells, 3)))
BoxSetOf(g, cells) == UNION {BoxesOf(g, cells, d) : d \in Dims}

\* ------------------------------------------------------------------ the selection
Open == "OpenBox" \in Deviations
II(g, k) == (k - 1) % g.nu            \* Grid2D column / row of cell k
JJ(g, k) == (k - 1) \div g.nu
KOf(g, i, j) == j * g.nu + i + 1

Sel(g, cells, box, inv) ==
    LET n == Len(cells)
        in == [k \in 1..n |-> InBoxD(cells[k], box, Open)]
        \* grid_object.py:150 utils.mask_by_extent(self.centroids, extent, inverse) ; Data.mask_by_extent
        \* of CELL data uses the parent's centroids as well (data.py:252-253)
        mask == [k \in 1..n |-> in[k] # inv]
        \* grid_object.py:146 box_intersect(self.extent, extent) on the bounding box of the centres
        miss == ~Intersects(BBox(Range(cells)), box)
        any == \E k \in 1..n : mask[k]
        S == {k \in 1..n : mask[k]}
        \* --- Grid2D.copy_from_extent, inverse = FALSE (grid2d.py:140-221) ---------------------------
        \* C13: the smallest sub-grid covering the selected cells, values outside the box blanked
        i0 == SetMin({II(g, k) : k \in S})
        i1 == SetMax({II(g, k) : k \in S})
        j0 == SetMin({JJ(g, k) : k \in S})
        j1 == SetMax({JJ(g, k) : k \in S})
        ideal == [nu |-> i1 - i0 + 1, nv |-> j1 - j0 + 1,
                  cells |-> [m \in 1..((i1 - i0 + 1) * (j1 - j0 + 1)) |->
                               LET k == KOf(g, i0 + ((m - 1) % (i1 - i0 + 1)), j0 + ((m - 1) \div (i1 - i0 + 1)))
                               IN [pos |-> k, src |-> IF mask[k] THEN k ELSE 0]]]
        \* as built (named deviation KronGaps): u_ind / v_ind = columns / rows holding a selected cell
        \* (grid2d.py:169-170), u_count = sum(u_ind), v_count = sum(v_ind) (:197-198), origin moved to the first
        \* such column / row (argmax, :178-188), values taken with np.kron(v_ind, u_ind) (:172, data.py:103) and
        \* finally blanked by testing the NEW grid's centres (:213-219).  Equal to ideal unless a column
        \* or row between selected ones holds no selected cell (possible only for rotated grids).
        cols == SelectIdx([x \in 1..g.nu |-> \E k \in S : II(g, k) = x - 1], g.nu)
        rows == SelectIdx([y \in 1..g.nv |-> \E k \in S : JJ(g, k) = y - 1], g.nv)
        kron == [nu |-> Len(cols), nv |-> Len(rows),
                 cells |-> [m \in 1..(Len(cols) * Len(rows)) |->
                              LET a == (m - 1) % Len(cols)
                                  b == (m - 1) \div Len(cols)
                                  k == KOf(g, i0 + a, j0 + b)
                              IN [pos |-> k, src |-> IF mask[k] THEN KOf(g, cols[a + 1] - 1, rows[b + 1] - 1) ELSE 0]]]
        sub == IF "KronGaps" \in Deviations THEN kron ELSE ideal
        \* The copy exists twice: the live entity and what is stored in the file (what any later reader
        \* gets).  Every step of the copy writes through: Data.copy -> copy_to_parent saves the gathered
        \* values (data.py:110-115), the final blanking of the sub-grid assigns child.values, whose setter
        \* calls workspace.update_attribute(child, "values") (grid2d.py:223-225; :217-219 in the first
        \* snapshot; data/numeric_data.py values.setter).  Named deviation BlankInMemoryOnly: the blanking
        \* edits the cached array in place and never reaches the setter, so the file keeps the values
        \* gathered for the whole covering sub-grid.
        empty == [nu |-> 0, nv |-> 0, cells |-> <<>>]
        unblanked == [m \in DOMAIN sub.cells |-> [pos |-> sub.cells[m].pos, src |-> sub.cells[m].pos]]
        full == [nu |-> g.nu, nv |-> g.nv, cells |-> [k \in 1..n |-> [pos |-> k, src |-> IF mask[k] THEN k ELSE 0]]]
        live == IF ~any THEN (IF Kind = "grid2d" THEN empty ELSE full)
                ELSE IF Kind = "grid2d" /\ ~inv THEN sub ELSE full
    IN [mask |-> mask, miss |-> miss,
        none_ok |-> miss \/ ~any,
        \* masks: None on a miss only (grid_object.py:146)
        code_none |-> miss,
        \* copies: block / octree: EntityContainer.copy_from_extent -> GridObject.copy(mask): same grid,
        \* values outside the selection NaN (grid_object.py:97-105), None on a miss.
        \* Grid2D: None when nothing is selected (grid2d.py:174); inverse keeps the whole grid and blanks
        \* the values inside the box (:203, object_base.copy -> data.py:105-108), whole copy on a miss.
        copy_none |-> IF Kind = "grid2d" THEN ~any ELSE miss,
        copy |-> live,
        \* cells of the stored copy (position -> value), see above
        stored |-> IF any /\ Kind = "grid2d" /\ ~inv /\ "BlankInMemoryOnly" \in Deviations
                   THEN unblanked ELSE live.cells,
        \* smallest covering rectangle (also accepted for inverse Grid2D copies)
        cover |-> IF any /\ Kind = "grid2d" THEN <<i0, i1, j0, j1>> ELSE <<>>,
        asbuilt |-> IF any /\ Kind = "grid2d" /\ ~inv /\ kron # ideal THEN kron ELSE empty]

\* ------------------------------------------------------------------ behaviour
NoCfg == [grid |-> <<>>, cells |-> <<>>, box |-> [lo |-> <<>>, hi |-> <<>>]]
Init == cfg = NoCfg /\ out = NoOut
Pick(g, cells, b) ==
    /\ cfg' = [grid |-> g, cells |-> cells, box |-> b]
    /\ out' = [none |-> FALSE, f |-> Sel(g, cells, b, FALSE), t |-> Sel(g, cells, b, TRUE)]
Select == /\ out = NoOut
          /\ \E g \in Grids : LET cells == Cells(g) IN \E b \in BoxSetOf(g, cells) : Pick(g, cells, b)
Next == Select
Spec == Init /\ [][Next]_vars

\* ------------------------------------------------------------------ properties (C13)
Done == ~out.none
N == Len(cfg.cells)
R(inv) == IF inv THEN out.t ELSE out.f
Inside(k) == InBox(cfg.cells[k], cfg.box)
\* cell centres are selected exactly when inside the closed box; inverse is the complement
CentresExact == Done => \A inv \in BOOLEAN : \A k \in 1..N : R(inv).mask[k] <=> (Inside(k) # inv)
Partition == Done => \A k \in 1..N : out.f.mask[k] # out.t.mask[k]
NoneOnlyWhenAllowed ==
    Done => \A inv \in BOOLEAN :
        /\ R(inv).code_none => R(inv).none_ok
        /\ R(inv).copy_none => R(inv).none_ok
        /\ R(inv).none_ok <=> (R(inv).miss \/ \A k \in 1..N : ~R(inv).mask[k])
        /\ R(inv).miss => \A k \in 1..N : ~Inside(k)
\* every selected cell is in the copy at its own position with its own value, every other copied
\* cell is blank, nothing is duplicated
ValuesFollow ==
    Done => \A inv \in BOOLEAN :
        LET cp == R(inv).copy.cells IN
        /\ \A m \in DOMAIN cp : cp[m].src = (IF R(inv).mask[cp[m].pos] THEN cp[m].pos ELSE 0)
        /\ \A m1, m2 \in DOMAIN cp : m1 # m2 => cp[m1].pos # cp[m2].pos
        /\ \A k \in 1..N : R(inv).mask[k] => \E m \in DOMAIN cp : cp[m].pos = k
\* what is stored in the file for the copy is what the live copy shows (write-through)
StoredEqualsLive == Done => \A inv \in BOOLEAN : R(inv).stored = R(inv).copy.cells
\* Grid2D, inverse = FALSE: the copy is a full rectangle of cells and each of its four border
\* lines holds a selected cell (smallest covering sub-grid)
SmallestSubGrid ==
    (Done /\ Kind = "grid2d" /\ \E k \in 1..N : out.f.mask[k]) =>
        LET cp == out.f.copy
            P == {cp.cells[m].pos : m \in DOMAIN cp.cells}
            g == cfg.grid
            Is == {II(g, k) : k \in P}
            Js == {JJ(g, k) : k \in P}
            S == {k \in 1..N : out.f.mask[k]}
        IN /\ P = {k \in 1..N : II(g, k) \in SetMin(Is)..SetMax(Is) /\ JJ(g, k) \in SetMin(Js)..SetMax(Js)}
           /\ Cardinality(P) = cp.nu * cp.nv
           /\ \E k \in S : II(g, k) = SetMin(Is)
           /\ \E k \in S : II(g, k) = SetMax(Is)
           /\ \E k \in S : JJ(g, k) = SetMin(Js)
           /\ \E k \in S : JJ(g, k) = SetMax(Js)
\* in the inexact case every face keeps its distance from every centre coordinate
FacesSafe ==
    Done => (Exact(cfg.grid) \/
             \A a \in 1..Dim(cfg.box) : \A k \in 1..N :
                /\ 10 * Abs(cfg.cells[k][a] - cfg.box.lo[a]) >= QOf(cfg.grid)
                /\ 10 * Abs(cfg.cells[k][a] - cfg.box.hi[a]) >= QOf(cfg.grid))

\* ------------------------------------------------------------------ export
ExportCase == Done => PrintT(<<"CASE", ToJson([kind |-> Kind, q |-> QOf(cfg.grid), grid |-> cfg.grid,
                                               rot |-> Ang(cfg.grid.rot), dip |-> Ang(cfg.grid.dip),
                                               org |-> Org(cfg.grid.org),
                                               oct |-> IF Kind = "octree" THEN OctLayout(cfg.grid.lay) ELSE <<>>,
                                               cells |-> cfg.cells, box |-> cfg.box,
                                               f |-> out.f, t |-> out.t])>>)
=============================================================================
