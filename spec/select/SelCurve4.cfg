SPECIFICATION Spec
CONSTANTS
  Kind = "curve"
  NX = 2
  NY = 2
  NZ = 1
  MinV = 4
  MaxV = 4
  MaxCells = 6
  BoxMode = "full"
  Dims = {2}
  Deviations = {}
INVARIANT PointsExact
INVARIANT HoleExact
INVARIANT CellsExact
INVARIANT VertexClosure
INVARIANT Partition
INVARIANT NoneOnlyWhenAllowed
INVARIANT CopyExact
INVARIANT GroupExact
INVARIANT ExportCase
CHECK_DEADLOCK FALSE
