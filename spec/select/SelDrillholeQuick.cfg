SPECIFICATION Spec
CONSTANTS
  Kind = "drillhole"
  NX = 2
  NY = 2
  NZ = 2
  MinV = 1
  MaxV = 1
  MaxCells = 0
  BoxMode = "cross"
  Dims = {2, 3}
  Deviations = {}
INVARIANT PointsExact
INVARIANT HoleExact
INVARIANT CellsExact
INVARIANT VertexClosure
INVARIANT Partition
INVARIANT NoneOnlyWhenAllowed
INVARIANT CopyExact
INVARIANT GroupExact
INVARIANT ExportCase
CHECK_DEADLOCK FALSE
