SPECIFICATION Spec
CONSTANTS
  Kind = "points"
  NX = 2
  NY = 2
  NZ = 1
  MinV = 1
  MaxV = 1
  MaxCells = 0
  BoxMode = "full"
  Dims = {2}
  Deviations = {"OpenBox"}
INVARIANT PointsExact
INVARIANT HoleExact
INVARIANT CellsExact
INVARIANT VertexClosure
INVARIANT Partition
INVARIANT NoneOnlyWhenAllowed
INVARIANT CopyExact
INVARIANT GroupExact
CHECK_DEADLOCK FALSE
