SPECIFICATION Spec
CONSTANTS
  K = 2
  T = 2
  Deviations = {"ClobbersOther"}
  WithInvalid = TRUE
  TrackWant = TRUE
  WithHistory = FALSE
  MaxDepth = 0
VIEW vw
CONSTRAINT Depth
CHECK_DEADLOCK FALSE
INVARIANT TypeOK
PROPERTY Frame
PROPERTY RefusedChangesNothing
PROPERTY ReopenShowsFile
PROPERTY SessionKeepsFile
PROPERTY ResumeKeepsObject
