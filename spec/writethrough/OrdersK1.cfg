SPECIFICATION Spec
CONSTANTS
  K = 1
  T = 2
  Deviations = {}
  WithInvalid = FALSE
  TrackWant = TRUE
  WithHistory = TRUE
  MaxDepth = 4
VIEW vw
CONSTRAINT Depth
CHECK_DEADLOCK FALSE
INVARIANT TypeOK
INVARIANT WriteThrough
INVARIANT ReaderSeesLastAssigned
INVARIANT LiveIsLastAssigned
PROPERTY AssignedIsStored
PROPERTY Frame
PROPERTY RefusedChangesNothing
PROPERTY ReopenShowsFile
PROPERTY SessionKeepsFile
PROPERTY ResumeKeepsObject
INVARIANT ExportState
ACTION_CONSTRAINT ExportTrans
