---------------------------- MODULE WriteThrough ----------------------------
(* C03 - no accepted attribute change is lost (write-through completeness).                        *)
(*                                                                                                 *)
(* One entity (object, group, data, type, property group or the project header) that is ALREADY    *)
(* STORED in the file, seen through K of its assignable attributes ("slots").  Values are tokens:  *)
(* token 0 is the value the entity was stored with, 1..T are further valid values of the           *)
(* attribute's domain (the harness binds slots to attributes of a real class and tokens to values) *)
(*   live[s]    the value the getter of the live entity returns      (private backing field)       *)
(*   stored[s]  the value a reader of the file sees                  (HDF5 attribute / dataset)    *)
(*   open       the workspace is open; Close / Open model `ws.close()` and a fresh `Workspace(p)`  *)
(*   want[s]    ghost: the value last assigned successfully (what a later reader MUST see)         *)
(* geoh5py mechanism modelled by Set: the setter stores the value in the backing field and then     *)
(* calls workspace.update_attribute(self, <field>)  (shared/entity.py:85-112, 252-255, 332-335;     *)
(* objects/grid2d.py:242-400; objects/octree.py:206-401; objects/drillhole.py:87-290;               *)
(* data/numeric_data.py:65-73; data/data_type.py:136-381; groups/uijson.py:52-58), which routes to  *)
(* H5Writer.update_field (workspace/workspace.py:1364-1394, io/h5_writer.py:303-362).  For the      *)
(* scalar attributes update_field re-writes ALL attributes of the attribute map from the live       *)
(* object (write_attributes, io/h5_writer.py:364-412): this is the `heal` set of an outcome - a     *)
(* re-write of other slots from memory, which is the identity whenever live = stored.               *)
(*                                                                                                 *)
(* Named deviations (constant Deviations), each an alternative outcome of an assignment:            *)
(*   ForgetsPersist         the value is never written (no update_attribute call, or a call that    *)
(*                          skips this attribute): the file keeps the old value                     *)
(*   PersistsBeforeStoring  update_attribute is called before the backing field is changed: the     *)
(*                          file receives the PREVIOUS live value                                   *)
(*   ClobbersOther          the assignment re-writes another attribute b with the value the entity  *)
(*                          was stored with (a stale copy)                                          *)
(*   DestroysStored         the persistence step removes the stored value without writing the new   *)
(*                          one: a reader sees neither the old nor the new value (pseudo-token Lost)*)
(*   CloseRevertsToLoaded   after Resume the workspace holds a second, registered object for the     *)
(*                          same node; close() re-writes the node from that stale twin: the file     *)
(*                          falls back to what it held when the session was resumed                  *)
(*   StaleLive              the value is persisted but the getter keeps answering from a cache the  *)
(*                          setter does not refresh: the file is right, the live object is not      *)
EXTENDS Naturals, FiniteSets, Sequences, TLC, TLCExt, Json

CONSTANTS
    K,            \* number of attribute slots (1..3; 2 quick, 3 thorough)
    T,            \* new value tokens 1..T per slot (token 0 = value at creation)
    Deviations,   \* {} = Ideal
    WithInvalid,  \* BOOLEAN: SetInvalid (a refused assignment) is part of the behaviours
    TrackWant,    \* BOOLEAN: maintain the ghost `want` (FALSE in the as-built export, where it would only multiply states)
    WithHistory,  \* BOOLEAN: the action history is part of the state (all orders up to MaxDepth are distinct states)
    MaxDepth      \* number of actions of a behaviour when WithHistory (ignored otherwise: the graph is finite)

Slots  == 1..K
Tokens == 0..T
Lost   == T + 1      \* "none of the values of the domain": what a reader sees after DestroysStored
Seen   == 0..(T + 1)

VARIABLES live, stored, open, want, hist, last,
          stale,    \* the caller still holds the object fetched in an EARLIER session of the same Workspace instance
          loaded    \* what the file held when the current session began (what a registered twin object carries)
\* stale / loaded are maintained only when the deviation that needs them is enabled (otherwise they are constant and
\* do not multiply states)
Twin == "CloseRevertsToLoaded" \in Deviations
vars == <<live, stored, open, want, hist, last, stale, loaded>>
vw   == <<live, stored, open, want, hist, stale, loaded>>

Lbl(act, a, t, out, dev, b, heal) ==
    [act |-> act, a |-> a, t |-> t, out |-> out, dev |-> dev, b |-> b, heal |-> heal]

TypeOK ==
    /\ live \in [Slots -> Seen] /\ stored \in [Slots -> Seen] /\ want \in [Slots -> Tokens]
    /\ open \in BOOLEAN /\ stale \in BOOLEAN /\ loaded \in [Slots -> Seen]

Init ==
    /\ live = [s \in Slots |-> 0]
    /\ stored = [s \in Slots |-> 0]
    /\ want = [s \in Slots |-> 0]
    /\ open = TRUE
    /\ hist = <<>>
    /\ stale = FALSE
    /\ loaded = [s \in Slots |-> 0]
    /\ last = Lbl("Init", 0, 0, "ok", "", 0, {})

Log(act, a, t) == hist' = IF WithHistory THEN Append(hist, <<act, a, t>>) ELSE hist

\* ------------------------------------------------------------------ outcomes of assigning token t to slot a
\* slots whose stored value lags behind memory: a re-write from memory (write_attributes) changes exactly these
Lagging(a) == {s \in Slots \ {a} : live[s] # stored[s]}
\* file content when slot a receives v and the slots in H are re-written from memory
Persist(a, v, H) == [s \in Slots |-> IF s = a THEN v ELSE IF s \in H THEN live[s] ELSE stored[s]]

Outcomes(a, t) ==
    {[st |-> Persist(a, t, H), lv |-> t, dev |-> "", b |-> 0, heal |-> H] : H \in SUBSET Lagging(a)}
    \cup
    (IF "ForgetsPersist" \in Deviations /\ stored[a] # t
     \* the value of a is not written; the persistence call may be missing altogether (heal = {}) or be made and skip
     \* a (attribute not in the attribute map, value None): then other slots are still re-written from memory
     THEN {[st |-> Persist(a, stored[a], H), lv |-> t, dev |-> "ForgetsPersist", b |-> 0, heal |-> H] :
              H \in SUBSET Lagging(a)}
     ELSE {})
    \cup
    (IF "PersistsBeforeStoring" \in Deviations /\ live[a] # t
     THEN {[st |-> Persist(a, live[a], H), lv |-> t, dev |-> "PersistsBeforeStoring", b |-> 0, heal |-> H] :
              H \in SUBSET Lagging(a)}
     ELSE {})
    \cup
    (IF "ClobbersOther" \in Deviations
     THEN UNION {{[st |-> [Persist(a, t, H) EXCEPT ![b] = 0], lv |-> t, dev |-> "ClobbersOther", b |-> b, heal |-> H] :
                     H \in SUBSET (Lagging(a) \ {b})} :
                 b \in {s \in Slots \ {a} : stored[s] # 0}}
     ELSE {})
    \cup
    (IF "DestroysStored" \in Deviations
     THEN {[st |-> Persist(a, Lost, H), lv |-> t, dev |-> "DestroysStored", b |-> 0, heal |-> H] :
              H \in SUBSET Lagging(a)}
     ELSE {})
    \cup
    (IF "StaleLive" \in Deviations /\ live[a] # t
     THEN {[st |-> Persist(a, t, H), lv |-> live[a], dev |-> "StaleLive", b |-> 0, heal |-> H] :
              H \in SUBSET Lagging(a)}
     ELSE {})

Assign(act, a, t) ==
    /\ open
    /\ \E o \in Outcomes(a, t) :
          /\ stored' = o.st
          /\ live' = [live EXCEPT ![a] = o.lv]
          /\ last' = Lbl(act, a, t, "ok", o.dev, o.b, o.heal)
    /\ want' = IF TrackWant THEN [want EXCEPT ![a] = t] ELSE want
    /\ Log(act, a, t)
    /\ UNCHANGED <<open, stale, loaded>>

\* assign a valid value different from the current one
Set(a, t) == t # live[a] /\ Assign("Set", a, t)
\* assign the current value again
SetSame(a) == live[a] \in Tokens /\ Assign("SetSame", a, live[a])
\* an assignment the setter refuses (raises): nothing changes
SetInvalid(a) ==
    /\ WithInvalid /\ open
    /\ last' = Lbl("SetInvalid", a, 0, "refused", "", 0, {})
    /\ Log("SetInvalid", a, 0)
    /\ UNCHANGED <<live, stored, open, want, stale, loaded>>
\* ws.close(): nothing is written for the entity (workspace.py close(): save_entity(root) skips what is on file,
\* io/h5_writer.py write_entity "already in the project" branch)
Close ==
    /\ open /\ open' = FALSE
    /\ \/ /\ stored' = stored
          /\ last' = Lbl("Close", 0, 0, "ok", "", 0, {})
       \/ /\ Twin /\ stale /\ stored # loaded
          /\ stored' = loaded
          /\ last' = Lbl("Close", 0, 0, "ok", "CloseRevertsToLoaded", 0, {})
    /\ Log("Close", 0, 0)
    /\ UNCHANGED <<live, want, stale, loaded>>
\* a fresh Workspace(path) and a fresh fetch: every getter now returns what the file holds
Open ==
    /\ ~open /\ open' = TRUE
    /\ live' = stored
    /\ stale' = FALSE
    /\ loaded' = IF Twin THEN stored ELSE loaded
    /\ last' = Lbl("Open", 0, 0, "ok", "", 0, {})
    /\ Log("Open", 0, 0)
    /\ UNCHANGED <<stored, want>>
\* ws.open() on the SAME Workspace instance (also what fetch_active_workspace(ws, mode="r+") does) while the caller keeps
\* using the entity object fetched in the earlier session: nothing is re-read, the object keeps answering from its own
\* fields and its setters keep writing through by uid; Workspace.open rebuilds the registry with fresh objects
\* (workspace.py open(): self._objects = {} ... fetch_or_create_root)
Resume ==
    /\ ~open /\ open' = TRUE
    /\ stale' = IF Twin THEN TRUE ELSE stale
    /\ loaded' = IF Twin THEN stored ELSE loaded
    /\ last' = Lbl("Resume", 0, 0, "ok", "", 0, {})
    /\ Log("Resume", 0, 0)
    /\ UNCHANGED <<live, stored, want>>

Next ==
    \/ \E a \in Slots, t \in Tokens : Set(a, t)
    \/ \E a \in Slots : SetSame(a)
    \/ \E a \in Slots : SetInvalid(a)
    \/ Close
    \/ Open
    \/ Resume
Spec == Init /\ [][Next]_vars

Depth == (~WithHistory) \/ TLCGet("level") <= MaxDepth + 1

\* ------------------------------------------------------------------ properties (C03)
\* "After a successful assignment the in-memory value and the stored value never differ."
WriteThrough == open => live = stored
\* "assigning a valid new value ... makes that value the one a later reader of the file sees":
\* at every moment, whatever the history, the file holds the last value assigned to every attribute
ReaderSeesLastAssigned == stored = want
LiveIsLastAssigned == open => live = want
\* the assigned slot holds the assigned token on both sides right after the assignment
AssignedIsStored ==
    [][(last'.act \in {"Set", "SetSame"} /\ last'.out = "ok")
          => (live'[last'.a] = last'.t /\ stored'[last'.a] = last'.t)]_vars
\* frame condition: an assignment to a leaves every other attribute unchanged on both sides
Frame ==
    [][(last'.act \in {"Set", "SetSame", "SetInvalid"})
          => \A s \in Slots \ {last'.a} : live'[s] = live[s] /\ stored'[s] = stored[s]]_vars
\* a refused assignment changes nothing
RefusedChangesNothing == [][last'.act = "SetInvalid" => (live' = live /\ stored' = stored)]_vars
\* re-opening shows the file
ReopenShowsFile == [][last'.act = "Open" => live' = stored]_vars
\* closing and resuming a session never change the file; resuming keeps the object the caller holds
SessionKeepsFile ==
    [][(last'.act \in {"Close", "Resume", "Open"}) => stored' = stored]_vars
ResumeKeepsObject == [][last'.act = "Resume" => live' = live]_vars

\* ------------------------------------------------------------------ export (harness/tlc.py)
\* the view is printed in a compact form (TLC breaks a tuple that does not fit on one line into several lines, which
\* harness/tlc.py does not read): a function over the slots is the base-4 number of its values, slot 1 least significant
Code(f) == f[1] + (IF K >= 2 THEN 4 * f[2] ELSE 0) + (IF K >= 3 THEN 16 * f[3] ELSE 0)
vwc == <<K, Code(live), Code(stored), open, Code(want), hist, stale, Code(loaded)>>
ExportState == PrintT(<<"ST", TLCFP(vw), TLCFP(<<vw, 1>>), ToJson(vwc)>>)
ExportTrans == PrintT(<<"TR", TLCFP(vw), TLCFP(<<vw, 1>>), TLCFP(vw'), TLCFP(<<vw', 1>>), ToJson(last')>>)
=============================================================================
