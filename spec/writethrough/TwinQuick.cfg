SPECIFICATION Spec
CONSTANTS
  K = 2
  T = 2
  Deviations = {"CloseRevertsToLoaded"}
  WithInvalid = TRUE
  TrackWant = FALSE
  WithHistory = FALSE
  MaxDepth = 0
VIEW vw
CONSTRAINT Depth
CHECK_DEADLOCK FALSE
INVARIANT TypeOK
INVARIANT ExportState
ACTION_CONSTRAINT ExportTrans
