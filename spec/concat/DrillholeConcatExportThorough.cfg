\* state-graph export for the conformance replay; harness/checks/C04.py rewrites the Deviations line with the
\* deviations the implementation actually shows (all of them on the pinned tree)
\* 3 holes, every action, 4 actions deep or Populate + 3
SPECIFICATION Spec
CONSTANTS
  MaxHoles = 3
  Names = {"a", "b"}
  DepthLens = {1, 2}
  Version = 21
  Deviations = {"RenameKeepsLabel", "WsRemoveKeepsChild", "HoleRemovalKeepsObjectRows", "HoleRemovalKeepsGroupChild", "StalePgIdCache", "EmptyTableRaises", "TableByLabel"}
  MaxLevel = 4
  Acts = {"Populate", "AddHole", "AddDepthData", "AddIntervalData", "SetValues", "Rename", "RemoveDataViaParent", "RemoveDataViaWorkspace", "RemoveHoleViaParent", "RemoveHoleViaWorkspace", "RemovePropertyGroup", "AddValuesToTable", "Reopen", "CopyGroup"}
  TrackSession = FALSE
  Kind = "float"
VIEW vw
INVARIANT ExportState
ACTION_CONSTRAINT ExportTrans
CHECK_DEADLOCK FALSE
