\* negative control: deviation UngroupedDataNotLoaded alone violates RowsOwnedLive
SPECIFICATION Spec
CONSTANTS
  MaxHoles = 2
  Names = {"a", "b"}
  DepthLens = {1}
  Version = 21
  Deviations = {"UngroupedDataNotLoaded"}
  MaxLevel = 4
  Acts = {"AddHole", "AddDepthData", "AddObjectData", "AddBadData", "RemovePlainChild", "CopyEdit", "ReopenRemoveHole", "Reopen", "RemoveHoleViaParent", "RemoveDataViaParent", "RemoveDataViaWorkspace"}
  TrackSession = FALSE
  Kind = "float"
VIEW vw
INVARIANT RowsOwnedLive
CHECK_DEADLOCK FALSE
