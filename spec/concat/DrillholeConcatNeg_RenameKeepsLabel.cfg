\* negative control: deviation RenameKeepsLabel alone violates ReadBackOK
SPECIFICATION Spec
CONSTANTS
  MaxHoles = 2
  Names = {"a", "b"}
  DepthLens = {1, 2}
  Version = 21
  Deviations = {"RenameKeepsLabel"}
  MaxLevel = 4
  Acts = {"Populate", "AddHole", "AddDepthData", "AddIntervalData", "SetValues", "Rename", "RemoveDataViaParent", "RemoveDataViaWorkspace", "RemoveHoleViaParent", "RemoveHoleViaWorkspace", "RemovePropertyGroup", "AddValuesToTable", "Reopen", "CopyGroup"}
  TrackSession = FALSE
  Kind = "float"
VIEW vw
INVARIANT ReadBackOK
CHECK_DEADLOCK FALSE
