\* negative control: deviation StalePgIdCache alone violates PgCacheFresh
SPECIFICATION Spec
CONSTANTS
  MaxHoles = 2
  Names = {"a", "b"}
  DepthLens = {1, 2}
  Version = 21
  Deviations = {"StalePgIdCache"}
  MaxLevel = 4
  Acts = {"Populate", "AddHole", "AddDepthData", "AddIntervalData", "SetValues", "Rename", "RemoveDataViaParent", "RemoveDataViaWorkspace", "RemoveHoleViaParent", "RemoveHoleViaWorkspace", "RemovePropertyGroup", "AddValuesToTable", "Reopen", "CopyGroup"}
  TrackSession = FALSE
  Kind = "float"
VIEW vw
INVARIANT PgCacheFresh
CHECK_DEADLOCK FALSE
