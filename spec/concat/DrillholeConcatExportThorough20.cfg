\* state-graph export for the conformance replay; harness/checks/C04.py rewrites the Deviations line with the
\* deviations the implementation actually shows (all of them on the pinned tree)
\* format 2.0, 4 actions deep
SPECIFICATION Spec
CONSTANTS
  MaxHoles = 2
  Names = {"a", "b"}
  DepthLens = {1, 2, 3}
  Version = 20
  Deviations = {"RenameKeepsLabel", "WsRemoveKeepsChild", "HoleRemovalKeepsObjectRows", "HoleRemovalKeepsGroupChild", "StalePgIdCache", "EmptyTableRaises", "TableByLabel"}
  MaxLevel = 4
  Acts = {"AddHole", "AddDepthData", "AddIntervalData", "SetValues", "Rename", "RemoveDataViaParent", "RemoveDataViaWorkspace", "RemoveHoleViaParent", "RemoveHoleViaWorkspace", "RemovePropertyGroup", "AddValuesToTable", "Reopen", "CopyGroup", "Protect"}
  TrackSession = FALSE
  Kind = "float"
VIEW vw
INVARIANT ExportState
ACTION_CONSTRAINT ExportTrans
CHECK_DEADLOCK FALSE
