\* state-graph export for the conformance replay; harness/checks/C04.py rewrites the Deviations line with the
\* deviations the implementation actually shows
\* payload data are TEXT: labels of different lengths, re-assigned with longer ones (SetValues toggles short/long)
SPECIFICATION Spec
CONSTANTS
  MaxHoles = 2
  Names = {"a", "b"}
  DepthLens = {2}
  Version = 21
  Deviations = {"RenameKeepsLabel", "WsRemoveKeepsChild", "HoleRemovalKeepsObjectRows", "HoleRemovalKeepsGroupChild", "StalePgIdCache", "EmptyTableRaises", "TableByLabel"}
  MaxLevel = 4
  Acts = {"AddHole", "AddDepthData", "AddIntervalData", "SetValues", "RemoveDataViaParent", "AddValuesToTable", "Reopen"}
  TrackSession = FALSE
  Kind = "text"
VIEW vw
INVARIANT ExportState
ACTION_CONSTRAINT ExportTrans
CHECK_DEADLOCK FALSE
