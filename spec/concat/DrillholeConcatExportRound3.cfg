\* state-graph export (Deviations line rewritten by harness/checks/C04.py): plain child of the group and its removal,
\* edits of a cross-workspace copy, OBJECT-association data and removal of a hole that was never read after re-open,
\* data whose constructor fails
SPECIFICATION Spec
CONSTANTS
  MaxHoles = 2
  Names = {"a", "b"}
  DepthLens = {1}
  Version = 21
  Deviations = {"RenameKeepsLabel", "WsRemoveKeepsChild", "HoleRemovalKeepsObjectRows", "HoleRemovalKeepsGroupChild", "StalePgIdCache", "EmptyTableRaises", "TableByLabel", "CopySharesRecords", "PlainChildNotUnlinked", "UngroupedDataNotLoaded", "FailedCreateKeepsKey", "HoleRemovalKeepsEmptyPgRow", "CopyTypesPurged"}
  MaxLevel = 4
  Acts = {"AddHole", "AddDepthData", "AddObjectData", "AddBadData", "RemovePlainChild", "CopyEdit", "CopyPurge", "ReopenRemoveHole", "ReopenRemoveGroup", "RemoveGroup", "AddIntervalData", "Reopen", "RemoveHoleViaParent", "RemoveDataViaParent", "RemoveDataViaWorkspace"}
  TrackSession = FALSE
  Kind = "float"
VIEW vw
INVARIANT ExportState
ACTION_CONSTRAINT ExportTrans
CHECK_DEADLOCK FALSE
