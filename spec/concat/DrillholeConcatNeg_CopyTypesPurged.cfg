\* negative control: deviation CopyTypesPurged alone violates CopiesReadable
SPECIFICATION Spec
CONSTANTS
  MaxHoles = 2
  Names = {"a", "b"}
  DepthLens = {1}
  Version = 21
  Deviations = {"CopyTypesPurged"}
  MaxLevel = 4
  Acts = {"AddHole", "AddDepthData", "AddObjectData", "AddBadData", "RemovePlainChild", "CopyEdit", "CopyPurge", "ReopenRemoveHole", "Reopen", "RemoveHoleViaParent", "RemoveDataViaParent", "RemoveDataViaWorkspace"}
  TrackSession = FALSE
  Kind = "float"
VIEW vw
PROPERTY CopiesReadable
CHECK_DEADLOCK FALSE
