\* negative control: deviation EmptyTableRaises alone violates TableOK
SPECIFICATION Spec
CONSTANTS
  MaxHoles = 2
  Names = {"a", "b"}
  DepthLens = {0, 1}
  Version = 21
  Deviations = {"EmptyTableRaises"}
  MaxLevel = 4
  Acts = {"Populate", "AddHole", "AddDepthData", "AddIntervalData", "SetValues", "Rename", "RemoveDataViaParent", "RemoveDataViaWorkspace", "RemoveHoleViaParent", "RemoveHoleViaWorkspace", "RemovePropertyGroup", "AddValuesToTable", "Reopen", "CopyGroup"}
  TrackSession = FALSE
  Kind = "float"
VIEW vw
INVARIANT TableOK
CHECK_DEADLOCK FALSE
