\* negative control: deviation HoleRemovalKeepsGroupChild alone violates GroupChildrenLive
SPECIFICATION Spec
CONSTANTS
  MaxHoles = 2
  Names = {"a", "b"}
  DepthLens = {1, 2}
  Version = 21
  Deviations = {"HoleRemovalKeepsGroupChild"}
  MaxLevel = 4
  Acts = {"Populate", "AddHole", "AddDepthData", "AddIntervalData", "SetValues", "Rename", "RemoveDataViaParent", "RemoveDataViaWorkspace", "RemoveHoleViaParent", "RemoveHoleViaWorkspace", "RemovePropertyGroup", "AddValuesToTable", "Reopen", "CopyGroup"}
  TrackSession = FALSE
  Kind = "float"
VIEW vw
INVARIANT GroupChildrenLive
CHECK_DEADLOCK FALSE
