\* design level: the ideal specification with the round-3 actions satisfies the property
SPECIFICATION Spec
CONSTANTS
  MaxHoles = 2
  Names = {"a", "b"}
  DepthLens = {1}
  Version = 21
  Deviations = {}
  MaxLevel = 4
  Acts = {"AddHole", "AddDepthData", "AddObjectData", "AddBadData", "RemovePlainChild", "CopyEdit", "CopyPurge", "ReopenRemoveHole", "ReopenRemoveGroup", "RemoveGroup", "AddIntervalData", "Reopen", "RemoveHoleViaParent", "RemoveDataViaParent", "RemoveDataViaWorkspace"}
  TrackSession = FALSE
  Kind = "float"
VIEW vw
INVARIANT AllTiled
INVARIANT NoDuplicateOwner
INVARIANT RowsOwnedLive
INVARIANT OneRecordEach
INVARIANT KeysMatchChildren
INVARIANT PgsConsistent
INVARIANT ReadBackOK
INVARIANT TableOK
INVARIANT NeverBroken
INVARIANT GroupChildrenLive
INVARIANT PgCacheFresh
INVARIANT PlainChildClean
PROPERTY Isolation
PROPERTY ProtectedStay
PROPERTY CopiesReadable
CHECK_DEADLOCK FALSE
