SPECIFICATION Spec
CONSTANTS
  MaxHoles = 2
  Names = {"a", "b"}
  DepthLens = {1, 2}
  Version = 21
  Deviations = {}
  MaxLevel = 5
  Acts = {"AddHole", "AddDepthData", "AddIntervalData", "SetValues", "Rename", "RemoveDataViaParent", "RemoveDataViaWorkspace", "RemoveHoleViaParent", "RemoveHoleViaWorkspace", "RemovePropertyGroup", "AddValuesToTable", "Reopen", "CopyGroup"}
VIEW vw
INVARIANT AllTiled
INVARIANT NoDuplicateOwner
INVARIANT RowsOwnedLive
INVARIANT OneRecordEach
INVARIANT KeysMatchChildren
INVARIANT PgsConsistent
INVARIANT ReadBackOK
INVARIANT TableOK
INVARIANT NeverBroken
INVARIANT GroupChildrenLive
PROPERTY Isolation
CHECK_DEADLOCK FALSE
