\* design level, quick: the ideal specification satisfies the property (2 hole slots, 4 actions, or Populate + 3)
SPECIFICATION Spec
CONSTANTS
  MaxHoles = 2
  Names = {"a", "b"}
  DepthLens = {1, 2}
  Version = 21
  Deviations = {}
  MaxLevel = 4
  Acts = {"Populate", "AddHole", "AddDepthData", "AddIntervalData", "SetValues", "Rename", "RemoveDataViaParent", "RemoveDataViaWorkspace", "RemoveHoleViaParent", "RemoveHoleViaWorkspace", "RemovePropertyGroup", "AddValuesToTable", "Reopen", "CopyGroup", "Protect", "SaveHoleAgain", "SetPublic"}
  TrackSession = FALSE
  Kind = "float"
VIEW vw
INVARIANT AllTiled
INVARIANT NoDuplicateOwner
INVARIANT RowsOwnedLive
INVARIANT OneRecordEach
INVARIANT KeysMatchChildren
INVARIANT PgsConsistent
INVARIANT ReadBackOK
INVARIANT TableOK
INVARIANT NeverBroken
INVARIANT GroupChildrenLive
INVARIANT PgCacheFresh
PROPERTY Isolation
PROPERTY ProtectedStay
CHECK_DEADLOCK FALSE
