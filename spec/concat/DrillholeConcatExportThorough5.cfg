\* state-graph export for the conformance replay; harness/checks/C04.py rewrites the Deviations line with the
\* deviations the implementation actually shows (all of them on the pinned tree)
\* 2 holes, every action, 5 actions deep, lengths 0 and 2
SPECIFICATION Spec
CONSTANTS
  MaxHoles = 2
  Names = {"a", "b"}
  DepthLens = {0, 2}
  Version = 21
  Deviations = {"RenameKeepsLabel", "WsRemoveKeepsChild", "HoleRemovalKeepsObjectRows", "HoleRemovalKeepsGroupChild", "StalePgIdCache", "EmptyTableRaises", "TableByLabel"}
  MaxLevel = 5
  Acts = {"AddHole", "AddDepthData", "AddIntervalData", "SetValues", "Rename", "RemoveDataViaParent", "RemoveDataViaWorkspace", "RemoveHoleViaParent", "RemoveHoleViaWorkspace", "RemovePropertyGroup", "AddValuesToTable", "Reopen", "CopyGroup"}
  TrackSession = FALSE
  Kind = "float"
VIEW vw
INVARIANT ExportState
ACTION_CONSTRAINT ExportTrans
CHECK_DEADLOCK FALSE
