\* negative control: deviation CopySharesRecords alone violates NeverBroken
SPECIFICATION Spec
CONSTANTS
  MaxHoles = 2
  Names = {"a", "b"}
  DepthLens = {1}
  Version = 21
  Deviations = {"CopySharesRecords"}
  MaxLevel = 4
  Acts = {"AddHole", "AddDepthData", "AddObjectData", "AddBadData", "RemovePlainChild", "CopyEdit", "ReopenRemoveHole", "Reopen", "RemoveHoleViaParent", "RemoveDataViaParent", "RemoveDataViaWorkspace"}
  TrackSession = FALSE
  Kind = "float"
VIEW vw
INVARIANT NeverBroken
CHECK_DEADLOCK FALSE
