\* negative control: geoh5py as built (all named deviations) violates the property
SPECIFICATION Spec
CONSTANTS
  MaxHoles = 2
  Names = {"a", "b"}
  DepthLens = {1, 2}
  Version = 21
  Deviations = {"RenameKeepsLabel", "WsRemoveKeepsChild", "HoleRemovalKeepsObjectRows", "HoleRemovalKeepsGroupChild", "StalePgIdCache", "EmptyTableRaises", "TableByLabel"}
  MaxLevel = 4
  Acts = {"Populate", "AddHole", "AddDepthData", "AddIntervalData", "SetValues", "Rename", "RemoveDataViaParent", "RemoveDataViaWorkspace", "RemoveHoleViaParent", "RemoveHoleViaWorkspace", "RemovePropertyGroup", "AddValuesToTable", "Reopen", "CopyGroup"}
  TrackSession = FALSE
  Kind = "float"
VIEW vw
INVARIANT AllTiled
INVARIANT NoDuplicateOwner
INVARIANT RowsOwnedLive
INVARIANT OneRecordEach
INVARIANT KeysMatchChildren
INVARIANT PgsConsistent
INVARIANT ReadBackOK
INVARIANT TableOK
INVARIANT NeverBroken
INVARIANT GroupChildrenLive
INVARIANT PgCacheFresh
PROPERTY Isolation
CHECK_DEADLOCK FALSE
