\* design level, thorough: 3 hole slots, lengths 0 and 3 (Populate: 0..3), 5 actions (or Populate + 4)
SPECIFICATION Spec
CONSTANTS
  MaxHoles = 3
  Names = {"a", "b"}
  DepthLens = {0, 3}
  Version = 21
  Deviations = {}
  MaxLevel = 5
  Acts = {"Populate", "AddHole", "AddDepthData", "AddIntervalData", "SetValues", "Rename", "RemoveDataViaParent", "RemoveDataViaWorkspace", "RemoveHoleViaParent", "RemoveHoleViaWorkspace", "RemovePropertyGroup", "AddValuesToTable", "Reopen", "CopyGroup"}
  TrackSession = FALSE
  Kind = "float"
VIEW vw
INVARIANT AllTiled
INVARIANT NoDuplicateOwner
INVARIANT RowsOwnedLive
INVARIANT OneRecordEach
INVARIANT KeysMatchChildren
INVARIANT PgsConsistent
INVARIANT ReadBackOK
INVARIANT TableOK
INVARIANT NeverBroken
INVARIANT GroupChildrenLive
INVARIANT PgCacheFresh
PROPERTY Isolation
PROPERTY ProtectedStay
CHECK_DEADLOCK FALSE
