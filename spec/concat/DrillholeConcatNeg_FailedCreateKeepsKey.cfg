\* negative control: deviation FailedCreateKeepsKey alone violates OneRecordEach
SPECIFICATION Spec
CONSTANTS
  MaxHoles = 2
  Names = {"a", "b"}
  DepthLens = {1}
  Version = 21
  Deviations = {"FailedCreateKeepsKey"}
  MaxLevel = 4
  Acts = {"AddHole", "AddDepthData", "AddObjectData", "AddBadData", "RemovePlainChild", "CopyEdit", "ReopenRemoveHole", "Reopen", "RemoveHoleViaParent", "RemoveDataViaParent", "RemoveDataViaWorkspace"}
  TrackSession = FALSE
  Kind = "float"
VIEW vw
INVARIANT OneRecordEach
CHECK_DEADLOCK FALSE
