\* state-graph export for the conformance replay; harness/checks/C04.py rewrites the Deviations line with the
\* deviations the implementation actually shows (all of them on the pinned tree)
\* 3 populated holes (Populate), then 2 actions (+ the re-open appended to every path): delete a middle slice, re-add a longer one, re-open
SPECIFICATION Spec
CONSTANTS
  MaxHoles = 3
  Names = {"a", "b"}
  DepthLens = {1, 3}
  Version = 21
  Deviations = {"RenameKeepsLabel", "WsRemoveKeepsChild", "HoleRemovalKeepsObjectRows", "HoleRemovalKeepsGroupChild", "StalePgIdCache", "EmptyTableRaises", "TableByLabel"}
  MaxLevel = 3
  Acts = {"Populate", "AddDepthData", "SetValues", "RemoveDataViaParent", "RemoveHoleViaParent", "RemovePropertyGroup", "Reopen"}
  TrackSession = FALSE
  Kind = "float"
VIEW vw
INVARIANT ExportState
ACTION_CONSTRAINT ExportTrans
CHECK_DEADLOCK FALSE
