\* state-graph export for the conformance replay; harness/checks/C04.py rewrites the Deviations line with the
\* deviations the implementation actually shows
\* allow_delete: protected holes / data are refused by workspace.remove_entity (not by the parent); attribute-only
\* sessions (Reopen, Protect, Reopen) must reach the file; copies of a group that carries a plain child
SPECIFICATION Spec
CONSTANTS
  MaxHoles = 2
  Names = {"a", "b"}
  DepthLens = {1}
  Version = 21
  Deviations = {"RenameKeepsLabel", "WsRemoveKeepsChild", "HoleRemovalKeepsObjectRows", "HoleRemovalKeepsGroupChild", "StalePgIdCache", "EmptyTableRaises", "TableByLabel"}
  MaxLevel = 4
  Acts = {"AddHole", "AddDepthData", "Protect", "SaveHoleAgain", "SetPublic", "Reopen", "RemoveDataViaWorkspace", "RemoveDataViaParent", "RemoveHoleViaWorkspace", "RemoveHoleViaParent", "CopyGroup"}
  TrackSession = TRUE
  Kind = "float"
VIEW vw
INVARIANT ExportState
ACTION_CONSTRAINT ExportTrans
CHECK_DEADLOCK FALSE
