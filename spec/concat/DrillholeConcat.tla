--------------------------- MODULE DrillholeConcat ---------------------------
(* C04 - concatenated drillhole storage (geoh5py/shared/concatenation).                          *)
(*                                                                                                *)
(* One DrillholeGroup of a v2.x workspace (a Concatenator).  The state has two layers:           *)
(*   live objects : the python objects a user holds (group children, each hole's children with   *)
(*                  their cached values, each hole's property groups, the group's cached list    *)
(*                  of property-group ids);                                                      *)
(*   storage      : what Concatenator keeps for the file - the attribute records (+ key list),   *)
(*                  the object-id list and, per label, the concatenated array cat[label] and     *)
(*                  the index table idx[label] of rows [st, sz, ob, da].                         *)
(* The arrays in memory and in the file are the same thing here: every mutation of _data/_index  *)
(* is followed by save_attribute (concatenator.py:666); the attribute records reach the file at  *)
(* close() (workspace.py:190-194), i.e. at Reopen, which rebuilds the live layer from storage.   *)
(*                                                                                                *)
(* Protocol assumed by the actions: after every action the harness reads every live hole's data  *)
(* and property groups and the group-wide tables through the API (this fills the caches, so the  *)
(* live `vals` of a child is what a live read returns).                                           *)
(*                                                                                                *)
(* Identifiers: hole = its slot h; data id = h*100 + NameIdx*10 + g; property group id =         *)
(* h*100 + 60|80 + g (g = first generation digit that leaves no trace in the state).             *)
(* Tokens: value i of write version v of data d = d*100 + v*10 + i; survey depth i of hole h =   *)
(* h*10 + i; values pushed through the group table = 90000 + position; NDV = -1.                 *)
(*                                                                                                *)
(* Deviations (constant) switches the places where geoh5py as built departs from the property;   *)
(* {} is the ideal behaviour, which satisfies every invariant below.                             *)
EXTENDS Naturals, Integers, Sequences, FiniteSets, TLC, TLCExt, Json

CONSTANTS
    MaxHoles,     \* 2 or 3 hole slots (a slot is used once)
    Names,        \* payload data names shared between holes, subset of {"a","b"}
    DepthLens,    \* lengths of depth / from-to arrays, subset of 0..3
    Version,      \* 20 | 21 : attribute encoding ("Attributes" blob | "Attributes Jsons" list)
    Deviations,   \* subset of AllDeviations
    MaxLevel,     \* behaviours are cut after MaxLevel actions
    Acts,         \* names of the enabled actions
    TrackSession, \* TRUE: the kind of session is part of the state - "fresh" (right after Reopen: nothing written yet,
                  \* Workspace.repack, the dirty flag of the attribute records, is clear), "attr" (only attribute edits
                  \* - Protect, Rename - since Reopen) or "mixed" - so that the transition cover contains
                  \* Reopen -> attribute edits only -> Reopen (the records are written at close only)
    Kind          \* "float" | "text" : primitive type of the payload data a, b (the harness maps value tokens to
                  \* floats or to labels of different lengths); TextData.values has no length check, so text
                  \* values are only re-assigned with the table's length

VARIABLES s, last
vars == <<s, last>>
vw == s

AllDeviations == {"RenameKeepsLabel", "WsRemoveKeepsChild", "HoleRemovalKeepsObjectRows",
                  "HoleRemovalKeepsGroupChild", "StalePgIdCache", "EmptyTableRaises", "TableByLabel",
                  "CopySharesRecords", "PlainChildNotUnlinked", "UngroupedDataNotLoaded", "FailedCreateKeepsKey", "HoleRemovalKeepsEmptyPgRow", "CopyTypesPurged"}
Dev(d) == d \in Deviations

NDV == 0 - 1
Holes == 1..MaxHoles
\* "o" : OBJECT-association data of a hole (hole.add_data without depth / from-to): it belongs to no property group
DataLabels == {"DEPTH", "FROM", "TO", "o"} \cup Names
Labels == DataLabels \cup {"Surveys", "PGIDS"}
NameIdx(n) == CASE n = "DEPTH" -> 1 [] n = "FROM" -> 2 [] n = "TO" -> 3 [] n = "a" -> 4 [] n = "b" -> 5 [] n = "o" -> 7
AssocOf(kind) == IF kind = "D" THEN <<"DEPTH">> ELSE <<"FROM", "TO">>
PgName(kind) == IF kind = "D" THEN "depth_0" ELSE "Interval_0"
PgType(kind) == IF kind = "D" THEN "Depth table" ELSE "Interval table"
KindOfType(t) == IF t = "Depth table" THEN "D" ELSE "I"
PgNames == {"depth_0", "Interval_0"}

\* ------------------------------------------------------------------ sequence helpers
Range(q) == {q[i] : i \in DOMAIN q}
RemoveAt(q, k) == [i \in 1..(Len(q) - 1) |-> IF i < k THEN q[i] ELSE q[i + 1]]
RECURSIVE SumSz(_)
SumSz(rows) == IF rows = <<>> THEN 0 ELSE Head(rows).sz + SumSz(Tail(rows))
IndexOf(q, x) == IF \E i \in DOMAIN q : q[i] = x THEN CHOOSE i \in DOMAIN q : q[i] = x /\ \A j \in 1..(i - 1) : q[j] # x ELSE 0
Without(q, x) == IF IndexOf(q, x) = 0 THEN q ELSE RemoveAt(q, IndexOf(q, x))      \* list.remove(x)
Filter(q, P(_)) == SelectSeq(q, P)
Pad(vals, n) == [i \in 1..(IF n > Len(vals) THEN n ELSE Len(vals)) |-> IF i <= Len(vals) THEN vals[i] ELSE NDV]
Toks(d, v, k) == [i \in 1..k |-> d * 100 + v * 10 + i]
RECURSIVE SortedSeq(_)
SortedSeq(S) == IF S = {} THEN <<>>     \* names sorted as python sorts "DEPTH" < "FROM" < "TO" < "a" < "b"
                ELSE LET m == CHOOSE x \in S : \A y \in S : NameIdx(x) <= NameIdx(y) IN <<m>> \o SortedSeq(S \ {m})

\* ------------------------------------------------------------------ storage: concatenated arrays
\* Concatenator.delete_index_data (concatenator.py:298-307)
DeleteIndexData(S, lab, k) ==
    LET row == S.idx[lab][k]
        st == row.st
        sz == row.sz
        old == S.cat[lab]
        \* np.delete(self.data[label], np.arange(start, start + size)) : 0-based st..st+sz-1
        newcat == [i \in 1..(Len(old) - sz) |-> IF i <= st THEN old[i] ELSE old[i + sz]]
        \* self.index[label]["Start index"][... > start] -= size
        shifted == [i \in DOMAIN S.idx[lab] |->
                       IF S.idx[lab][i].st > st THEN [S.idx[lab][i] EXCEPT !.st = @ - sz] ELSE S.idx[lab][i]]
    IN  IF st + sz > Len(old) THEN Assert(FALSE, <<"slice outside the array", lab, row>>)
        ELSE [S EXCEPT !.cat[lab] = newcat, !.idx[lab] = RemoveAt(shifted, k)]

\* Concatenator.fetch_index (concatenator.py:342-365): exactly one matching row, else None (0)
FetchIndex(S, lab, byData, id) ==
    IF lab \notin S.labels THEN 0
    ELSE LET m == {i \in DOMAIN S.idx[lab] : IF byData THEN S.idx[lab][i].da = id ELSE S.idx[lab][i].ob = id}
         IN IF Cardinality(m) = 1 THEN CHOOSE i \in m : TRUE ELSE 0

\* Concatenator.fetch_values (concatenator.py:387-403); <<-2>> stands for None
NoneVals == <<0 - 2>>
Missing == <<0 - 3>>      \* get_data(name) returns no entity
FetchValues(S, lab, byData, id) ==
    LET k == FetchIndex(S, lab, byData, id) IN
    IF k = 0 THEN NoneVals
    ELSE LET r == S.idx[lab][k] IN [i \in 1..r.sz |-> S.cat[lab][r.st + i]]

\* Concatenator.update_array_attribute (606-666) with fetch_start_index (367-385):
\* remove the old slice, then (unless remove=True / values None) append slice and row at the end, save.
UpdateArray(S, lab, byData, ob, da, vals, append) ==
    LET k == FetchIndex(S, lab, byData, IF byData THEN da ELSE ob)
        S1 == IF k # 0 THEN DeleteIndexData(S, lab, k) ELSE S
        start == IF k # 0 THEN Len(S1.cat[lab])                         \* self.data[label].shape[0]
                 ELSE IF lab \in S.labels THEN SumSz(S.idx[lab])        \* np.sum(index["Size"])
                 ELSE 0
    IN  IF append
        THEN [S1 EXCEPT !.idx[lab] = Append(@, [st |-> start, sz |-> Len(vals), ob |-> ob, da |-> da]),
                        !.cat[lab] = @ \o vals,
                        !.labels = @ \cup {lab}]
        ELSE S1

\* ------------------------------------------------------------------ storage: attribute records
\* record = [id, kind in {"hole","data","pg","empty"}, name, keys (hole: <<[n,d]>> = 'Property:<n>': d),
\*           props (pg: Properties), ptype (pg)]
\*           pub = 'Public' (holes), ad = 'Allow delete' (holes and data; the python object's flag and the record change together:
\*           Entity.allow_delete setter -> update_attributes(entity, "attributes"))
Rec(id, kind, name) == [id |-> id, kind |-> kind, name |-> name, keys |-> <<>>, props |-> <<>>, ptype |-> "", ad |-> TRUE, pub |-> TRUE]
RecIdx(S, id) == IndexOf(S.akeys, id)
HasRec(S, id) == RecIdx(S, id) # 0
\* Concatenator.get_concatenated_attributes (405-430): an unknown uid APPENDS an empty record
EnsureRec(S, id) == IF HasRec(S, id) THEN S
                    ELSE [S EXCEPT !.akeys = Append(@, id), !.attrs = Append(@, Rec(id, "empty", ""))]
SetRec(S, id, rec) == LET S1 == EnsureRec(S, id) IN [S1 EXCEPT !.attrs[RecIdx(S1, id)] = rec]
GetRec(S, id) == S.attrs[RecIdx(S, id)]
\* remove_entity tail (515-522): attributes_keys.remove(uid); Attributes.remove(record)
DropRec(S, id) == LET S1 == EnsureRec(S, id)
                      k == RecIdx(S1, id)
                  IN [S1 EXCEPT !.akeys = RemoveAt(@, k), !.attrs = RemoveAt(@, k)]
KeyIdx(rec, n) == IF \E i \in DOMAIN rec.keys : rec.keys[i].n = n
                  THEN CHOOSE i \in DOMAIN rec.keys : rec.keys[i].n = n ELSE 0
HasKey(rec, n) == KeyIdx(rec, n) # 0
KeyNames(rec) == {rec.keys[i].n : i \in DOMAIN rec.keys}

\* ------------------------------------------------------------------ live objects
\* hole object = [st in {"none","live","gone"}, ch: <<child>>, pgs: <<pg>>]
\* child (ConcatenatedData) = [id, name, vals, ver];  pg (ConcatenatedPropertyGroup) = [id, name, ptype, props]
\*               pgn = "hole._property_groups is None" (never had a group, or re-opened without any)
NoHole == [st |-> "none", ch |-> <<>>, pgs |-> <<>>, pgn |-> TRUE]
ChildIdxByName(hole, n) == IF \E i \in DOMAIN hole.ch : hole.ch[i].name = n
                           THEN CHOOSE i \in DOMAIN hole.ch : hole.ch[i].name = n /\ \A j \in 1..(i-1) : hole.ch[j].name # n
                           ELSE 0
ChildIdxById(hole, d) == IF \E i \in DOMAIN hole.ch : hole.ch[i].id = d
                         THEN CHOOSE i \in DOMAIN hole.ch : hole.ch[i].id = d ELSE 0
PgIdxById(hole, p) == IF \E i \in DOMAIN hole.pgs : hole.pgs[i].id = p
                      THEN CHOOSE i \in DOMAIN hole.pgs : hole.pgs[i].id = p ELSE 0
PgIdxByName(hole, n) == IF \E i \in DOMAIN hole.pgs : hole.pgs[i].name = n
                        THEN CHOOSE i \in DOMAIN hole.pgs : hole.pgs[i].name = n /\ \A j \in 1..(i-1) : hole.pgs[j].name # n
                        ELSE 0
\* ConcatenatedData.property_group (data.py:45-57): first group listing the uid
PgIdxOfData(hole, d) == IF \E i \in DOMAIN hole.pgs : d \in Range(hole.pgs[i].props)
                        THEN CHOOSE i \in DOMAIN hole.pgs : d \in Range(hole.pgs[i].props)
                                                             /\ \A j \in 1..(i-1) : d \notin Range(hole.pgs[j].props)
                        ELSE 0
LiveHoles(S) == {h \in Holes : S.hs[h].st = "live"}
\* a child that the hole record does not list under its own name: zombie (WsRemoveKeepsChild) or
\* renamed without moving the key (RenameKeepsLabel)
Unclean(S, h) == \/ \E i \in DOMAIN S.hs[h].ch : ~HasKey(GetRec(S, h), S.hs[h].ch[i].name)
                 \/ \E i \in DOMAIN S.hs[h].ch : \E j \in DOMAIN S.hs[h].ch : i # j /\ S.hs[h].ch[i].name = S.hs[h].ch[j].name
                 \/ \E n \in KeyNames(GetRec(S, h)) : ChildIdxByName(S.hs[h], n) = 0
Corrupt(S) == \E i \in DOMAIN S.attrs : S.attrs[i].kind = "empty"

UsedIds(S) == {S.attrs[i].id : i \in DOMAIN S.attrs} \cup Range(S.akeys) \cup S.pgc
              \cup UNION {{S.idx[l][i].da : i \in DOMAIN S.idx[l]} : l \in Labels}
              \cup Range(S.cat["PGIDS"])
              \cup UNION {{S.hs[h].ch[i].id : i \in DOMAIN S.hs[h].ch} \cup {S.hs[h].pgs[i].id : i \in DOMAIN S.hs[h].pgs}
                          \cup UNION {Range(S.hs[h].pgs[i].props) : i \in DOMAIN S.hs[h].pgs} : h \in Holes}
              \cup UNION {UNION {Range(S.attrs[i].props) \cup {S.attrs[i].keys[j].d : j \in DOMAIN S.attrs[i].keys}
                                 : i \in DOMAIN S.attrs}}
Fresh(S, base) == base + (CHOOSE g \in 0..9 : (base + g) \notin UsedIds(S) /\ \A g2 \in 0..(g - 1) : (base + g2) \in UsedIds(S))
DataBase(h, n) == h * 100 + NameIdx(n) * 10
PgBase(h, kind) == h * 100 + (IF kind = "D" THEN 60 ELSE 80)

\* ------------------------------------------------------------------ saving property groups
\* Concatenator.property_group_ids (449-460): a falsy cache is re-read from the file
LoadPgc(S) == IF S.pgc = {} THEN [S EXCEPT !.pgc = Range(S.cat["PGIDS"])] ELSE S
\* Concatenator.update_attributes(hole, "property_groups") (553-566) via Workspace.add_or_update_property_group
SavePgs(S, h) ==
    LET F[i \in 0..Len(S.hs[h].pgs)] ==
            IF i = 0 THEN S
            ELSE LET pg == S.hs[h].pgs[i]
                     A == SetRec(F[i - 1], pg.id, [Rec(pg.id, "pg", pg.name) EXCEPT !.props = pg.props, !.ptype = pg.ptype])
                     B == LoadPgc(A)
                 IN IF B.pgc # {} THEN [B EXCEPT !.pgc = @ \cup {pg.id}] ELSE B
        S1 == F[Len(S.hs[h].pgs)]
    IN UpdateArray(S1, "PGIDS", FALSE, h, 0, [i \in DOMAIN S.hs[h].pgs |-> S.hs[h].pgs[i].id], TRUE)

\* ------------------------------------------------------------------ removal cascade
\* Concatenator.remove_entity (480-522), ConcatenatedObject.remove_children (object.py:168-185),
\* PropertyGroup.remove_properties (property_group.py:225-246) and its concatenated override
\* (concatenation/property_group.py:145-169).  The three operators call each other; the recursion is
\* bounded by the number of children.  A KeyError half way sets S.broken (the behaviour ends there).
RECURSIVE RemoveDataCore(_, _, _), PgRemoveProps(_, _, _, _), RemovePgCore(_, _, _), RemoveChild(_, _, _), RemoveChildren(_, _, _)

\* hole.remove_children([data]) : remove_entity(child) then self._children.remove(child)
RemoveChild(S, h, d) ==
    IF S.broken \/ ChildIdxById(S.hs[h], d) = 0 THEN S          \* "if child not in self._children: continue"
    ELSE LET S1 == RemoveDataCore(S, h, d)
         IN IF S1.broken THEN S1
            ELSE [S1 EXCEPT !.hs[h].ch = RemoveAt(@, ChildIdxById(S1.hs[h], d))]
RemoveChildren(S, h, ds) == IF ds = <<>> THEN S ELSE RemoveChildren(RemoveChild(S, h, Head(ds)), h, Tail(ds))

\* remove_entity(data) : rows, property group, 'Property:<name>' key, attribute record
RemoveDataCore(S, h, d) ==
    LET c == S.hs[h].ch[ChildIdxById(S.hs[h], d)]
        S1 == UpdateArray(S, c.name, TRUE, h, d, <<>>, FALSE)                 \* 486: remove=True
        p == PgIdxOfData(S1.hs[h], d)
        S2 == IF p # 0 THEN PgRemoveProps(S1, h, S1.hs[h].pgs[p].id, d) ELSE S1   \* 489-490
        hr == GetRec(S2, h)
        k == KeyIdx(hr, c.name)
    IN  IF S2.broken THEN S2
        ELSE IF k = 0 THEN [S2 EXCEPT !.broken = TRUE]                        \* 495: del parent_attr[...] -> KeyError
        ELSE DropRec(SetRec(S2, h, [hr EXCEPT !.keys = RemoveAt(@, k)]), d)   \* 495, 515-522

\* pg.remove_properties([data])
PgRemoveProps(S, h, p, d) ==
    LET pi == PgIdxById(S.hs[h], p)
        props == Without(S.hs[h].pgs[pi].props, d)
        S1 == [S EXCEPT !.hs[h].pgs[pi].props = props]
        first == IF Len(props) >= 1 THEN ChildIdxById(S1.hs[h], props[1]) ELSE 0
        firstName == IF first # 0 THEN S1.hs[h].ch[first].name ELSE ""
        second == IF Len(props) >= 2 THEN ChildIdxById(S1.hs[h], props[2]) ELSE 0
        secondName == IF second # 0 THEN S1.hs[h].ch[second].name ELSE ""
    IN  IF props = <<>> THEN RemovePgCore(S1, h, p)             \* base class: workspace.remove_entity(self); return
        ELSE LET S2 == SavePgs(S1, h) IN                        \* add_or_update_property_group(self)
             IF Len(props) = 1 /\ firstName = "DEPTH"           \* only the depths are left: drop them too
             THEN RemoveChild(S2, h, props[1])
             ELSE IF Len(props) = 2 /\ firstName = "FROM" /\ secondName = "TO"
             THEN RemoveChild(RemoveChild(S2, h, props[2]), h, props[1])      \* to_ first, then from_
             ELSE S2

\* remove_entity(property group) (506-513, 515-522)
RemovePgCore(S, h, p) ==
    LET pi == PgIdxById(S.hs[h], p)
        props == IF pi = 0 THEN <<>> ELSE S.hs[h].pgs[pi].props
        S1 == RemoveChildren(S, h, props)                       \* 508-510: remove all data within the group
        pj == PgIdxById(S1.hs[h], p)
        S2 == IF pj = 0 THEN S1 ELSE [S1 EXCEPT !.hs[h].pgs = RemoveAt(@, pj)]    \* 512 remove_property_group
        S3 == UpdateArray(S2, "PGIDS", FALSE, h, 0, [i \in DOMAIN S2.hs[h].pgs |-> S2.hs[h].pgs[i].id], TRUE)   \* 513
        S4 == IF Dev("StalePgIdCache") THEN S3 ELSE [S3 EXCEPT !.pgc = @ \ {p}]
    IN  IF S1.broken THEN S1
        ELSE IF HasRec(S4, p) THEN DropRec(S4, p) ELSE S4       \* 519-521 (an absent record is appended and removed again)

\* ------------------------------------------------------------------ creating data
\* Workspace.create_entity(Data, parent=hole) -> ConcatenatedData.parent setter (data.py:63-75)
\* -> save_entity -> Concatenator.add_save_concatenated (117-142)
CreateData(S, h, d, name, vals) ==
    LET S1 == [S EXCEPT !.hs[h].ch = Append(@, [id |-> d, name |-> name, vals |-> vals, ver |-> 1])]
        hr == GetRec(S1, h)
        S2 == IF HasKey(hr, name) THEN S1 ELSE SetRec(S1, h, [hr EXCEPT !.keys = Append(@, [n |-> name, d |-> d])])
        \* update_concatenated_attributes; DEPTH / FROM / TO are created with allow_delete=False (drillhole.py:263-270)
        S3 == SetRec(S2, d, [Rec(d, "data", name) EXCEPT !.ad = name \notin {"DEPTH", "FROM", "TO"}])
    IN UpdateArray(S3, name, TRUE, h, d, vals, TRUE)                          \* update_array_attribute(child, child.name)
\* ObjectBase.add_data_to_group -> PropertyGroup.add_properties (property_group.py:79-100)
AddToGroup(S, h, p, d) ==
    LET pi == PgIdxById(S.hs[h], p)
        S1 == IF d \in Range(S.hs[h].pgs[pi].props) THEN S ELSE [S EXCEPT !.hs[h].pgs[pi].props = Append(@, d)]
    IN SavePgs(S1, h)

\* Drillhole.add_data with 'depth' / 'from-to' (objects/drillhole.py:364-452, concatenation/drillhole.py
\* validate_depth_data 196-277, validate_interval_data 279-373).  kind "D" | "I".  The caller passes the
\* existing depths of the hole's table of that kind (collocated: the group is reused) or fresh ones.
TableOf(S, h, kind) == PgIdxByName(S.hs[h], PgName(kind))
\* ids the next AddData on (h, kind, name) will use (bases are disjoint, so they can be chosen up front)
NewPgId(S, h, kind) == Fresh(S, PgBase(h, kind))
NewDataId(S, h, n) == Fresh(S, DataBase(h, n))
AddData(S, h, kind, name, n, vals) ==
    LET t == TableOf(S, h, kind)
        \* new table: find_or_create_property_group(name=depth_0|Interval_0) then DEPTH | FROM, TO are added first
        p == IF t # 0 THEN S.hs[h].pgs[t].id ELSE NewPgId(S, h, kind)
        S0 == IF t # 0 THEN S
              ELSE [S EXCEPT !.hs[h].pgs = Append(@, [id |-> p, name |-> PgName(kind), ptype |-> PgType(kind), props |-> <<>>]),
                             !.hs[h].pgn = FALSE]
        MkAssoc[i \in 0..Len(AssocOf(kind))] ==
            IF i = 0 THEN S0
            ELSE LET an == AssocOf(kind)[i]
                     ad == NewDataId(S, h, an)
                 IN AddToGroup(CreateData(MkAssoc[i - 1], h, ad, an, Toks(ad, 1, n)), h, p, ad)
        S1 == IF t # 0 THEN S0 ELSE MkAssoc[Len(AssocOf(kind))]
        d == NewDataId(S, h, name)
    IN AddToGroup(CreateData(S1, h, d, name, Pad(vals, n)), h, p, d)

\* length of the table of `kind` in hole h (n_values of its members, data.py:78-89) or -1
TableLen(S, h, kind) ==
    LET t == TableOf(S, h, kind) IN
    IF t = 0 \/ S.hs[h].pgs[t].props = <<>> THEN 0 - 1
    ELSE Len(S.hs[h].ch[ChildIdxById(S.hs[h], S.hs[h].pgs[t].props[1])].vals)

\* ------------------------------------------------------------------ re-open
\* Workspace.close() writes the attribute records; a fresh Workspace rebuilds every python object:
\* fetch_concatenated_objects (323-340), _fetch_concatenated_children (object.py:77-93),
\* ConcatenatedObject.property_groups (object.py:142-166), values read lazily through fetch_values.
VerOf(vals) == IF vals = <<>> \/ vals[1] < 0 THEN 1 ELSE (vals[1] \div 10) % 10
ReopenHole(S, h) ==
    LET hr == GetRec(S, h)
        ch == [i \in DOMAIN hr.keys |->
                  LET d == hr.keys[i].d
                      nm == IF HasRec(S, d) THEN GetRec(S, d).name ELSE hr.keys[i].n
                      vs == FetchValues(S, nm, TRUE, d)
                  IN [id |-> d, name |-> nm, vals |-> vs, ver |-> VerOf(vs)]]
        ids == FetchValues(S, "PGIDS", FALSE, h)
        pgs == IF ids = NoneVals THEN <<>>
               ELSE [i \in DOMAIN ids |-> LET r == GetRec(S, ids[i]) IN
                                          [id |-> ids[i], name |-> r.name, ptype |-> r.ptype, props |-> r.props]]
    IN [st |-> "live", ch |-> ch, pgs |-> pgs, pgn |-> pgs = <<>>]
ReopenState(S) ==
    LET hs2 == [h \in Holes |-> IF h \in Range(S.objIds) THEN ReopenHole(S, h)
                               ELSE IF S.hs[h].st = "none" THEN NoHole ELSE [NoHole EXCEPT !.st = "gone"]]
    IN [S EXCEPT !.hs = hs2, !.gch = S.objIds, !.pgc = Range(S.cat["PGIDS"]),
                 !.plain = IF S.plain = "detached" THEN "live" ELSE S.plain]

\* ------------------------------------------------------------------ what the API shows (observation)
\* hole.get_data_list() = the 'Property:' keys; hole.get_data(name)[0].values = first child of that name
ReadLive(S, h, n) == LET c == ChildIdxByName(S.hs[h], n) IN IF c = 0 THEN Missing ELSE S.hs[h].ch[c].vals
\* what a fresh reader would get from storage for the name listed in the hole record
ReadStore(S, h, n) ==
    LET hr == GetRec(S, h)
        d == hr.keys[KeyIdx(hr, n)].d
        nm == IF HasRec(S, d) THEN GetRec(S, d).name ELSE n
    IN IF nm # n THEN Missing ELSE FetchValues(S, nm, TRUE, d)
ApiView(S) == [h \in Holes |->
                 IF h \notin LiveHoles(S) THEN [live |-> FALSE]
                 ELSE
                 [live |-> TRUE,
                  names |-> KeyNames(GetRec(S, h)),
                  ad |-> GetRec(S, h).ad,                                                \* hole.allow_delete
                  pub |-> GetRec(S, h).pub,                                              \* hole.public
                  children |-> [i \in DOMAIN S.hs[h].ch |-> S.hs[h].ch[i].name],     \* Data objects in hole.children
                  vals |-> [k \in DOMAIN GetRec(S, h).keys |->
                              [n |-> GetRec(S, h).keys[k].n, v |-> ReadLive(S, h, GetRec(S, h).keys[k].n),
                               ad |-> IF HasRec(S, GetRec(S, h).keys[k].d) THEN GetRec(S, GetRec(S, h).keys[k].d).ad ELSE TRUE]],
                  pgs |-> [i \in DOMAIN S.hs[h].pgs |->
                             [name |-> S.hs[h].pgs[i].name, ptype |-> S.hs[h].pgs[i].ptype,
                              props |-> [j \in DOMAIN S.hs[h].pgs[i].props |->
                                           LET c == ChildIdxById(S.hs[h], S.hs[h].pgs[i].props[j])
                                           IN IF c = 0 THEN "?" ELSE S.hs[h].ch[c].name]]]]]

\* ------------------------------------------------------------------ group-wide table view
\* DrillholesGroupTable(group, pgname).depth_table (drillholes_group_table.py:76-121, 189-334).
KindOfPg(pgname) == IF pgname = "depth_0" THEN "D" ELSE "I"
HolesWithPg(S, pgname) == {h \in LiveHoles(S) : PgIdxByName(S.hs[h], pgname) # 0}
PgOf(S, h, pgname) == S.hs[h].pgs[PgIdxByName(S.hs[h], pgname)]
PropNames(S, h, pgname) == {LET c == ChildIdxById(S.hs[h], d) IN IF c = 0 THEN "?" ELSE S.hs[h].ch[c].name
                            : d \in Range(PgOf(S, h, pgname).props)}
LivePgIds(S) == UNION {{S.hs[h].pgs[i].id : i \in DOMAIN S.hs[h].pgs} : h \in LiveHoles(S)}
StaleCache(S) == (S.pgc \ LivePgIds(S)) # {}
Raises == [out |-> "raises", names |-> <<>>, rows |-> <<>>]
Absent == [out |-> "absent", names |-> <<>>, rows |-> <<>>]
RECURSIVE FlattenSeq(_)
FlattenSeq(ss) == IF ss = <<>> THEN <<>> ELSE Head(ss) \o FlattenSeq(Tail(ss))
RECURSIVE SetToSeq(_)
SetToSeq(T) == IF T = {} THEN <<>> ELSE LET x == CHOOSE y \in T : \A z \in T : y <= z IN <<x>> \o SetToSeq(T \ {x})

\* the property: per hole (hole order), the rows of the hole's own group, padded with no-data
IdealTable(S, pgname, emptyRaises) ==
    LET hw == HolesWithPg(S, pgname)
        assoc == AssocOf(KindOfPg(pgname))
        props == SortedSeq((UNION {PropNames(S, h, pgname) : h \in hw}) \ Range(assoc))
        names == assoc \o props
        order == SelectSeq(S.objIds, LAMBDA h : h \in hw)
        Cols == [h \in hw |-> [j \in DOMAIN names |->
                                   IF names[j] \in PropNames(S, h, pgname) THEN ReadLive(S, h, names[j]) ELSE <<>>]]
        Block(h) == LET c == Cols[h] IN
                    [i \in 1..Len(c[1]) |-> <<h>> \o [j \in DOMAIN names |-> IF i <= Len(c[j]) THEN c[j][i] ELSE NDV]]
        rows == FlattenSeq([k \in DOMAIN order |-> Block(order[k])])
    IN  IF hw = {} THEN Absent
        ELSE IF rows = <<>> /\ emptyRaises THEN Raises
        ELSE [out |-> "ok", names |-> names, rows |-> rows]

\* as built: columns are looked up by label name and Object ID in the group's index, whatever group the
\* data belongs to (index_by_drillhole 304-334), holes come in the order of the first association's slices
AsBuiltTable(S, pgname, emptyRaises) ==
    LET hw == HolesWithPg(S, pgname)
        assoc == AssocOf(KindOfPg(pgname))
        allp == UNION {PropNames(S, h, pgname) : h \in hw}
        props == SortedSeq(allp \ (Range(assoc) \cup {"?"}))
        names == assoc \o props
        rows0 == S.idx[names[1]]
        byStart == SetToSeq({rows0[i].st * 1000 + rows0[i].sz * 100 + rows0[i].ob : i \in DOMAIN rows0})
        order == [k \in DOMAIN byStart |-> byStart[k] % 100]
        RowOf(h, n) == LET m == {i \in DOMAIN S.idx[n] : S.idx[n][i].ob = h}
                       IN IF m = {} THEN [st |-> 0, sz |-> 0] ELSE S.idx[n][CHOOSE i \in m : \A j \in m : i <= j]
        Cols == [h \in Range(order) |-> [j \in DOMAIN names |->
                    LET r == RowOf(h, names[j]) IN [i \in 1..r.sz |-> S.cat[names[j]][r.st + i]]]]
        ragged == \E h \in Range(order) : \E j \in DOMAIN names : Len(Cols[h][j]) > Len(Cols[h][1])
        \* nan_value_from_name (348-365): first row of the label -> its hole -> its data
        FirstOk(n) == /\ S.idx[n] # <<>>
                      /\ LET r == S.idx[n][1] IN r.ob \in LiveHoles(S) /\ ChildIdxById(S.hs[r.ob], r.da) # 0
        Block(h) == LET c == Cols[h] IN
                    [i \in 1..Len(c[1]) |-> <<h>> \o [j \in DOMAIN names |-> IF i <= Len(c[j]) THEN c[j][i] ELSE NDV]]
        rows == FlattenSeq([k \in DOMAIN order |-> Block(order[k])])
    IN  IF hw = {} THEN Absent
        ELSE IF "?" \in allp \/ \E h \in hw : PgOf(S, h, pgname).props = <<>> THEN Raises
        ELSE IF \E j \in DOMAIN names : names[j] \notin S.labels THEN Raises             \* KeyError(name)
        ELSE IF order # <<>> /\ \E j \in DOMAIN names : ~FirstOk(names[j]) THEN Raises
        ELSE IF ragged THEN Raises
        ELSE IF rows = <<>> THEN (IF emptyRaises THEN Raises ELSE [out |-> "ok", names |-> names, rows |-> rows])
        ELSE [out |-> "ok", names |-> names, rows |-> rows]

PredTable(S, pgname) == IF Dev("TableByLabel") THEN AsBuiltTable(S, pgname, Dev("EmptyTableRaises"))
                        ELSE IdealTable(S, pgname, Dev("EmptyTableRaises"))
TableView(S) == [p \in PgNames |-> [pred |-> PredTable(S, p), ideal |-> IdealTable(S, p, FALSE),
                                    loose |-> Dev("StalePgIdCache") /\ StaleCache(S),
                                    dirty |-> \E h \in LiveHoles(S) : Unclean(S, h)]]

\* ------------------------------------------------------------------ behaviour
EmptyStore == [gch |-> <<>>, hs |-> [h \in Holes |-> NoHole], attrs |-> <<>>, akeys |-> <<>>, objIds |-> <<>>,
               labels |-> {}, cat |-> [l \in Labels |-> <<>>], idx |-> [l \in Labels |-> <<>>], pgc |-> {},
               broken |-> FALSE, halt |-> FALSE, sess |-> "mixed",
               \* the group's plain (non-concatenated) child, a comment: "none" (scene without one), "live", "gone",
               \* as built also "detached" (gone from group.children, still linked in the file) and "dangling"
               \* (flat node deleted, link under Groups/<uid>/Data left behind)
               plain |-> IF "RemovePlainChild" \in Acts THEN "live" ELSE "none",
               grp |-> "live"]        \* "removed" after workspace.remove_entity(group)
NoTgt == [holes |-> {}, names |-> {}]
Init == s = EmptyStore /\ last = [act |-> "Init", args |-> [x |-> 0], out |-> "ok", dev |-> {}, tgt |-> NoTgt]

\* after every action the harness reads the tables: the group's id cache is (re)loaded when empty
Settle(S) == LoadPgc(S)
Done(S, act, args, out, dev, tgt) ==
    /\ s' = [Settle(S) EXCEPT !.sess = IF ~TrackSession THEN "mixed"
                                       ELSE IF act = "Reopen" THEN (IF out = "ok" THEN "fresh" ELSE "mixed")
                                       ELSE IF out = "refused" THEN s.sess
                                       ELSE IF act \in {"Protect", "Rename", "SetPublic"} /\ s.sess \in {"fresh", "attr"} THEN "attr"
                                       ELSE "mixed"]
    /\ last' = [act |-> act, args |-> args, out |-> out, dev |-> dev, tgt |-> tgt]
Refused(act, args) == Done(s, act, args, "refused", {}, NoTgt)
Usable(h) == s.hs[h].st = "live" /\ ~Unclean(s, h)
KChoices(n) == {k \in {n - 1, n, n + 1} : k >= 0}
NewVer(v) == IF v = 1 THEN 2 ELSE 1
AssocNames == {"DEPTH", "FROM", "TO"}

\* Drillhole.create(ws, parent=group, ...) -> add_save_concatenated(hole) (117-142)
Surv(h) == <<h * 10 + 1, h * 10 + 2>>
AddHoleOp(S, h) ==
    LET S1 == [S EXCEPT !.gch = Append(@, h), !.hs[h] = [st |-> "live", ch |-> <<>>, pgs |-> <<>>, pgn |-> TRUE]]
        S2 == SetRec(S1, h, Rec(h, "hole", "hole"))
        S3 == [S2 EXCEPT !.objIds = Append(@, h)]
    IN UpdateArray(S3, "Surveys", FALSE, h, 0, Surv(h), TRUE)
AddHole ==
    /\ \E h \in Holes : s.hs[h].st = "none"
    /\ LET h == CHOOSE x \in Holes : s.hs[x].st = "none" /\ \A y \in 1..(x - 1) : s.hs[y].st # "none"
       IN Done(AddHoleOp(s, h), "AddHole", [h |-> h, surveys |-> Surv(h)], "ok", {}, NoTgt)

\* arguments of hole.add_data for a full-length write in state S (used by Populate)
TableArgs(S, h, kind, name, n) ==
    LET t == TableOf(S, h, kind)
        an == AssocOf(kind)
    IN [h |-> h, name |-> name, kind |-> kind,
        assoc |-> [i \in DOMAIN an |-> IF t # 0 THEN ReadLive(S, h, an[i]) ELSE Toks(NewDataId(S, h, an[i]), 1, n)],
        vals |-> Toks(NewDataId(S, h, name), 1, n),
        new |-> [pg |-> IF t # 0 THEN 0 ELSE NewPgId(S, h, kind),
                 assoc |-> [i \in DOMAIN an |-> IF t # 0 THEN 0 ELSE NewDataId(S, h, an[i])],
                 data |-> NewDataId(S, h, name)]]
\* A scene built in one step (the harness runs the listed primitive calls one after the other): MaxHoles
\* holes, depth data "a" of the given lengths in every hole, interval data "b" in every hole but the first.
\* It puts the deep shapes (delete a middle slice, re-add a longer one) within a few actions of Init.
PopulateLens == {<<1, 2, 3>>, <<2, 1, 2>>, <<3, 0, 1>>}
Populate ==
    /\ s = EmptyStore
    /\ \E L \in PopulateLens :
        LET H[i \in 0..MaxHoles] == IF i = 0 THEN s ELSE AddHoleOp(H[i - 1], i)
            A[i \in 0..MaxHoles] == IF i = 0 THEN H[MaxHoles]
                                    ELSE AddData(A[i - 1], i, "D", "a", L[i], Toks(NewDataId(A[i - 1], i, "a"), 1, L[i]))
            B[i \in 1..MaxHoles] == IF i = 1 THEN A[MaxHoles]
                                    ELSE AddData(B[i - 1], i, "I", "b", L[i - 1], Toks(NewDataId(B[i - 1], i, "b"), 1, L[i - 1]))
            steps == [i \in 1..MaxHoles |-> [act |-> "AddHole", args |-> [h |-> i, surveys |-> Surv(i)]]]
                     \o [i \in 1..MaxHoles |-> [act |-> "AddDepthData", args |-> TableArgs(A[i - 1], i, "D", "a", L[i])]]
                     \o [i \in 1..(MaxHoles - 1) |-> [act |-> "AddIntervalData", args |-> TableArgs(B[i], i + 1, "I", "b", L[i])]]
        IN Done(B[MaxHoles], "Populate", [steps |-> steps], "ok", {}, [holes |-> Holes, names |-> DataLabels])

\* hole.add_data({name: {"depth"|"from-to": ..., "values": ...}})
AddTableData(kind) ==
    \E h \in Holes, name \in Names :
      /\ Usable(h)
      /\ LET t == TableOf(s, h, kind)
             lens == IF t # 0 THEN {TableLen(s, h, kind)} ELSE DepthLens
             exists == HasKey(GetRec(s, h), name)
         IN \E n \in lens : \E k \in (IF exists THEN {n} ELSE KChoices(n)) :
              LET d == NewDataId(s, h, name)
                  vals == Toks(d, 1, k)
                  an == AssocOf(kind)
                  assocVals == [i \in DOMAIN an |->
                                  IF t # 0 THEN ReadLive(s, h, an[i]) ELSE Toks(NewDataId(s, h, an[i]), 1, n)]
                  newIds == [pg |-> IF t # 0 THEN 0 ELSE NewPgId(s, h, kind),
                             assoc |-> [i \in DOMAIN an |-> IF t # 0 THEN 0 ELSE NewDataId(s, h, an[i])],
                             data |-> d]
                  args == [h |-> h, name |-> name, kind |-> kind, assoc |-> assocVals, vals |-> vals, new |-> newIds]
                  act == IF kind = "D" THEN "AddDepthData" ELSE "AddIntervalData"
              IN IF exists \/ k > n                       \* ValueError / AssertionError before anything is touched
                 THEN Refused(act, args)
                 ELSE Done(AddData(s, h, kind, name, n, vals), act, args, "ok", {},
                           [holes |-> {h}, names |-> {name} \cup (IF t # 0 THEN {} ELSE Range(an))])

\* data.values = array  (numeric_data.py:64-72 -> Workspace.update_attribute -> update_attributes 568-572)
SetValues ==
    \E h \in Holes, name \in Names :
      /\ Usable(h)
      /\ ChildIdxByName(s.hs[h], name) # 0
      /\ LET ci == ChildIdxByName(s.hs[h], name)
             c == s.hs[h].ch[ci]
             n == Len(c.vals)
         IN /\ c.vals # NoneVals
            /\ \E k \in (IF Kind = "text" THEN {n} ELSE KChoices(n)) :
                 LET v == NewVer(c.ver)
                     vals == Toks(c.id, v, k)
                     args == [h |-> h, name |-> name, vals |-> vals]
                     S1 == [s EXCEPT !.hs[h].ch[ci].vals = Pad(vals, n), !.hs[h].ch[ci].ver = v]
                 IN IF k > n THEN Refused("SetValues", args)                 \* format_length raises ValueError
                    ELSE Done(UpdateArray(S1, c.name, TRUE, h, c.id, Pad(vals, n), TRUE), "SetValues", args, "ok", {},
                              [holes |-> {h}, names |-> {name}])

\* data.name = new  (entity.py:251-254 -> update_attributes(entity, "attributes") -> 574-604)
Rename ==
    \E h \in Holes, name \in Names, new \in Names :
      /\ Usable(h) /\ new # name
      /\ ChildIdxByName(s.hs[h], name) # 0
      /\ ChildIdxByName(s.hs[h], new) = 0 /\ ~HasKey(GetRec(s, h), new)
      /\ LET ci == ChildIdxByName(s.hs[h], name)
             c == s.hs[h].ch[ci]
             args == [h |-> h, name |-> name, new |-> new]
             \* as built: only the python object and the 'Name' of its record change
             S1 == [s EXCEPT !.hs[h].ch[ci].name = new]
             S2 == SetRec(S1, c.id, [GetRec(S1, c.id) EXCEPT !.name = new])
             \* ideal: the slice moves to the new label and the hole's key follows
             hr == GetRec(S2, h)
             S3 == SetRec(S2, h, [hr EXCEPT !.keys[KeyIdx(hr, name)].n = new])
             S4 == UpdateArray(UpdateArray(S3, name, TRUE, h, c.id, <<>>, FALSE), new, TRUE, h, c.id, c.vals, TRUE)
         IN IF Dev("RenameKeepsLabel")
            THEN Done(S2, "Rename", args, "ok", {"RenameKeepsLabel"}, [holes |-> {h}, names |-> {name, new}])
            ELSE Done(S4, "Rename", args, "ok", {}, [holes |-> {h}, names |-> {name, new}])

CascadeNames(h, name) ==       \* names that go away with `name`: the table's depths when it was the last payload
    LET p == PgIdxOfData(s.hs[h], s.hs[h].ch[ChildIdxByName(s.hs[h], name)].id)
    IN IF p = 0 THEN {name}
       ELSE LET props == s.hs[h].pgs[p].props
                an == AssocOf(KindOfType(s.hs[h].pgs[p].ptype))
            IN IF Len(props) = Len(an) + 1 THEN {name} \cup Range(an) ELSE {name}

\* hole.remove_children([data])  |  workspace.remove_entity(data) (workspace.py:601-614)
RemoveData(via) ==
    \E h \in Holes, name \in (IF via = "ws" THEN DataLabels ELSE Names) :
      /\ Usable(h)
      /\ ChildIdxByName(s.hs[h], name) # 0
      /\ LET c == s.hs[h].ch[ChildIdxByName(s.hs[h], name)]
             args == [h |-> h, name |-> name]
             tgt == [holes |-> {h}, names |-> CascadeNames(h, name)]
             act == IF via = "ws" THEN "RemoveDataViaWorkspace" ELSE "RemoveDataViaParent"
         IN IF via = "ws" /\ ~GetRec(s, c.id).ad            \* Workspace.remove_entity: allow_delete is checked first -> UserWarning
            THEN Refused(act, args)
            ELSE IF via = "ws" /\ Dev("WsRemoveKeepsChild")
            THEN Done(RemoveDataCore(s, h, c.id), act, args, "ok", {"WsRemoveKeepsChild"}, tgt)   \* the child stays in hole._children
            ELSE Done(RemoveChild(s, h, c.id), act, args, "ok", {}, tgt)

\* entity.allow_delete = False on a hole (name = "") or on one of its payload data
Protect ==
    \E h \in Holes, name \in Names \cup {""} :
      /\ Usable(h)
      /\ name # "" => ChildIdxByName(s.hs[h], name) # 0
      /\ LET id == IF name = "" THEN h ELSE s.hs[h].ch[ChildIdxByName(s.hs[h], name)].id
         IN /\ GetRec(s, id).ad
            /\ Done(SetRec(s, id, [GetRec(s, id) EXCEPT !.ad = FALSE]), "Protect", [h |-> h, name |-> name], "ok", {}, NoTgt)

\* group.remove_children([hole])  |  workspace.remove_entity(hole)  -> remove_entity(hole) (497-504, 515-522)
RemoveHole(via) ==
    \E h \in Holes :
      /\ s.hs[h].st = "live"
      /\ LET act == IF via = "ws" THEN "RemoveHoleViaWorkspace" ELSE "RemoveHoleViaParent"
             args == [h |-> h]
             tgt == [holes |-> {h}, names |-> DataLabels]
             pgids == [i \in DOMAIN s.hs[h].pgs |-> s.hs[h].pgs[i].id]
             RmPgs[i \in 0..Len(pgids)] == IF i = 0 THEN s ELSE RemovePgCore(RmPgs[i - 1], h, pgids[i])
             S1a == RmPgs[Len(pgids)]
             S1 == RemoveChildren(S1a, h, [i \in DOMAIN S1a.hs[h].ch |-> S1a.hs[h].ch[i].id])     \* data outside every group
             S2 == DropRec([S1 EXCEPT !.objIds = Without(@, h), !.hs[h] = [NoHole EXCEPT !.st = "gone"]], h)
             \* the repaired remove_entity calls update_array_attribute(hole, "property_groups", remove=True): with
             \* _property_groups None the field is not translated to "Property Group IDs" (632-636) and the (empty) row stays
             keepPg == Dev("HoleRemovalKeepsEmptyPgRow") /\ s.hs[h].pgn
             S3 == IF Dev("HoleRemovalKeepsObjectRows") THEN S2
                   ELSE LET A == UpdateArray(S2, "Surveys", FALSE, h, 0, <<>>, FALSE)
                        IN IF keepPg THEN A ELSE UpdateArray(A, "PGIDS", FALSE, h, 0, <<>>, FALSE)
             S4 == IF Dev("HoleRemovalKeepsGroupChild") THEN S3 ELSE [S3 EXCEPT !.gch = Without(@, h)]
         IN IF via = "ws" /\ ~GetRec(s, h).ad       \* protected hole: UserWarning, nothing changes
            THEN Refused(act, args)
            ELSE IF Unclean(s, h)         \* a child the record does not list: del parent_attr['Property:<name>'] -> KeyError
            THEN Done([s EXCEPT !.broken = TRUE], act, args, "raises",
                      IF \E i \in DOMAIN s.hs[h].ch : \A k \in DOMAIN GetRec(s, h).keys : GetRec(s, h).keys[k].d # s.hs[h].ch[i].id
                      THEN {"WsRemoveKeepsChild"} ELSE {"RenameKeepsLabel"}, tgt)
            ELSE Done(S4, act, args, "ok", (Deviations \cap {"HoleRemovalKeepsObjectRows", "HoleRemovalKeepsGroupChild"})
                                           \cup (IF keepPg /\ FetchIndex(s, "PGIDS", FALSE, h) # 0 THEN {"HoleRemovalKeepsEmptyPgRow"} ELSE {}), tgt)

\* hole.remove_children([pg])  |  workspace.remove_entity(pg)
RemovePropertyGroup ==
    \E h \in Holes, pgname \in PgNames, via \in {"ws", "parent"} :
      /\ Usable(h)
      /\ PgIdxByName(s.hs[h], pgname) # 0
      /\ LET pg == PgOf(s, h, pgname)
             names == {s.hs[h].ch[ChildIdxById(s.hs[h], pg.props[i])].name : i \in DOMAIN pg.props}
         IN Done(RemovePgCore(s, h, pg.id), "RemovePropertyGroup", [h |-> h, pg |-> pgname, via |-> via], "ok", {},
                 [holes |-> {h}, names |-> names])

\* group.drillholes_tables[pgname].add_values_to_property_group(name, values) (drillholes_group_table.py:189-240)
AddValuesToTable ==
    \E pgname \in PgNames, name \in Names :
      /\ \A h \in LiveHoles(s) : ~Unclean(s, h)
      /\ ~(Dev("StalePgIdCache") /\ StaleCache(s))
      /\ IdealTable(s, pgname, FALSE).out = "ok" /\ AsBuiltTable(s, pgname, FALSE).out = "ok"
      /\ LET kind == KindOfPg(pgname)
             a1 == AssocOf(kind)[1]
             total == Len(s.cat[a1])
         IN \E k \in {total, total + 1} :
              LET vals == [i \in 1..k |-> 90000 + i]
                  rows == s.idx[a1]
                  byStart == SetToSeq({rows[i].st * 1000 + rows[i].sz * 100 + rows[i].ob : i \in DOMAIN rows})
                  order == [j \in DOMAIN byStart |-> byStart[j] % 100]
                  RowOf(h) == rows[CHOOSE i \in DOMAIN rows : rows[i].ob = h]
                  Put[j \in 0..Len(order)] ==
                      IF j = 0 THEN s
                      ELSE LET h == order[j]
                               r == RowOf(h)
                           IN AddData(Put[j - 1], h, kind, name, r.sz, [i \in 1..r.sz |-> vals[r.st + i]])
                  newIds == [j \in DOMAIN order |-> [h |-> order[j], data |-> NewDataId(s, order[j], name)]]
                  args == [pg |-> pgname, name |-> name, vals |-> vals, new |-> newIds]
              IN IF name \in s.labels \/ k # total            \* KeyError "not present in data" / ValueError length
                 THEN Refused("AddValuesToTable", args)
                 ELSE Done(Put[Len(order)], "AddValuesToTable", args, "ok", {}, [holes |-> Range(order), names |-> {name}])

\* ws.close(); Workspace(path)
Reopen ==
    IF Corrupt(s) /\ s.objIds # <<>>
    \* a record without 'ID': attributes_keys (81-93) raises KeyError while the group's holes are loaded
    THEN Done([s EXCEPT !.broken = TRUE], "Reopen", [x |-> 0], "raises", {"HoleRemovalKeepsGroupChild"}, NoTgt)
    ELSE LET R == ReopenState(s)
             \* a key whose record carries another name (RenameKeepsLabel): loading the child adds a second
             \* 'Property:' key for the same uid (data.py:72-75); the model stops here.  It also stops when the
             \* empty record went unnoticed because there is no hole to load (the next AddHole would raise).
             stale == \E h \in LiveHoles(R) : \E k \in DOMAIN GetRec(R, h).keys :
                         LET e == GetRec(R, h).keys[k] IN HasRec(R, e.d) /\ GetRec(R, e.d).name # e.n
         IN Done([R EXCEPT !.halt = stale \/ Corrupt(s)], "Reopen", [x |-> 0], "ok", {}, NoTgt)

\* group.copy(name=...) | group.copy(parent=other_workspace)  (Concatenator.copy 203-273)
CopyGroup ==
    \E mode \in {"same", "other"} :
      /\ \A h \in LiveHoles(s) : ~Unclean(s, h)
      /\ LET ghosts == SelectSeq(s.gch, LAMBDA h : h \notin Range(s.objIds))
             \* same workspace: every python child is copied, a removed hole that is still listed included;
             \* reading its attributes appends an empty record to the SOURCE (get_concatenated_attributes)
             G[i \in 0..Len(ghosts)] == IF i = 0 THEN s ELSE EnsureRec(G[i - 1], ghosts[i])
             hit == mode = "same" /\ ghosts # <<>>
             holes == IF mode = "same" THEN s.gch ELSE s.objIds
         IN Done(IF hit THEN G[Len(ghosts)] ELSE s, "CopyGroup", [mode |-> mode, holes |-> holes], "ok",
                 IF hit THEN {"HoleRemovalKeepsGroupChild"} ELSE {}, NoTgt)

\* workspace.save_entity(hole) for a hole that is already stored: add_save_concatenated (117-142) again - the record is
\* rewritten with the same content, the uid is already in the object-id list ("if uid not in ...": unchanged), the
\* survey slice is removed and appended again.  Logically nothing changes, in memory or in the file.
SaveHoleAgain ==
    \E h \in Holes :
      /\ Usable(h)
      /\ Done(UpdateArray(s, "Surveys", FALSE, h, 0, Surv(h), TRUE), "SaveHoleAgain", [h |-> h], "ok", {}, NoTgt)

\* hole.public = False : an attribute edit of the hole (entity.py -> update_attributes(entity, "attributes"))
SetPublic ==
    \E h \in Holes :
      /\ Usable(h) /\ GetRec(s, h).pub
      /\ Done(SetRec(s, h, [GetRec(s, h) EXCEPT !.pub = FALSE]), "SetPublic", [h |-> h], "ok", {}, NoTgt)

\* ------------------------------------------------------------------ round 3 actions
\* workspace.remove_entity(comment) | group.remove_children([comment]) for the plain child of the group.
\* As built Concatenator.remove_children (462-478) only calls remove_entity, which knows concatenated entities only:
\* the parent never unlinks the child in the file (EntityContainer.remove_children -> Workspace.remove_children does).
RemovePlainChild ==
    \E via \in {"ws", "parent"} :
      /\ s.plain = "live"
      /\ Done([s EXCEPT !.plain = IF ~Dev("PlainChildNotUnlinked") THEN "gone"
                                  ELSE IF via = "ws" THEN "dangling" ELSE "detached"],
              "RemovePlainChild", [via |-> via], "ok", Deviations \cap {"PlainChildNotUnlinked"}, NoTgt)

\* group.copy(parent=other_workspace), then an edit of the COPY (remove a hole, or one of its payload data), then the
\* harness asks the SOURCE whether its object ids and records are still there (outcome ok) or not (outcome exception).
\* As built the fast path of Concatenator.copy (239-243) hands the very same dict / list objects to the copy.
CopyEdit ==
    \E h \in Holes, name \in Names \cup {""} :
      /\ \A x \in LiveHoles(s) : ~Unclean(s, x)
      /\ Usable(h) /\ ~Corrupt(s)
      /\ name # "" => ChildIdxByName(s.hs[h], name) # 0
      /\ IF Dev("CopySharesRecords")
         THEN Done([s EXCEPT !.broken = TRUE], "CopyEdit", [h |-> h, name |-> name], "raises", {"CopySharesRecords"}, NoTgt)
         ELSE Done(s, "CopyEdit", [h |-> h, name |-> name], "ok", {}, NoTgt)

\* group.copy(parent=other_workspace); then, in the same session of the target, an unrelated group is created and removed;
\* the target is closed, opened again, and every data set of every hole of the copy is read (outcome ok / exception; the
\* values read are compared with the source's).  As built the fast path of Concatenator.copy (253-262) saves the data
\* types in the target but keeps no reference to the DataType objects (the copied data are loaded lazily):
\* Workspace.remove_entity -> remove_none_referents(self._types) deletes their nodes, which the copied records still
\* name by 'Type ID'; the data of the copy can no longer be loaded.  The source is not affected.
CopyPurge ==
    /\ \A x \in LiveHoles(s) : ~Unclean(s, x)
    /\ ~Corrupt(s) /\ s.objIds # <<>>
    /\ LET hasData == \E h \in LiveHoles(s) : s.hs[h].ch # <<>>
       IN IF Dev("CopyTypesPurged") /\ hasData
          THEN Done(s, "CopyPurge", [holes |-> s.objIds], "refused", {"CopyTypesPurged"}, NoTgt)
          ELSE Done(s, "CopyPurge", [holes |-> s.objIds], "ok", {}, NoTgt)

\* hole.add_data({"o": {"association": "OBJECT", "values": ...}}) : concatenated data outside every property group
AddObjectData ==
    \E h \in Holes :
      /\ Usable(h) /\ ~HasKey(GetRec(s, h), "o")
      /\ LET d == NewDataId(s, h, "o")
             vals == Toks(d, 1, 1)
         IN Done(CreateData(s, h, d, "o", vals), "AddObjectData", [h |-> h, vals |-> vals, new |-> d], "ok", {},
                 [holes |-> {h}, names |-> {"o"}])

\* hole.add_data of a name whose constructor fails after the parent was set (INTEGER data given decimals): refused.
\* As built ConcatenatedData.parent (data.py:63-75) has already added the object to hole.children and the
\* 'Property:<name>' key to the hole record; nothing takes them back.  The model stops after such a state.
AddBadData ==
    \E h \in Holes, name \in Names :
      /\ Usable(h) /\ TableOf(s, h, "D") # 0 /\ ~HasKey(GetRec(s, h), name) /\ ChildIdxByName(s.hs[h], name) = 0
      /\ LET d == NewDataId(s, h, name)
             hr == GetRec(s, h)
             args == [h |-> h, name |-> name, depths |-> ReadLive(s, h, "DEPTH"), new |-> d]
             S1 == [s EXCEPT !.hs[h].ch = Append(@, [id |-> d, name |-> name, vals |-> NoneVals, ver |-> 1]), !.halt = TRUE]
             S2 == SetRec(S1, h, [hr EXCEPT !.keys = Append(@, [n |-> name, d |-> d])])
         IN IF Dev("FailedCreateKeepsKey")
            THEN Done(S2, "AddBadData", args, "refused", {"FailedCreateKeepsKey"}, [holes |-> {h}, names |-> {name}])
            ELSE Refused("AddBadData", args)

\* ws.close(); Workspace(path); group.remove_children([hole]) straight away - nothing of the hole is read before.
\* As built remove_entity(hole) removes `hole.children` as loaded so far: the property groups are there (loaded with the
\* workspace), data outside every group are not (object.py:77-93 loads them on first get_entity) and stay behind.
ReopenRemoveHole ==
    \E h \in Holes :
      /\ s.hs[h].st = "live" /\ ~Corrupt(s) /\ GetRec(s, h).ad
      /\ \A x \in LiveHoles(s) : ~Unclean(s, x)
      /\ LET R == ReopenState(s)
             pgids == [i \in DOMAIN R.hs[h].pgs |-> R.hs[h].pgs[i].id]
             RmPgs[i \in 0..Len(pgids)] == IF i = 0 THEN R ELSE RemovePgCore(RmPgs[i - 1], h, pgids[i])
             S1 == RmPgs[Len(pgids)]
             oi == ChildIdxByName(S1.hs[h], "o")
             lost == Dev("UngroupedDataNotLoaded") /\ oi # 0
             S1b == IF oi # 0 /\ ~lost THEN RemoveChild(S1, h, S1.hs[h].ch[oi].id) ELSE S1
             S2 == DropRec([S1b EXCEPT !.objIds = Without(@, h), !.gch = Without(@, h), !.hs[h] = [NoHole EXCEPT !.st = "gone"]], h)
             keepPg == Dev("HoleRemovalKeepsEmptyPgRow") /\ R.hs[h].pgn
             S3 == IF Dev("HoleRemovalKeepsObjectRows") THEN S2
                   ELSE LET A == UpdateArray(S2, "Surveys", FALSE, h, 0, <<>>, FALSE)
                        IN IF keepPg THEN A ELSE UpdateArray(A, "PGIDS", FALSE, h, 0, <<>>, FALSE)
         IN Done(S3, "ReopenRemoveHole", [h |-> h], "ok",
                 (IF lost THEN {"UngroupedDataNotLoaded"} ELSE {}) \cup (Deviations \cap {"HoleRemovalKeepsObjectRows"})
                   \cup (IF keepPg /\ FetchIndex(R, "PGIDS", FALSE, h) # 0 THEN {"HoleRemovalKeepsEmptyPgRow"} ELSE {}),
                 [holes |-> {h}, names |-> DataLabels])

\* ws.close(); Workspace(path); then workspace.remove_entity(pg) | hole.remove_children([pg]) straight away: the hole's data
\* have not been loaded in this session.  remove_entity(pg) (506-513) finds the members through the hole
\* (entity.parent.get_entity(uid)), which loads the hole's children on first use (object.py:95-113), so the whole
\* table goes: its DEPTH / FROM, TO, its payload, their keys, records and rows.
ReopenRemoveGroup ==
    \E h \in Holes, pgname \in PgNames, via \in {"ws", "parent"} :
      /\ Usable(h) /\ ~Corrupt(s)
      /\ \A x \in LiveHoles(s) : ~Unclean(s, x)
      /\ PgIdxByName(s.hs[h], pgname) # 0
      /\ LET R == ReopenState(s)
             pg == PgOf(R, h, pgname)
             names == {R.hs[h].ch[ChildIdxById(R.hs[h], pg.props[i])].name : i \in DOMAIN pg.props}
         IN Done(RemovePgCore(R, h, pg.id), "ReopenRemoveGroup", [h |-> h, pg |-> pgname, via |-> via], "ok", {},
                 [holes |-> {h}, names |-> names])

\* workspace.remove_entity(drillhole_group) (workspace.py remove_entity -> remove_recursively): the group, its holes, their
\* data and its plain child are gone from memory and from the file - no node under Groups/, no flat node of the plain child
\* under Data/, the file is well-formed (harness/h5snap.wellformed) while open and after close, and the group is not
\* there after re-open.  The behaviour ends here.
RemoveGroup ==
    /\ s.grp = "live" /\ ~Corrupt(s)
    /\ \A x \in LiveHoles(s) : ~Unclean(s, x)
    /\ s.plain \in {"none", "live", "gone"}
    /\ Done([s EXCEPT !.grp = "removed", !.halt = TRUE, !.plain = IF @ = "none" THEN "none" ELSE "gone"],
            "RemoveGroup", [x |-> 0], "ok", {}, [holes |-> Holes, names |-> DataLabels])

Enabled(a) == a \in Acts
Next ==
    /\ ~s.broken /\ ~s.halt
    /\ \/ /\ TLCGet("level") <= MaxLevel
          /\ IF Corrupt(s) THEN Reopen
             ELSE \/ Enabled("Populate") /\ Populate
                  \/ Enabled("AddHole") /\ AddHole
                  \/ Enabled("AddDepthData") /\ AddTableData("D")
                  \/ Enabled("AddIntervalData") /\ AddTableData("I")
                  \/ Enabled("SetValues") /\ SetValues
                  \/ Enabled("Rename") /\ Rename
                  \/ Enabled("RemoveDataViaParent") /\ RemoveData("parent")
                  \/ Enabled("RemoveDataViaWorkspace") /\ RemoveData("ws")
                  \/ Enabled("RemoveHoleViaParent") /\ RemoveHole("parent")
                  \/ Enabled("RemoveHoleViaWorkspace") /\ RemoveHole("ws")
                  \/ Enabled("RemovePropertyGroup") /\ RemovePropertyGroup
                  \/ Enabled("AddValuesToTable") /\ AddValuesToTable
                  \/ Enabled("Reopen") /\ Reopen
                  \/ Enabled("CopyGroup") /\ CopyGroup
                  \/ Enabled("Protect") /\ Protect
                  \/ Enabled("SaveHoleAgain") /\ SaveHoleAgain
                  \/ Enabled("SetPublic") /\ SetPublic
                  \/ Enabled("RemovePlainChild") /\ RemovePlainChild
                  \/ Enabled("CopyEdit") /\ CopyEdit
                  \/ Enabled("CopyPurge") /\ CopyPurge
                  \/ Enabled("AddObjectData") /\ AddObjectData
                  \/ Enabled("AddBadData") /\ AddBadData
                  \/ Enabled("ReopenRemoveHole") /\ ReopenRemoveHole
                  \/ Enabled("ReopenRemoveGroup") /\ ReopenRemoveGroup
                  \/ Enabled("RemoveGroup") /\ RemoveGroup
       \* every state reached by the last allowed action is still re-opened once (read back from the file)
       \/ TLCGet("level") = MaxLevel + 1 /\ Enabled("Reopen") /\ Reopen
Spec == Init /\ [][Next]_vars

\* ------------------------------------------------------------------ the property (C04)
\* each concatenated array is exactly tiled by its index rows
\* sorting the rows by start gives start_1 = 0, start_{k+1} = start_k + size_k and the sizes add up to the
\* length: every row starts where the rows before it end (zero-size rows sit on a boundary), no two
\* non-empty rows share a start
RECURSIVE SumBefore(_, _)
SumBefore(rows, st) == IF rows = <<>> THEN 0
                       ELSE (IF Head(rows).st < st THEN Head(rows).sz ELSE 0) + SumBefore(Tail(rows), st)
Tiled(S, l) ==
    LET rows == S.idx[l]
    IN /\ SumSz(rows) = Len(S.cat[l])
       /\ \A i \in DOMAIN rows : rows[i].st = SumBefore(rows, rows[i].st)
       /\ \A i, j \in DOMAIN rows : (i # j /\ rows[i].sz > 0 /\ rows[j].sz > 0) => rows[i].st # rows[j].st
AllTiled == \A l \in Labels : Tiled(s, l)
NoDuplicateOwner == \A l \in Labels : \A i, j \in DOMAIN s.idx[l] :
                        i # j => <<s.idx[l][i].ob, s.idx[l][i].da>> # <<s.idx[l][j].ob, s.idx[l][j].da>>
\* every row belongs to a live hole and (data labels) to a live data set of that hole stored under its name
RowsOwnedLive ==
    \A l \in Labels : \A i \in DOMAIN s.idx[l] :
        LET r == s.idx[l][i] IN
        /\ r.ob \in Range(s.objIds) /\ s.hs[r.ob].st = "live"
        /\ IF l \in {"Surveys", "PGIDS"} THEN r.da = 0
           ELSE /\ ChildIdxById(s.hs[r.ob], r.da) # 0
                /\ s.hs[r.ob].ch[ChildIdxById(s.hs[r.ob], r.da)].name = l
                /\ \E k \in DOMAIN GetRec(s, r.ob).keys : GetRec(s, r.ob).keys[k] = [n |-> l, d |-> r.da]
\* exactly one attribute record per live hole, data set and property group; the key list mirrors it
LiveIds == Range(s.objIds)
           \cup UNION {{s.hs[h].ch[i].id : i \in DOMAIN s.hs[h].ch} : h \in LiveHoles(s)}
           \cup LivePgIds(s)
OneRecordEach ==
    /\ Len(s.attrs) = Len(s.akeys)
    /\ \A i \in DOMAIN s.attrs : s.attrs[i].id = s.akeys[i] /\ s.attrs[i].kind # "empty"
    /\ \A i, j \in DOMAIN s.akeys : i # j => s.akeys[i] # s.akeys[j]
    /\ Range(s.akeys) = LiveIds
    /\ LiveHoles(s) = Range(s.objIds)
\* 'Property:<name>' key iff the hole has that data (same uid, same name)
KeysMatchChildren ==
    \A h \in LiveHoles(s) :
        {<<GetRec(s, h).keys[k].n, GetRec(s, h).keys[k].d>> : k \in DOMAIN GetRec(s, h).keys}
          = {<<s.hs[h].ch[i].name, s.hs[h].ch[i].id>> : i \in DOMAIN s.hs[h].ch}
PgsConsistent ==
    \A h \in LiveHoles(s) :
        /\ \A i \in DOMAIN s.hs[h].pgs : LET pg == s.hs[h].pgs[i] IN
              /\ HasRec(s, pg.id) /\ GetRec(s, pg.id).props = pg.props /\ pg.props # <<>>
              /\ \A d \in Range(pg.props) : ChildIdxById(s.hs[h], d) # 0
        /\ LET ids == FetchValues(s, "PGIDS", FALSE, h) IN
              IF ids = NoneVals THEN s.hs[h].pgs = <<>> ELSE ids = [i \in DOMAIN s.hs[h].pgs |-> s.hs[h].pgs[i].id]
\* what storage returns for a listed data set is what the live object holds (= the last written values)
ReadBackOK == \A h \in LiveHoles(s) : \A n \in KeyNames(GetRec(s, h)) :
                 /\ ReadLive(s, h, n) = ReadStore(s, h, n)
                 /\ ReadLive(s, h, n) \notin {NoneVals, Missing}
TableOK == \A p \in PgNames : PredTable(s, p) = IdealTable(s, p, FALSE)
NeverBroken == ~s.broken /\ ~Corrupt(s)
GroupChildrenLive == s.gch = s.objIds
\* the group's cached list of property-group ids names live groups only (the table view is built from it)
PgCacheFresh == ~StaleCache(s)

\* an action on (h, name) leaves every other (h', name') readable and unchanged, live and in storage
Isolation ==
    [][\A h \in LiveHoles(s) : \A n \in KeyNames(GetRec(s, h)) :
          (h \notin last'.tgt.holes \/ n \notin last'.tgt.names) =>
             /\ h \in LiveHoles(s') /\ n \in KeyNames(GetRec(s', h))
             /\ (last'.act # "Reopen" => ReadLive(s', h, n) = ReadLive(s, h, n))
             /\ ReadStore(s', h, n) = ReadStore(s, h, n)]_vars

\* workspace.remove_entity on an entity whose allow_delete is off changes nothing
ProtectedStay ==
    [][(last'.act \in {"RemoveHoleViaWorkspace", "RemoveDataViaWorkspace"} /\ last'.out = "refused") => s' = s]_vars

PlainChildClean == s.plain \in {"none", "live", "gone"}

\* a copy stays readable whatever else happens in its workspace
CopiesReadable == [][last'.act = "CopyPurge" => last'.out = "ok"]_vars

InvNames == <<"AllTiled", "NoDuplicateOwner", "RowsOwnedLive", "OneRecordEach", "KeysMatchChildren",
              "PgsConsistent", "ReadBackOK", "TableOK", "NeverBroken", "GroupChildrenLive", "PgCacheFresh", "PlainChildClean">>
InvVals == <<AllTiled, NoDuplicateOwner, RowsOwnedLive, OneRecordEach, KeysMatchChildren,
             PgsConsistent, ReadBackOK, TableOK, NeverBroken, GroupChildrenLive, PgCacheFresh, PlainChildClean>>
Bad == IF s.broken THEN {"NeverBroken"} ELSE {InvNames[i] : i \in {j \in DOMAIN InvNames : ~InvVals[j]}}

\* ------------------------------------------------------------------ export (harness/tlc.py)
ExportState == PrintT(<<"ST", TLCFP(vw), TLCFP(<<vw, 1>>),
                        ToJson([s |-> s, version |-> Version, kind |-> Kind, devs |-> Deviations,
                                api |-> IF s.broken THEN <<>> ELSE ApiView(s),
                                tables |-> IF s.broken THEN <<>> ELSE TableView(s),
                                bad |-> Bad])>>)
ExportTrans == PrintT(<<"TR", TLCFP(vw), TLCFP(<<vw, 1>>), TLCFP(vw'), TLCFP(<<vw', 1>>), ToJson(last')>>)
=============================================================================
