\* small graph in which every named deviation has a witness reachable without any other deviation before it;
\* harness/checks/C04.py replays those witnesses to learn which deviations the implementation (still) shows
SPECIFICATION Spec
CONSTANTS
  MaxHoles = 2
  Names = {"a", "b"}
  DepthLens = {0, 1}
  Version = 21
  Deviations = {"RenameKeepsLabel", "WsRemoveKeepsChild", "HoleRemovalKeepsObjectRows", "HoleRemovalKeepsGroupChild", "StalePgIdCache", "EmptyTableRaises", "TableByLabel", "CopySharesRecords", "PlainChildNotUnlinked", "UngroupedDataNotLoaded", "FailedCreateKeepsKey", "HoleRemovalKeepsEmptyPgRow", "CopyTypesPurged"}
  MaxLevel = 3
  Acts = {"Populate", "AddHole", "AddDepthData", "AddIntervalData", "SetValues", "Rename", "RemoveDataViaParent", "RemoveDataViaWorkspace", "RemoveHoleViaParent", "RemoveHoleViaWorkspace", "RemovePropertyGroup", "AddValuesToTable", "Reopen", "CopyGroup", "AddObjectData", "AddBadData", "RemovePlainChild", "CopyEdit", "CopyPurge", "ReopenRemoveHole"}
  TrackSession = FALSE
  Kind = "float"
VIEW vw
INVARIANT ExportState
ACTION_CONSTRAINT ExportTrans
CHECK_DEADLOCK FALSE
