\* negative control: deviation WsRemoveKeepsChild alone violates KeysMatchChildren
SPECIFICATION Spec
CONSTANTS
  MaxHoles = 2
  Names = {"a", "b"}
  DepthLens = {1, 2}
  Version = 21
  Deviations = {"WsRemoveKeepsChild"}
  MaxLevel = 4
  Acts = {"Populate", "AddHole", "AddDepthData", "AddIntervalData", "SetValues", "Rename", "RemoveDataViaParent", "RemoveDataViaWorkspace", "RemoveHoleViaParent", "RemoveHoleViaWorkspace", "RemovePropertyGroup", "AddValuesToTable", "Reopen", "CopyGroup"}
  TrackSession = FALSE
  Kind = "float"
VIEW vw
INVARIANT KeysMatchChildren
CHECK_DEADLOCK FALSE
