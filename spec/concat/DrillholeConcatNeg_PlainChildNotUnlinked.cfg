\* negative control: deviation PlainChildNotUnlinked alone violates PlainChildClean
SPECIFICATION Spec
CONSTANTS
  MaxHoles = 2
  Names = {"a", "b"}
  DepthLens = {1}
  Version = 21
  Deviations = {"PlainChildNotUnlinked"}
  MaxLevel = 4
  Acts = {"AddHole", "AddDepthData", "AddObjectData", "AddBadData", "RemovePlainChild", "CopyEdit", "ReopenRemoveHole", "Reopen", "RemoveHoleViaParent", "RemoveDataViaParent", "RemoveDataViaWorkspace"}
  TrackSession = FALSE
  Kind = "float"
VIEW vw
INVARIANT PlainChildClean
CHECK_DEADLOCK FALSE
