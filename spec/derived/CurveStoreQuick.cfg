SPECIFICATION Spec
CONSTANTS
  NVs = {3, 4}
  NLabels = 2
  MaxRemove = 1
  Deviations = {}
VIEW vw
INVARIANT StoredFollowsLive
PROPERTY ReopenKeepsTheCurve
PROPERTY StoredSegmentsFollowLabels
INVARIANT ExportState
ACTION_CONSTRAINT ExportTrans
CHECK_DEADLOCK FALSE
