------------------------------ MODULE CurveStore ------------------------------
(* C17 - the segments derived from part labels are the segments of the STORED curve.             *)
(* A geoh5 curve stores only its Cells dataset; part labels exist in the file only through the   *)
(* segments derived from them.  State machine with two views of one Curve that is already on     *)
(* file:   live   = the cells the live object reports (derived lazily from labels),              *)
(*         stored = the Cells dataset in the file,                                               *)
(* and the actions  SetParts (Curve.parts setter, curve.py:157-172), RemoveCells                 *)
(* (cell_object.py:76-107), ReadCells / ReadParts (the getters, curve.py:51-76, 127-155) and     *)
(* Reopen (close the workspace, open the file again, fetch the curve).  For every interleaving:  *)
(* stored = live after every action, what comes back from a re-open is what was there before it, *)
(* and after SetParts(labels) the stored segments join consecutive vertices of the same part     *)
(* only.  Vertices are 1-based here, exported 0-based.                                            *)
EXTENDS Integers, Sequences, FiniteSets, TLC, TLCExt, Json

CONSTANTS NVs,         \* set of vertex counts
          NLabels,
          MaxRemove,   \* RemoveCells removes 1..MaxRemove cells (0 disables the action)
          Deviations   \* {} ; "PartsSetterLazyWrite" (negative control): the parts setter only drops the cached cells;
                       \*      the file is written when somebody next reads cells or parts of the live object

VARIABLES n, live, stored, pending, last
vars == <<n, live, stored, pending, last>>
vw == <<n, live, stored, pending>>
Dev(d) == d \in Deviations

RECURSIVE SeqFlatten(_)
SeqFlatten(ss) == IF ss = <<>> THEN <<>> ELSE Head(ss) \o SeqFlatten(Tail(ss))
Positions(lab, p) == SelectSeq([i \in 1..Len(lab) |-> i], LAMBDA i : lab[i] = p)
Chain(ind) == [m \in 1..(Len(ind) - 1) |-> <<ind[m], ind[m + 1]>>]
CellsFromParts(lab) == SeqFlatten([p \in 1..NLabels |-> Chain(Positions(lab, p))])          \* curve.py:58-64
Edges(cells) == {cells[c] : c \in DOMAIN cells} \cup {<<cells[c][2], cells[c][1]>> : c \in DOMAIN cells}
RECURSIVE Reach(_, _)
Reach(S, E) == LET N == S \cup {e[2] : e \in {f \in E : f[1] \in S}} IN IF N = S THEN S ELSE Reach(N, E)
Components(nv, cells) == {Reach({v}, Edges(cells)) : v \in 1..nv}
KeepIdx(seq, drop) == SelectSeq([i \in 1..Len(seq) |-> i], LAMBDA i : i \notin drop)
CellsWithout(cells, S) == LET k == KeepIdx(cells, S) IN [m \in 1..Len(k) |-> cells[k[m]]]

NoOut == [cells |-> <<>>, parts |-> {}]
Obs(nv, cells) == [cells |-> cells, parts |-> Components(nv, cells)]

\* Curve.create(workspace, vertices=...) : the default segments join all vertices in sequence and are written
Init == /\ n \in NVs
        /\ live = Chain([i \in 1..n |-> i]) /\ stored = live /\ pending = FALSE
        /\ last = [act |-> "Create", arg |-> <<>>, out |-> NoOut]

\* curve.py:157-172  store the labels, drop the cells, workspace.update_attribute(self, "cells") (the writer reads
\* curve.cells, which derives the segments from the labels and writes them)
SetParts == \E lab \in [1..n -> 1..NLabels] :
    /\ live' = CellsFromParts(lab)
    /\ IF Dev("PartsSetterLazyWrite") THEN stored' = stored /\ pending' = TRUE
                                      ELSE stored' = live' /\ pending' = FALSE
    /\ last' = [act |-> "SetParts", arg |-> lab, out |-> NoOut]
    /\ UNCHANGED n
\* cell_object.py:76-107  reads self.cells (flushing a pending derivation), deletes rows, assigns through the setter
RemoveCells == MaxRemove > 0 /\ \E S \in SUBSET (1..Len(live)) :
    /\ S # {} /\ Cardinality(S) <= MaxRemove
    /\ live' = CellsWithout(live, S) /\ stored' = live' /\ pending' = FALSE
    /\ last' = [act |-> "RemoveCells", arg |-> S, out |-> NoOut]
    /\ UNCHANGED n
Flush == stored' = (IF pending THEN live ELSE stored) /\ pending' = FALSE
ReadCells == Flush /\ UNCHANGED <<n, live>> /\ last' = [act |-> "ReadCells", arg |-> <<>>, out |-> Obs(n, live)]
ReadParts == Flush /\ UNCHANGED <<n, live>> /\ last' = [act |-> "ReadParts", arg |-> <<>>, out |-> Obs(n, live)]
\* Workspace.close(); Workspace(path, mode="r+"); get_entity(uid): the live object is rebuilt from the file
Reopen == /\ live' = stored /\ pending' = FALSE /\ UNCHANGED <<n, stored>>
          /\ last' = [act |-> "Reopen", arg |-> <<>>, out |-> Obs(n, stored)]

Next == SetParts \/ RemoveCells \/ ReadCells \/ ReadParts \/ Reopen
Spec == Init /\ [][Next]_vars

\* ---------------------------------------------------------------- properties
StoredFollowsLive == stored = live /\ ~pending
ReopenKeepsTheCurve == [][last'.act = "Reopen" => (live' = live /\ last'.out = Obs(n, live))]_vars
CellSetOf(cells) == {cells[c] : c \in DOMAIN cells}
ConsecutiveSamePart(lab, a, b) == a < b /\ lab[a] = lab[b] /\ ~\E v \in (a + 1)..(b - 1) : lab[v] = lab[a]
StoredSegmentsFollowLabels ==
    [][last'.act = "SetParts" =>
         /\ \A c \in CellSetOf(stored') : ConsecutiveSamePart(last'.arg, c[1], c[2])
         /\ \A a, b \in 1..n : ConsecutiveSamePart(last'.arg, a, b) => <<a, b>> \in CellSetOf(stored')
         /\ Components(n, stored') = {{v \in 1..n : last'.arg[v] = last'.arg[w]} : w \in 1..n}]_vars

\* ---------------------------------------------------------------- export (0-based)
Z(cells) == [c \in DOMAIN cells |-> <<cells[c][1] - 1, cells[c][2] - 1>>]
ZP(P) == {{v - 1 : v \in B} : B \in P}
ExportState == PrintT(<<"ST", TLCFP(vw), TLCFP(<<vw, 1>>),
                        ToJson([n |-> n, live |-> Z(live), stored |-> Z(stored), pending |-> pending,
                                parts |-> ZP(Components(n, live))])>>)
ExportTrans == PrintT(<<"TR", TLCFP(vw), TLCFP(<<vw, 1>>), TLCFP(vw'), TLCFP(<<vw', 1>>),
                        ToJson([act |-> last'.act,
                                arg |-> IF last'.act = "RemoveCells" THEN {i - 1 : i \in last'.arg} ELSE last'.arg,
                                cells |-> Z(last'.out.cells), parts |-> ZP(last'.out.parts)])>>)
=============================================================================
