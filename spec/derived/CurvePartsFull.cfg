SPECIFICATION Spec
CONSTANTS
  MinV = 1
  MaxV = 7
  NLabels = 3
  EditOps = {}
  MaxRemove = 1
  Deviations = {}
INVARIANT JoinConsecutiveSamePartOnly
INVARIANT JoinAllConsecutive
INVARIANT CellCount
INVARIANT PartsAgreeWithConnectivity
INVARIANT RoundTrip
INVARIANT ExportCase
PROPERTY InputsUnchanged
CHECK_DEADLOCK FALSE
