SPECIFICATION Spec
CONSTANTS
  MinV = 2
  MaxV = 5
  NLabels = 3
  EditOps = {"remove_cells", "remove_vertices"}
  MaxRemove = 3
  Deviations = {}
INVARIANT PartsAgreeWithConnectivity
INVARIANT PartsAgreeAfterEdit
INVARIANT EditOnlySplits
INVARIANT ExportEdit
PROPERTY InputsUnchanged
CHECK_DEADLOCK FALSE
