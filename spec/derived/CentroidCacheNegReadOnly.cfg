SPECIFICATION Spec
CONSTANTS
  Kind = "block"
  Scope = 1
  Mode = "r"
  Deviations = {"RefusedWriteKeepsCache"}
VIEW vw
INVARIANT CacheCoherent
INVARIANT CacheCountMatches
PROPERTY ReadIsCurrent
PROPERTY ReadPure

CHECK_DEADLOCK FALSE
