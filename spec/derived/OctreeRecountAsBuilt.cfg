SPECIFICATION Spec
CONSTANTS
  Dims = {1, 2, 4}
  RotIdx = {1}
  StyleIdx = {1}
  Recount = TRUE
  Deviations = {"CountSetterKeepsDefaultCells"}
INVARIANT TilesExactlyOnce
INVARIANT TilesAfterRecount
INVARIANT AcceptedOutcomesTile

PROPERTY InputsUnchanged
CHECK_DEADLOCK FALSE
