-------------------------------- MODULE Rat --------------------------------
(* Exact rationals for the geometry specifications of C17.                                      *)
(* A rational is a pair <<num, den>> with den > 0 and gcd(|num|, den) = 1 (normal form), so     *)
(* equality of rationals is equality of tuples.  All magnitudes used by the C17 specs stay far  *)
(* below 2^31 (denominators are divisors of 2 * 5^2 * 13^2).                                     *)
(* A 3-vector is a triple of rationals.                                                          *)
EXTENDS Integers, Sequences

RAbs(x) == IF x < 0 THEN 0 - x ELSE x

RECURSIVE RGcd(_, _)
RGcd(a, b) == IF b = 0 THEN a ELSE RGcd(b, a % b)          \* a, b >= 0

RNorm(n, d) ==                                               \* d # 0
    LET g == RGcd(RAbs(n), RAbs(d))
        s == IF d < 0 THEN 0 - 1 ELSE 1
    IN  <<(s * n) \div g, (s * d) \div g>>

RInt(n)     == <<n, 1>>
RZero       == <<0, 1>>
\* sums go through the least common denominator and products are cross-reduced first, so that intermediate
\* values stay small (TLC integers are 32-bit; TLC stops with "Overflow" rather than wrapping)
RAdd(a, b)  == LET g == RGcd(a[2], b[2])
               IN  RNorm(a[1] * (b[2] \div g) + b[1] * (a[2] \div g), (a[2] \div g) * b[2])
RNeg(a)     == <<0 - a[1], a[2]>>
RSub(a, b)  == RAdd(a, RNeg(b))
RMul(a, b)  == LET g1 == RGcd(RAbs(a[1]), b[2])
                   g2 == RGcd(RAbs(b[1]), a[2])
               IN  RNorm((a[1] \div g1) * (b[1] \div g2), (a[2] \div g2) * (b[2] \div g1))
RHalf(a)    == RNorm(a[1], 2 * a[2])
RDivInt(a, k) == RNorm(a[1], k * a[2])                       \* k # 0
IsRat(a)    == a[2] > 0 /\ RGcd(RAbs(a[1]), a[2]) = 1

\* ------------------------------------------------------------------ 3-vectors
VZero        == <<RZero, RZero, RZero>>
VInt(x, y, z) == <<RInt(x), RInt(y), RInt(z)>>
VAdd(u, v)   == <<RAdd(u[1], v[1]), RAdd(u[2], v[2]), RAdd(u[3], v[3])>>
VSub(u, v)   == <<RSub(u[1], v[1]), RSub(u[2], v[2]), RSub(u[3], v[3])>>
VScale(k, v) == <<RMul(k, v[1]), RMul(k, v[2]), RMul(k, v[3])>>
VDivInt(v, k) == <<RDivInt(v[1], k), RDivInt(v[2], k), RDivInt(v[3], k)>>
VNorm2(v)    == RAdd(RMul(v[1], v[1]), RAdd(RMul(v[2], v[2]), RMul(v[3], v[3])))

\* rotation by the angle with cosine c and sine s (rationals, c^2 + s^2 = 1)
\* counterclockwise about the vertical (z) axis, seen from above: east turns towards north
RotZ(c, s, v) == <<RSub(RMul(c, v[1]), RMul(s, v[2])), RAdd(RMul(s, v[1]), RMul(c, v[2])), v[3]>>
\* rotation about the first (x / U) axis: north turns towards up
RotX(c, s, v) == <<v[1], RSub(RMul(c, v[2]), RMul(s, v[3])), RAdd(RMul(s, v[2]), RMul(c, v[3]))>>

RECURSIVE VSum(_)
VSum(vs) == IF vs = <<>> THEN VZero ELSE VAdd(Head(vs), VSum(Tail(vs)))

RECURSIVE SeqFlatten(_)
SeqFlatten(ss) == IF ss = <<>> THEN <<>> ELSE Head(ss) \o SeqFlatten(Tail(ss))
=============================================================================
