SPECIFICATION Spec
CONSTANTS
  Kind = "block"
  NMax = 3
  WidthMode = "two"
  Widths = {1, 2}
  Starts = {1}
  Signs = {1, 2}
  RotIdx = {1, 4, 5, 7, 10, 12}
  DipIdx = {1}
  SizeIdx = {1}
  Deviations = {}
INVARIANT CountMatches
INVARIANT PairwiseDistinct
INVARIANT BlockIndexFormula
INVARIANT UAxisCounterclockwise
INVARIANT RigidMotion
INVARIANT ExportCase
PROPERTY InputsUnchanged
CHECK_DEADLOCK FALSE
