SPECIFICATION Spec
CONSTANTS
  Kind = "grid2d"
  NMax = 3
  WidthMode = "one"
  Widths = {1}
  Starts = {1}
  Signs = {1}
  RotIdx = {1, 2, 6, 11}
  DipIdx = {1, 2, 5, 8}
  SizeIdx = {1, 2, 3}
  Deviations = {}
INVARIANT CountMatches
INVARIANT PairwiseDistinct
INVARIANT GridIndexFormula
INVARIANT UAxisCounterclockwise
INVARIANT VerticalMeansVUp
INVARIANT RigidMotion
INVARIANT ExportCase
PROPERTY InputsUnchanged
CHECK_DEADLOCK FALSE
