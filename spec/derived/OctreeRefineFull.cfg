SPECIFICATION Spec
CONSTANTS
  Dims = {1, 2, 4, 8, 16}
  RotIdx = {1, 2, 7, 12}
  StyleIdx = {1, 2, 3}
  Recount = FALSE
  Deviations = {}
INVARIANT TilesExactlyOnce
INVARIANT InsideBase
INVARIANT SingleCellAlongShortest
INVARIANT CountMatches
INVARIANT PairwiseDistinct
INVARIANT ExportCase
PROPERTY InputsUnchanged
CHECK_DEADLOCK FALSE
