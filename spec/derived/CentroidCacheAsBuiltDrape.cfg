SPECIFICATION Spec
CONSTANTS
  Kind = "drape"
  Scope = 1
  Mode = "rw"
  Deviations = {"DrapeSettersKeepCache"}
VIEW vw
INVARIANT CacheCoherent
INVARIANT CacheCountMatches
PROPERTY ReadIsCurrent
PROPERTY ReadPure
CHECK_DEADLOCK FALSE
