SPECIFICATION Spec
CONSTANTS
  Kind = "octree"
  NMax = 1
  WidthMode = "one"
  Widths = {1}
  Starts = {1}
  Signs = {1}
  RotIdx = {1, 2, 6, 11}
  DipIdx = {1}
  SizeIdx = {1, 2, 3}
  Deviations = {}
INVARIANT CountMatches
INVARIANT PairwiseDistinct
INVARIANT OctreeCentreOfCorners
INVARIANT UAxisCounterclockwise
INVARIANT ExportCase
PROPERTY InputsUnchanged
CHECK_DEADLOCK FALSE
