SPECIFICATION Spec
CONSTANTS
  Dims = {1, 2, 4, 8}
  RotIdx = {1}
  StyleIdx = {1}
  Recount = TRUE
  Deviations = {}
INVARIANT TilesExactlyOnce
INVARIANT TilesAfterRecount
INVARIANT AcceptedOutcomesTile
INVARIANT ExportRecount
PROPERTY InputsUnchanged
CHECK_DEADLOCK FALSE
