SPECIFICATION Spec
CONSTANTS
  Kind = "octree"
  NMax = 1
  WidthMode = "one"
  Widths = {1}
  Starts = {1}
  Signs = {1}
  RotIdx = {1, 2, 3, 4, 5, 6, 7, 8, 9, 10, 11, 12}
  DipIdx = {1}
  SizeIdx = {1, 2, 3, 4, 5}
  Deviations = {}
INVARIANT CountMatches
INVARIANT PairwiseDistinct
INVARIANT OctreeCentreOfCorners
INVARIANT UAxisCounterclockwise
INVARIANT ExportCase
PROPERTY InputsUnchanged
CHECK_DEADLOCK FALSE
