----------------------------- MODULE OctreeRefine -----------------------------
(* C17 - the default octree (no "Octree Cells" given) tiles the base grid exactly once and has  *)
(* as many centres as cells, with or without an explicit origin.  Function style: Init chooses  *)
(* the base dimensions (powers of two), Compute evaluates BaseRefine as octree.py defines it    *)
(* and the centres of its records (GridGeom.tla).  Pure integers for the tiling invariant.       *)
EXTENDS GridGeom, FiniteSets, TLC, Json

CONSTANTS
    Dims,        \* allowed NU / NV / NW, e.g. {1, 2, 4, 8}
    RotIdx,      \* indices into AngleTab
    StyleIdx,    \* indices into SizeStyles (base cell sizes)
    Recount,     \* TRUE : second phase, one base dimension is changed after the default cells exist
    Deviations   \* {} ; "DefaultOriginRaises" (as built before d160c9f) ; "OneStepPerAxis" (negative control) ;
                 \* "CountSetterKeepsDefaultCells" (AS BUILT, octree.py u/v/w_count setters): the new dimension is
                 \* stored, the default cells derived for the old dimensions stay

(* Second phase (Recount): the property speaks of "a default octree tiling the base grid exactly once".  The default *)
(* cells are materialised when the object is created; u_count / v_count / w_count can be assigned afterwards.        *)
(* Two outcomes keep the statement true - the assignment is refused (dimensions and cells unchanged) or the default   *)
(* cells are derived again for the new dimensions; rc.ok lists both.  Keeping the old cells next to the new           *)
(* dimensions (the named deviation) leaves an octree whose cells do not tile its base grid.                           *)
VARIABLES inp, out, rc
vars == <<inp, out, rc>>
Dev(d) == d \in Deviations

SizeStyles == << <<1, 1, 1>>, <<2, 1, 3>>, <<4, 5, 2>> >>      \* indices into SizeTab for (U, V, W)
ExplicitOrigin == VInt(7, -11, 3)
OriginOf(c) == IF c.hasO THEN ExplicitOrigin ELSE VZero

\* ---------------------------------------------------------------- BaseRefine, octree.py:69-115
RECURSIVE Log2(_)
Log2(n) == IF n <= 1 THEN 0 ELSE 1 + Log2(n \div 2)
RECURSIVE Pow2(_)
Pow2(k) == IF k = 0 THEN 1 ELSE 2 * Pow2(k - 1)
Min2(a, b) == IF a < b THEN a ELSE b
Arange(n, step) == [m \in 1..(n \div step) |-> (m - 1) * step]        \* np.arange(0, n, step), step divides n

BaseRefine(nU, nV, nW) ==
    LET levelU == Log2(nU)  levelV == Log2(nV)  levelW == Log2(nW)       \* octree.py:83-85
        minLevel == Min2(levelU, Min2(levelV, levelW))                     \* :87
        level == Min2(0, minLevel)                                         \* :90
        addU == levelU - minLevel  addV == levelV - minLevel  addW == levelW - minLevel   \* :93-95
        ir == IF Dev("OneStepPerAxis") THEN Arange(nU, Pow2(levelU)) ELSE Arange(nU, Pow2(levelU - addU - level))  \* :97-101
        jr == IF Dev("OneStepPerAxis") THEN Arange(nV, Pow2(levelV)) ELSE Arange(nV, Pow2(levelV - addV - level))
        kr == IF Dev("OneStepPerAxis") THEN Arange(nW, Pow2(levelW)) ELSE Arange(nW, Pow2(levelW - addW - level))
        size == Pow2(minLevel - level)                                     \* :107
    \* np.meshgrid(j, k, i) has shape (len k, len j, len i); flatten runs i fastest       :97-108
    IN  SeqFlatten([kk \in 1..Len(kr) |-> SeqFlatten([jj \in 1..Len(jr) |->
            [ii \in 1..Len(ir) |-> <<ir[ii], jr[jj], kr[kk], size>>]])])

Sz(c, ax) == Size(SizeStyles[c.style][ax])
Centres(c, cells) == OctCentroids(cells, Sz(c, 1), Sz(c, 2), Sz(c, 3), OriginOf(c), c.rot)

Raises(c) == Dev("DefaultOriginRaises") /\ ~c.hasO      \* octree.py:58 / :161-162
Result(c) == LET cells == BaseRefine(c.nu, c.nv, c.nw) IN
             [err |-> IF Raises(c) THEN "IndexError" ELSE "none", cells |-> cells,
              cent |-> IF Raises(c) THEN <<>> ELSE Centres(c, cells)]
NoOut == [err |-> "pending", cells |-> <<>>, cent |-> <<>>]
NoRc == [done |-> FALSE, axis |-> "none", value |-> 0, dims |-> <<0, 0, 0>>, cells |-> <<>>, ok |-> {}]

Init == inp \in [nu : Dims, nv : Dims, nw : Dims, hasO : BOOLEAN, rot : RotIdx, style : StyleIdx] /\ out = NoOut /\ rc = NoRc
Compute == out.err = "pending" /\ out' = Result(inp) /\ UNCHANGED <<inp, rc>>

DimsOf(c) == <<c.nu, c.nv, c.nw>>
AxisNo == [u_count |-> 1, v_count |-> 2, w_count |-> 3]
SetCount == Recount /\ out.err # "pending" /\ ~rc.done /\ UNCHANGED <<inp, out>> /\
    \E ax \in {"u_count", "v_count", "w_count"}, k \in Dims :
        LET old == DimsOf(inp)
            new == [old EXCEPT ![AxisNo[ax]] = k]
            rerefined == [dims |-> new, cells |-> BaseRefine(new[1], new[2], new[3])]
            refused == [dims |-> old, cells |-> out.cells]
            chosen == IF Dev("CountSetterKeepsDefaultCells") THEN [dims |-> new, cells |-> out.cells] ELSE rerefined
        IN  /\ k # old[AxisNo[ax]]
            /\ rc' = [done |-> TRUE, axis |-> ax, value |-> k, dims |-> chosen.dims, cells |-> chosen.cells,
                      ok |-> {rerefined, refused}]
Next == Compute \/ SetCount
Spec == Init /\ [][Next]_vars

\* ---------------------------------------------------------------- properties
Done == out.err # "pending"
Covers(rec, x, y, z) == /\ rec[1] <= x /\ x < rec[1] + rec[4]
                        /\ rec[2] <= y /\ y < rec[2] + rec[4]
                        /\ rec[3] <= z /\ z < rec[3] + rec[4]
\* every base cell lies in exactly one octree cell
TilesExactlyOnce ==
    Done => \A x \in 0..(inp.nu - 1), y \in 0..(inp.nv - 1), z \in 0..(inp.nw - 1) :
                Cardinality({r \in 1..Len(out.cells) : Covers(out.cells[r], x, y, z)}) = 1
\* no octree cell sticks out of the base grid, sizes are powers of two
InsideBase ==
    Done => \A r \in 1..Len(out.cells) :
                LET c == out.cells[r] IN
                /\ c[1] >= 0 /\ c[2] >= 0 /\ c[3] >= 0 /\ c[4] >= 1 /\ Pow2(Log2(c[4])) = c[4]
                /\ c[1] + c[4] <= inp.nu /\ c[2] + c[4] <= inp.nv /\ c[3] + c[4] <= inp.nw
\* "a single cell along the shortest dimension" (docstring of base_refine)
SingleCellAlongShortest ==
    Done => \A r \in 1..Len(out.cells) : out.cells[r][4] = Min2(inp.nu, Min2(inp.nv, inp.nw))
\* as many centres as cells, whether or not an origin was given; centres pairwise distinct
CountMatches == Done => out.err = "none" /\ Len(out.cent) = Len(out.cells)
PairwiseDistinct == Done => \A a, b \in 1..Len(out.cent) : a # b => out.cent[a] # out.cent[b]
\* after a change of a base dimension the cells still tile the (current) base grid exactly once
TilesAfterRecount ==
    rc.done => /\ \A x \in 0..(rc.dims[1] - 1), y \in 0..(rc.dims[2] - 1), z \in 0..(rc.dims[3] - 1) :
                      Cardinality({r \in 1..Len(rc.cells) : Covers(rc.cells[r], x, y, z)}) = 1
               /\ \A r \in 1..Len(rc.cells) : LET c == rc.cells[r] IN
                      c[1] + c[4] <= rc.dims[1] /\ c[2] + c[4] <= rc.dims[2] /\ c[3] + c[4] <= rc.dims[3]
\* both outcomes the harness accepts satisfy the statement
AcceptedOutcomesTile ==
    rc.done => \A o \in rc.ok :
        \A x \in 0..(o.dims[1] - 1), y \in 0..(o.dims[2] - 1), z \in 0..(o.dims[3] - 1) :
            Cardinality({r \in 1..Len(o.cells) : Covers(o.cells[r], x, y, z)}) = 1
InputsUnchanged == [][inp' = inp]_vars
ExportRecount == rc.done =>
    PrintT(<<"CASE", ToJson([inp |-> inp, origin |-> OriginOf(inp), sizes |-> <<Sz(inp, 1), Sz(inp, 2), Sz(inp, 3)>>,
                             cells |-> out.cells, axis |-> rc.axis, value |-> rc.value, ok |-> rc.ok,
                             asbuilt |-> [dims |-> [DimsOf(inp) EXCEPT ![AxisNo[rc.axis]] = rc.value], cells |-> out.cells]])>>)

ExportCase == Done => PrintT(<<"CASE", ToJson([inp |-> inp, out |-> out, origin |-> OriginOf(inp),
                                               rot |-> <<Cos(inp.rot), Sin(inp.rot)>>,
                                               sizes |-> <<Sz(inp, 1), Sz(inp, 2), Sz(inp, 3)>>,
                                               asbuilt |-> IF inp.hasO THEN "same" ELSE "IndexError"])>>)
=============================================================================
