----------------------------- MODULE OctreeRefine -----------------------------
(* C17 - the default octree (no "Octree Cells" given) tiles the base grid exactly once and has  *)
(* as many centres as cells, with or without an explicit origin.  Function style: Init chooses  *)
(* the base dimensions (powers of two), Compute evaluates BaseRefine as octree.py defines it    *)
(* and the centres of its records (GridGeom.tla).  Pure integers for the tiling invariant.       *)
EXTENDS GridGeom, FiniteSets, TLC, Json

CONSTANTS
    Dims,        \* allowed NU / NV / NW, e.g. {1, 2, 4, 8}
    RotIdx,      \* indices into AngleTab
    StyleIdx,    \* indices into SizeStyles (base cell sizes)
    Deviations   \* {} ; "DefaultOriginRaises" (as built) ; "OneStepPerAxis" (negative control)

VARIABLES inp, out
vars == <<inp, out>>
Dev(d) == d \in Deviations

SizeStyles == << <<1, 1, 1>>, <<2, 1, 3>>, <<4, 5, 2>> >>      \* indices into SizeTab for (U, V, W)
ExplicitOrigin == VInt(7, -11, 3)
OriginOf(c) == IF c.hasO THEN ExplicitOrigin ELSE VZero

\* ---------------------------------------------------------------- BaseRefine, octree.py:69-115
RECURSIVE Log2(_)
Log2(n) == IF n <= 1 THEN 0 ELSE 1 + Log2(n \div 2)
RECURSIVE Pow2(_)
Pow2(k) == IF k = 0 THEN 1 ELSE 2 * Pow2(k - 1)
Min2(a, b) == IF a < b THEN a ELSE b
Arange(n, step) == [m \in 1..(n \div step) |-> (m - 1) * step]        \* np.arange(0, n, step), step divides n

BaseRefine(nU, nV, nW) ==
    LET levelU == Log2(nU)  levelV == Log2(nV)  levelW == Log2(nW)       \* octree.py:83-85
        minLevel == Min2(levelU, Min2(levelV, levelW))                     \* :87
        level == Min2(0, minLevel)                                         \* :90
        addU == levelU - minLevel  addV == levelV - minLevel  addW == levelW - minLevel   \* :93-95
        ir == IF Dev("OneStepPerAxis") THEN Arange(nU, Pow2(levelU)) ELSE Arange(nU, Pow2(levelU - addU - level))  \* :97-101
        jr == IF Dev("OneStepPerAxis") THEN Arange(nV, Pow2(levelV)) ELSE Arange(nV, Pow2(levelV - addV - level))
        kr == IF Dev("OneStepPerAxis") THEN Arange(nW, Pow2(levelW)) ELSE Arange(nW, Pow2(levelW - addW - level))
        size == Pow2(minLevel - level)                                     \* :107
    \* np.meshgrid(j, k, i) has shape (len k, len j, len i); flatten runs i fastest       :97-108
    IN  SeqFlatten([kk \in 1..Len(kr) |-> SeqFlatten([jj \in 1..Len(jr) |->
            [ii \in 1..Len(ir) |-> <<ir[ii], jr[jj], kr[kk], size>>]])])

Sz(c, ax) == Size(SizeStyles[c.style][ax])
Centres(c, cells) == OctCentroids(cells, Sz(c, 1), Sz(c, 2), Sz(c, 3), OriginOf(c), c.rot)

Raises(c) == Dev("DefaultOriginRaises") /\ ~c.hasO      \* octree.py:58 / :161-162
Result(c) == LET cells == BaseRefine(c.nu, c.nv, c.nw) IN
             [err |-> IF Raises(c) THEN "IndexError" ELSE "none", cells |-> cells,
              cent |-> IF Raises(c) THEN <<>> ELSE Centres(c, cells)]
NoOut == [err |-> "pending", cells |-> <<>>, cent |-> <<>>]

Init == inp \in [nu : Dims, nv : Dims, nw : Dims, hasO : BOOLEAN, rot : RotIdx, style : StyleIdx] /\ out = NoOut
Compute == out.err = "pending" /\ out' = Result(inp) /\ UNCHANGED inp
Next == Compute
Spec == Init /\ [][Next]_vars

\* ---------------------------------------------------------------- properties
Done == out.err # "pending"
Covers(rec, x, y, z) == /\ rec[1] <= x /\ x < rec[1] + rec[4]
                        /\ rec[2] <= y /\ y < rec[2] + rec[4]
                        /\ rec[3] <= z /\ z < rec[3] + rec[4]
\* every base cell lies in exactly one octree cell
TilesExactlyOnce ==
    Done => \A x \in 0..(inp.nu - 1), y \in 0..(inp.nv - 1), z \in 0..(inp.nw - 1) :
                Cardinality({r \in 1..Len(out.cells) : Covers(out.cells[r], x, y, z)}) = 1
\* no octree cell sticks out of the base grid, sizes are powers of two
InsideBase ==
    Done => \A r \in 1..Len(out.cells) :
                LET c == out.cells[r] IN
                /\ c[1] >= 0 /\ c[2] >= 0 /\ c[3] >= 0 /\ c[4] >= 1 /\ Pow2(Log2(c[4])) = c[4]
                /\ c[1] + c[4] <= inp.nu /\ c[2] + c[4] <= inp.nv /\ c[3] + c[4] <= inp.nw
\* "a single cell along the shortest dimension" (docstring of base_refine)
SingleCellAlongShortest ==
    Done => \A r \in 1..Len(out.cells) : out.cells[r][4] = Min2(inp.nu, Min2(inp.nv, inp.nw))
\* as many centres as cells, whether or not an origin was given; centres pairwise distinct
CountMatches == Done => out.err = "none" /\ Len(out.cent) = Len(out.cells)
PairwiseDistinct == Done => \A a, b \in 1..Len(out.cent) : a # b => out.cent[a] # out.cent[b]
InputsUnchanged == [][inp' = inp]_vars

ExportCase == Done => PrintT(<<"CASE", ToJson([inp |-> inp, out |-> out, origin |-> OriginOf(inp),
                                               rot |-> <<Cos(inp.rot), Sin(inp.rot)>>,
                                               sizes |-> <<Sz(inp, 1), Sz(inp, 2), Sz(inp, 3)>>,
                                               asbuilt |-> IF inp.hasO THEN "same" ELSE "IndexError"])>>)
=============================================================================
