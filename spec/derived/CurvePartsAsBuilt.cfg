SPECIFICATION Spec
CONSTANTS
  MinV = 1
  MaxV = 4
  NLabels = 2
  EditOps = {}
  MaxRemove = 1
  Deviations = {"ScanLeavesIsolatedInPartZero"}
INVARIANT JoinConsecutiveSamePartOnly
INVARIANT JoinAllConsecutive
INVARIANT CellCount
INVARIANT PartsAgreeWithConnectivity
INVARIANT RoundTrip

PROPERTY InputsUnchanged
CHECK_DEADLOCK FALSE
