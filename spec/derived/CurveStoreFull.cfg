SPECIFICATION Spec
CONSTANTS
  NVs = {3, 4, 5}
  NLabels = 2
  MaxRemove = 2
  Deviations = {}
VIEW vw
INVARIANT StoredFollowsLive
PROPERTY ReopenKeepsTheCurve
PROPERTY StoredSegmentsFollowLabels
INVARIANT ExportState
ACTION_CONSTRAINT ExportTrans
CHECK_DEADLOCK FALSE
