SPECIFICATION Spec
CONSTANTS
  Kind = "drape"
  Scope = 1
  Mode = "r"
  Deviations = {}
VIEW vw
INVARIANT CacheCoherent
INVARIANT CacheCountMatches
PROPERTY ReadIsCurrent
PROPERTY ReadPure
INVARIANT ExportState
ACTION_CONSTRAINT ExportTrans
CHECK_DEADLOCK FALSE
