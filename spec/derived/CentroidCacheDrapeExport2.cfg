SPECIFICATION Spec
CONSTANTS
  Kind = "drape"
  Scope = 2
  Mode = "rw"
  Deviations = {"DefaultOriginRaises", "DrapeSettersKeepCache"}
VIEW vw
INVARIANT ExportState
ACTION_CONSTRAINT ExportTrans
CHECK_DEADLOCK FALSE
