SPECIFICATION Spec
CONSTANTS
  Kind = "octree"
  Scope = 1
  Mode = "rw"
  Deviations = {}
VIEW vw
INVARIANT CacheCoherent
INVARIANT CacheCountMatches
PROPERTY ReadIsCurrent
PROPERTY ReadPure
CHECK_DEADLOCK FALSE
