SPECIFICATION Spec
CONSTANTS
  MinV = 2
  MaxV = 4
  NLabels = 3
  EditOps = {"remove_cells", "remove_vertices"}
  MaxRemove = 1
  Deviations = {"EditKeepsParts"}
INVARIANT PartsAgreeWithConnectivity
INVARIANT PartsAgreeAfterEdit
INVARIANT EditOnlySplits

PROPERTY InputsUnchanged
CHECK_DEADLOCK FALSE
