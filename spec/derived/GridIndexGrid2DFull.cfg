SPECIFICATION Spec
CONSTANTS
  Kind = "grid2d"
  NMax = 3
  WidthMode = "one"
  Widths = {1}
  Starts = {1}
  Signs = {1}
  RotIdx = {1, 2, 3, 4, 5, 6, 7, 8, 9, 10, 11, 12}
  DipIdx = {1, 2, 4, 5, 8, 11}
  SizeIdx = {1, 3, 4, 5}
  Deviations = {}
INVARIANT CountMatches
INVARIANT PairwiseDistinct
INVARIANT GridIndexFormula
INVARIANT UAxisCounterclockwise
INVARIANT VerticalMeansVUp
INVARIANT RigidMotion
INVARIANT ExportCase
PROPERTY InputsUnchanged
CHECK_DEADLOCK FALSE
