SPECIFICATION Spec
CONSTANTS
  MinV = 2
  MaxV = 4
  NLabels = 2
  EditOps = {}
  MaxRemove = 1
  Deviations = {"ChainAllVertices"}
INVARIANT JoinConsecutiveSamePartOnly
INVARIANT JoinAllConsecutive
INVARIANT CellCount
INVARIANT PartsAgreeWithConnectivity
INVARIANT RoundTrip

PROPERTY InputsUnchanged
CHECK_DEADLOCK FALSE
