SPECIFICATION Spec
CONSTANTS
  Kind = "grid2d"
  NMax = 2
  WidthMode = "one"
  Widths = {1}
  Starts = {1}
  Signs = {1}
  RotIdx = {1, 2, 6}
  DipIdx = {1, 5}
  SizeIdx = {1, 2}
  Deviations = {"Clockwise"}
INVARIANT UAxisCounterclockwise
PROPERTY InputsUnchanged
CHECK_DEADLOCK FALSE
