------------------------------ MODULE CurveParts ------------------------------
(* C17 - Curve segments derived from part labels, part labels derived from segments.            *)
(* Function style: Init chooses a labeling of 1..n vertices (n <= MaxV, labels 1..NLabels),     *)
(* Compute derives the cells the way Curve.cells does (curve.py:58-64) and the parts of those   *)
(* cells (ideal: connected components; named deviation: the sequential scan of                  *)
(* curve.py:150-162).  Vertices are 1-based here and exported 0-based.                          *)
EXTENDS Integers, Sequences, FiniteSets, TLC, Json

CONSTANTS MinV, MaxV, NLabels,
          Deviations   \* {} ; "ScanLeavesIsolatedInPartZero" (as built) ; "ChainAllVertices" (negative control)

VARIABLES inp, out
vars == <<inp, out>>
Dev(d) == d \in Deviations

RECURSIVE SeqFlatten(_)
SeqFlatten(ss) == IF ss = <<>> THEN <<>> ELSE Head(ss) \o SeqFlatten(Tail(ss))

\* ---------------------------------------------------------------- cells from parts, curve.py:58-64
\* for part_id in unique_parts (sorted): ind = np.where(parts == part_id); cells += zip(ind[:-1], ind[1:])
Positions(lab, p) == SelectSeq([i \in 1..Len(lab) |-> i], LAMBDA i : lab[i] = p)
Chain(ind) == [m \in 1..(Len(ind) - 1) |-> <<ind[m], ind[m + 1]>>]
CellsFromParts(lab) ==
    IF Dev("ChainAllVertices") THEN Chain([i \in 1..Len(lab) |-> i])
    ELSE SeqFlatten([p \in 1..NLabels |-> Chain(Positions(lab, p))])

\* ---------------------------------------------------------------- parts from cells
\* ideal: two vertices carry the same label iff a chain of segments connects them
Edges(cells) == {cells[c] : c \in DOMAIN cells} \cup {<<cells[c][2], cells[c][1]>> : c \in DOMAIN cells}
RECURSIVE Reach(_, _)
Reach(S, E) == LET N == S \cup {e[2] : e \in {f \in E : f[1] \in S}} IN IF N = S THEN S ELSE Reach(N, E)
Components(n, cells) == {Reach({v}, Edges(cells)) : v \in 1..n}

\* as built, curve.py:150-162: parts = zeros(n); count = 0; for ind in 1..len(cells)-1:
\*     if cells[ind, 0] != cells[ind-1, 1]: count += 1 ; parts[cells[ind, :]] = count
\* vertices that lie on no segment keep the label 0 of the first chain
RECURSIVE ScanFrom(_, _, _, _)
ScanFrom(cells, ind, count, parts) ==
    IF ind > Len(cells) THEN parts
    ELSE LET c2 == IF cells[ind][1] # cells[ind - 1][2] THEN count + 1 ELSE count
         IN  ScanFrom(cells, ind + 1, c2, [parts EXCEPT ![cells[ind][1]] = c2, ![cells[ind][2]] = c2])
ScanParts(n, cells) == ScanFrom(cells, 2, 0, [v \in 1..n |-> 0])
PartitionOf(f) == {{v \in DOMAIN f : f[v] = f[w]} : w \in DOMAIN f}

PartsFromCells(n, cells) ==
    IF Dev("ScanLeavesIsolatedInPartZero") THEN PartitionOf(ScanParts(n, cells)) ELSE Components(n, cells)

\* ---------------------------------------------------------------- behaviour
Labelings == UNION {[1..n -> 1..NLabels] : n \in MinV..MaxV}
NoOut == [done |-> FALSE, cells |-> <<>>, parts |-> {}]
Init == inp \in Labelings /\ out = NoOut
Compute == ~out.done /\ UNCHANGED inp
           /\ out' = LET cells == CellsFromParts(inp) IN
                     [done |-> TRUE, cells |-> cells, parts |-> PartsFromCells(Len(inp), cells)]
Next == Compute
Spec == Init /\ [][Next]_vars

\* ---------------------------------------------------------------- properties (C17)
N == Len(inp)
CellSet == {out.cells[c] : c \in DOMAIN out.cells}
ConsecutiveSamePart(a, b) == a < b /\ inp[a] = inp[b] /\ ~\E v \in (a + 1)..(b - 1) : inp[v] = inp[a]
\* segments join consecutive vertices of the same part only ...
JoinConsecutiveSamePartOnly == out.done => \A c \in CellSet : ConsecutiveSamePart(c[1], c[2])
\* ... every such pair is joined, once
JoinAllConsecutive == out.done => /\ \A a, b \in 1..N : ConsecutiveSamePart(a, b) => <<a, b>> \in CellSet
                                  /\ Cardinality(CellSet) = Len(out.cells)
CellCount == out.done => Len(out.cells) = N - Cardinality({inp[v] : v \in 1..N})
\* part labels derived from segments agree with connectivity
PartsAgreeWithConnectivity == out.done => out.parts = Components(N, out.cells)
\* and the round trip labels -> segments -> components gives the labeling back (as a partition)
RoundTrip == out.done => Components(N, out.cells) = PartitionOf(inp)
InputsUnchanged == [][inp' = inp]_vars

\* ---------------------------------------------------------------- export (0-based vertices)
ZeroBased(S) == {v - 1 : v \in S}
ExportCase == out.done =>
    PrintT(<<"CASE", ToJson([labels |-> inp,
                             cells |-> [c \in DOMAIN out.cells |-> <<out.cells[c][1] - 1, out.cells[c][2] - 1>>],
                             parts |-> {ZeroBased(B) : B \in out.parts},
                             asbuilt |-> {ZeroBased(B) : B \in PartitionOf(ScanParts(N, out.cells))}])>>)
=============================================================================
