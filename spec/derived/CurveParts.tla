------------------------------ MODULE CurveParts ------------------------------
(* C17 - Curve segments derived from part labels, part labels derived from segments.            *)
(* Function style: Init chooses a labeling of 1..n vertices (n <= MaxV, labels 1..NLabels),     *)
(* Compute derives the cells the way Curve.cells does (curve.py:58-64) and the parts of those   *)
(* cells (ideal: connected components; named deviation: the sequential scan of                  *)
(* curve.py:150-162).  Vertices are 1-based here and exported 0-based.                          *)
EXTENDS Integers, Sequences, FiniteSets, TLC, Json

CONSTANTS MinV, MaxV, NLabels,
          EditOps,     \* {} : no second phase ; subset of {"remove_cells", "remove_vertices"} : one edit after Compute
          MaxRemove,   \* an edit removes 1..MaxRemove cells / vertices
          Deviations   \* {} ; "ScanLeavesIsolatedInPartZero" (as built before 8dd460c) ;
                       \* "ChainAllVertices" (negative control; also what the code AS BUILT does when the labels are
                       \*  passed before the vertices) ; "EditKeepsParts" (the labels read before an edit survive it)

(* History half for curves: parts derived from segments must agree with connectivity after EVERY change of the    *)
(* geometry.  After Compute (create with parts, read cells, read parts - the labels are now cached in            *)
(* Curve._parts, curve.py:137-151) one Edit removes a set of cells (CellObject.remove_cells, cell_object.py:76-107)*)
(* or of vertices (remove_vertices, :109-150: cells touching a removed vertex go, the others are renumbered);      *)
(* ed holds the geometry and the parts after the edit.                                                             *)
VARIABLES inp, out, ed
vars == <<inp, out, ed>>
Dev(d) == d \in Deviations

RECURSIVE SeqFlatten(_)
SeqFlatten(ss) == IF ss = <<>> THEN <<>> ELSE Head(ss) \o SeqFlatten(Tail(ss))

\* ---------------------------------------------------------------- cells from parts, curve.py:58-64
\* for part_id in unique_parts (sorted): ind = np.where(parts == part_id); cells += zip(ind[:-1], ind[1:])
Positions(lab, p) == SelectSeq([i \in 1..Len(lab) |-> i], LAMBDA i : lab[i] = p)
Chain(ind) == [m \in 1..(Len(ind) - 1) |-> <<ind[m], ind[m + 1]>>]
CellsFromParts(lab) ==
    IF Dev("ChainAllVertices") THEN Chain([i \in 1..Len(lab) |-> i])
    ELSE SeqFlatten([p \in 1..NLabels |-> Chain(Positions(lab, p))])

\* ---------------------------------------------------------------- parts from cells
\* ideal: two vertices carry the same label iff a chain of segments connects them
Edges(cells) == {cells[c] : c \in DOMAIN cells} \cup {<<cells[c][2], cells[c][1]>> : c \in DOMAIN cells}
RECURSIVE Reach(_, _)
Reach(S, E) == LET N == S \cup {e[2] : e \in {f \in E : f[1] \in S}} IN IF N = S THEN S ELSE Reach(N, E)
Components(n, cells) == {Reach({v}, Edges(cells)) : v \in 1..n}

\* as built, curve.py:150-162: parts = zeros(n); count = 0; for ind in 1..len(cells)-1:
\*     if cells[ind, 0] != cells[ind-1, 1]: count += 1 ; parts[cells[ind, :]] = count
\* vertices that lie on no segment keep the label 0 of the first chain
RECURSIVE ScanFrom(_, _, _, _)
ScanFrom(cells, ind, count, parts) ==
    IF ind > Len(cells) THEN parts
    ELSE LET c2 == IF cells[ind][1] # cells[ind - 1][2] THEN count + 1 ELSE count
         IN  ScanFrom(cells, ind + 1, c2, [parts EXCEPT ![cells[ind][1]] = c2, ![cells[ind][2]] = c2])
ScanParts(n, cells) == ScanFrom(cells, 2, 0, [v \in 1..n |-> 0])
PartitionOf(f) == {{v \in DOMAIN f : f[v] = f[w]} : w \in DOMAIN f}

PartsFromCells(n, cells) ==
    IF Dev("ScanLeavesIsolatedInPartZero") THEN PartitionOf(ScanParts(n, cells)) ELSE Components(n, cells)

\* ---------------------------------------------------------------- behaviour
Labelings == UNION {[1..n -> 1..NLabels] : n \in MinV..MaxV}
NoOut == [done |-> FALSE, cells |-> <<>>, parts |-> {}]
NoEdit == [done |-> FALSE, op |-> "none", idx |-> {}, n |-> 0, cells |-> <<>>, parts |-> {}]
Init == inp \in Labelings /\ out = NoOut /\ ed = NoEdit
Compute == ~out.done /\ UNCHANGED <<inp, ed>>
           /\ out' = LET cells == CellsFromParts(inp) IN
                     [done |-> TRUE, cells |-> cells, parts |-> PartsFromCells(Len(inp), cells)]

\* ---------------------------------------------------------------- one edit of the geometry
SmallSubsets(S) == {T \in SUBSET S : T # {} /\ Cardinality(T) <= MaxRemove}
KeepSeq(seq, drop) == SelectSeq([i \in 1..Len(seq) |-> i], LAMBDA i : i \notin drop)     \* indices kept, in order
\* cell_object.py:103-105  cells = np.delete(self.cells, indices, axis=0)
CellsWithout(cells, S) == LET k == KeepSeq(cells, S) IN [m \in 1..Len(k) |-> cells[k[m]]]
\* cell_object.py:133-150  vertices kept in order and renumbered; cells with a removed end are removed
NewIndex(n, S, v) == Cardinality({w \in 1..v : w \notin S})
CellsAfterVertices(n, cells, S) ==
    LET touched == {c \in 1..Len(cells) : cells[c][1] \in S \/ cells[c][2] \in S}
        rest == CellsWithout(cells, touched)
    IN  [m \in 1..Len(rest) |-> <<NewIndex(n, S, rest[m][1]), NewIndex(n, S, rest[m][2])>>]
EditResult(op, S, n2, cells2) ==
    [done |-> TRUE, op |-> op, idx |-> S, n |-> n2, cells |-> cells2,
     parts |-> IF Dev("EditKeepsParts") /\ n2 = Len(inp) THEN out.parts ELSE PartsFromCells(n2, cells2)]
RemoveCells == "remove_cells" \in EditOps /\ \E S \in SmallSubsets(1..Len(out.cells)) :
    ed' = EditResult("remove_cells", S, Len(inp), CellsWithout(out.cells, S))
RemoveVertices == "remove_vertices" \in EditOps /\ \E S \in SmallSubsets(1..Len(inp)) :
    /\ Cardinality(S) < Len(inp)                         \* at least one vertex stays
    /\ ed' = EditResult("remove_vertices", S, Len(inp) - Cardinality(S), CellsAfterVertices(Len(inp), out.cells, S))
Edit == out.done /\ ~ed.done /\ UNCHANGED <<inp, out>> /\ (RemoveCells \/ RemoveVertices)

Next == Compute \/ Edit
Spec == Init /\ [][Next]_vars

\* ---------------------------------------------------------------- properties (C17)
N == Len(inp)
CellSet == {out.cells[c] : c \in DOMAIN out.cells}
ConsecutiveSamePart(a, b) == a < b /\ inp[a] = inp[b] /\ ~\E v \in (a + 1)..(b - 1) : inp[v] = inp[a]
\* segments join consecutive vertices of the same part only ...
JoinConsecutiveSamePartOnly == out.done => \A c \in CellSet : ConsecutiveSamePart(c[1], c[2])
\* ... every such pair is joined, once
JoinAllConsecutive == out.done => /\ \A a, b \in 1..N : ConsecutiveSamePart(a, b) => <<a, b>> \in CellSet
                                  /\ Cardinality(CellSet) = Len(out.cells)
CellCount == out.done => Len(out.cells) = N - Cardinality({inp[v] : v \in 1..N})
\* part labels derived from segments agree with connectivity
PartsAgreeWithConnectivity == out.done => out.parts = Components(N, out.cells)
\* and the round trip labels -> segments -> components gives the labeling back (as a partition)
RoundTrip == out.done => Components(N, out.cells) = PartitionOf(inp)
\* after an edit the labels again agree with the connectivity of the segments that are left
PartsAgreeAfterEdit == ed.done => ed.parts = Components(ed.n, ed.cells)
\* removing segments or vertices never joins parts: every part after the edit lies inside one part before it
EditOnlySplits == (ed.done /\ ed.op = "remove_cells") =>
                      \A B \in ed.parts : \E A \in out.parts : B \subseteq A
InputsUnchanged == [][inp' = inp]_vars

\* ---------------------------------------------------------------- export (0-based vertices)
ZeroBased(S) == {v - 1 : v \in S}
ExportEdit == ed.done =>
    PrintT(<<"CASE", ToJson([labels |-> inp,
                             cells |-> [c \in DOMAIN out.cells |-> <<out.cells[c][1] - 1, out.cells[c][2] - 1>>],
                             parts |-> {ZeroBased(B) : B \in out.parts},
                             asbuilt |-> {ZeroBased(B) : B \in PartitionOf(ScanParts(N, out.cells))},
                             op |-> ed.op, idx |-> ZeroBased(ed.idx), n2 |-> ed.n,
                             cells2 |-> [c \in DOMAIN ed.cells |-> <<ed.cells[c][1] - 1, ed.cells[c][2] - 1>>],
                             parts2 |-> {ZeroBased(B) : B \in ed.parts}])>>)
ExportCase == out.done =>
    PrintT(<<"CASE", ToJson([labels |-> inp,
                             cells |-> [c \in DOMAIN out.cells |-> <<out.cells[c][1] - 1, out.cells[c][2] - 1>>],
                             parts |-> {ZeroBased(B) : B \in out.parts},
                             asbuilt |-> {ZeroBased(B) : B \in PartitionOf(ScanParts(N, out.cells))},
                             \* AS BUILT "PartsBeforeVerticesIgnored": Curve.create(parts=..., vertices=...) applies the
                             \* keywords in order, the parts setter does nothing while there are no vertices
                             \* (curve.py:159) and the curve gets the default segments = deviation ChainAllVertices
                             chain |-> [c \in 1..(N - 1) |-> <<c - 1, c>>]])>>)
=============================================================================
