------------------------------ MODULE GridIndex ------------------------------
(* C17 - cell centres follow the indexing conventions of the geoh5 format (function style).    *)
(* One behaviour = choose a grid configuration (Init), then the single action Compute produces  *)
(* the list of cell centres in the order the code builds it (GridGeom.tla).  The invariants      *)
(* state the conventions of docs/content/geoh5_format/analyst/objects.rst on that list:          *)
(*   block model  : centre of cell (i,j,k) sits at index k + i*nZ + j*nU*nZ                      *)
(*   2-D grid     : centre of cell (i,j)   sits at index i + j*nU                                *)
(*   octree       : centre of record (I,J,K,N) is the mean of the 8 corners of the cell          *)
(*   all          : as many centres as cells, with or without an explicit origin; pairwise        *)
(*                  distinct; U axis turned COUNTERclockwise from east by Rotation; Vertical      *)
(*                  grids have V pointing up.                                                    *)
(* Coordinates are exact rationals <<num, den>>; the harness compares with tolerance 1e-9.       *)
EXTENDS GridGeom, FiniteSets, TLC, Json

CONSTANTS
    Kind,        \* "block" | "grid2d" | "octree"
    NMax,        \* cells per axis: 1..NMax (block, grid2d)
    WidthMode,   \* "one" / "two" : one / two width patterns per axis length ; "full" : every tuple over Widths
    Widths,      \* cell widths (positive integers) of block-model axes
    Starts,      \* first delimiter of every block axis, index into StartTab = <<0, -2, 1>>; the format asks for 0
    Signs,       \* index into SignTab: 1 = increasing delimiters, 2 = decreasing (negative) delimiters
    RotIdx,      \* indices into AngleTab used as Rotation
    DipIdx,      \* indices into AngleTab used as Dip (grid2d)
    SizeIdx,     \* indices into SizeTab used as cell sizes (grid2d, octree)
    Deviations   \* {} = format ; named deviations, see below

VARIABLES inp, out
vars == <<inp, out>>

(* Named deviations                                                                               *)
(*   "DefaultOriginRaises" AS BUILT: BlockModel/Octree keep `_origin = np.zeros(3)` until an       *)
(*        origin is given (block_model.py:49, octree.py:58) but centroids index it by field name   *)
(*        (block_model.py:99-100, octree.py:161-162) -> IndexError, no centres at all.             *)
(*   "RelFirstDelimiter"   AS BUILT: block centres measured from the first delimiter               *)
(*        (block_model.py:80-82); differs from the format only when Starts contains a non-zero     *)
(*        value, which the format discourages ("first value should be 0").                         *)
(*   "KInnerSwapped", "Clockwise" : wrong conventions used as negative controls.                   *)
Dev(d) == d \in Deviations

ExplicitOrigin == VInt(7, -11, 3)
OriginOf(c) == IF c.hasO THEN ExplicitOrigin ELSE VZero

\* ---------------------------------------------------------------- input space
RECURSIVE SumTo(_, _)
SumTo(w, m) == IF m = 0 THEN 0 ELSE w[m] + SumTo(w, m - 1)
Delim(st, sg, w) == [m \in 1..(Len(w) + 1) |-> st + sg * SumTo(w, m - 1)]
OneWidths(n) == CASE n = 1 -> {<<2>>}
                  [] n = 2 -> {<<1, 2>>}
                  [] n = 3 -> {<<2, 1, 3>>}
TwoWidths(n) == CASE n = 1 -> {<<1>>, <<2>>}
                  [] n = 2 -> {<<1, 2>>, <<3, 1>>}
                  [] n = 3 -> {<<1, 2, 1>>, <<2, 1, 3>>}
WidthTuples(n) == CASE WidthMode = "full" -> [1..n -> Widths]
                    [] WidthMode = "two"  -> TwoWidths(n)
                    [] WidthMode = "one"  -> OneWidths(n)
\* cfg files cannot hold negative numbers: Starts and Signs are indices into these tables
StartTab == <<0, -2, 1>>
SignTab == <<1, -1>>
DelimSet == {Delim(StartTab[st], SignTab[sg], w) : st \in Starts, sg \in Signs, w \in UNION {WidthTuples(n) : n \in 1..NMax}}

\* all records (I, J, K, NCells) with I, J, K in {0, 1, 3} and NCells in {1, 2}: one octree object carries them all
\* (records 1 and 2 are (0,0,0,1) and (1,0,0,1))
OctCoords == <<0, 1, 3>>
OctRecs == SeqFlatten([n \in 1..2 |-> SeqFlatten([kk \in 1..3 |-> SeqFlatten([jj \in 1..3 |->
               [ii \in 1..3 |-> <<OctCoords[ii], OctCoords[jj], OctCoords[kk], n>>]])])])

Inputs ==
    CASE Kind = "block"  -> [kind : {"block"}, ud : DelimSet, vd : DelimSet, zd : DelimSet,
                             hasO : BOOLEAN, rot : RotIdx]
      [] Kind = "grid2d" -> [kind : {"grid2d"}, nu : 1..NMax, nv : 1..NMax, us : SizeIdx, vs : SizeIdx,
                             hasO : BOOLEAN, rot : RotIdx, dip : DipIdx, vert : BOOLEAN]
      [] Kind = "octree" -> [kind : {"octree"}, us : SizeIdx, vs : SizeIdx, ws : SizeIdx,
                             hasO : BOOLEAN, rot : RotIdx]

\* a 2-D grid case either passes a dip or the Vertical flag, never both (grid2d.py:241-258, 385-398)
InputOK(c) == Kind = "grid2d" => (c.vert => c.dip = ZeroAngle)
EffDip(c) == IF c.vert THEN QuarterAngle ELSE c.dip

\* ---------------------------------------------------------------- the function under test
\* "Clockwise" (negative control): the mirror angle, i.e. the sine negated
MirrorAngle == <<1, 4, 3, 2, 8, 7, 6, 5, 12, 11, 10, 9>>
RotOf(c) == IF Dev("Clockwise") THEN MirrorAngle[c.rot] ELSE c.rot

Centres(c) ==
    CASE c.kind = "block"  -> BlockCentroids(c.ud, c.vd, c.zd, OriginOf(c), RotOf(c), Dev("RelFirstDelimiter"),
                                             IF Dev("KInnerSwapped") THEN "jki" ELSE "jik")
      [] c.kind = "grid2d" -> GridCentroids(c.nu, c.nv, Size(c.us), Size(c.vs), OriginOf(c), RotOf(c), EffDip(c))
      [] c.kind = "octree" -> OctCentroids(OctRecs, Size(c.us), Size(c.vs), Size(c.ws), OriginOf(c), RotOf(c))

NCells(c) ==
    CASE c.kind = "block"  -> (Len(c.ud) - 1) * (Len(c.vd) - 1) * (Len(c.zd) - 1)
      [] c.kind = "grid2d" -> c.nu * c.nv
      [] c.kind = "octree" -> Len(OctRecs)

Raises(c) == Dev("DefaultOriginRaises") /\ c.kind \in {"block", "octree"} /\ ~c.hasO
Result(c) == IF Raises(c) THEN [err |-> "IndexError", n |-> NCells(c), cent |-> <<>>]
             ELSE [err |-> "none", n |-> NCells(c), cent |-> Centres(c)]
NoOut == [err |-> "pending", n |-> 0, cent |-> <<>>]

\* ---------------------------------------------------------------- behaviour
Init == inp \in {c \in Inputs : InputOK(c)} /\ out = NoOut
Compute == out.err = "pending" /\ out' = Result(inp) /\ UNCHANGED inp
Next == Compute
Spec == Init /\ [][Next]_vars

\* ---------------------------------------------------------------- properties (C17), written from the format
Done == out.err # "pending"
O == OriginOf(inp)
CA == Cos(inp.rot)
SA == Sin(inp.rot)

\* as many centres as cells, whether or not an origin was given
CountMatches == Done => out.err = "none" /\ Len(out.cent) = out.n /\ out.n = NCells(inp)

PairwiseDistinct == Done => \A a, b \in 1..Len(out.cent) : a # b => out.cent[a] # out.cent[b]

\* block model: cell index = k + i*nZ + j*nU*nZ (0-based i, j, k), centre = origin + R (mid_u(i), mid_v(j), mid_z(k))
BlockIndexFormula ==
    (Done /\ Kind = "block" /\ out.err = "none") =>
        LET nU == Len(inp.ud) - 1  nV == Len(inp.vd) - 1  nZ == Len(inp.zd) - 1 IN
        \A i \in 0..(nU - 1), j \in 0..(nV - 1), k \in 0..(nZ - 1) :
            out.cent[k + i * nZ + j * nU * nZ + 1] =
                VAdd(O, RotZ(CA, SA, <<BlockLocalFormat(inp.ud, i + 1), BlockLocalFormat(inp.vd, j + 1),
                                       BlockLocalFormat(inp.zd, k + 1)>>))

\* 2-D grid: cell index = i + j*nU, centre = origin + R D ((i+1/2) du, (j+1/2) dv, 0)
GridIndexFormula ==
    (Done /\ Kind = "grid2d") =>
        \A i \in 0..(inp.nu - 1), j \in 0..(inp.nv - 1) :
            out.cent[i + j * inp.nu + 1] =
                VAdd(O, RotZ(CA, SA, RotX(Cos(EffDip(inp)), Sin(EffDip(inp)),
                    <<RHalf(RMul(Size(inp.us), RInt(2 * i + 1))), RHalf(RMul(Size(inp.vs), RInt(2 * j + 1))), RZero>>)))

\* octree: the centre of a record is the mean of the eight corners of the cell it describes
OctreeCentreOfCorners ==
    (Done /\ Kind = "octree" /\ out.err = "none") =>
        \A r \in 1..Len(OctRecs) :
            out.cent[r] = VDivInt(VSum([m \in 1..8 |->
                              OctCorner(OctRecs[r], Size(inp.us), Size(inp.vs), Size(inp.ws), O, inp.rot,
                                        (m - 1) % 2, ((m - 1) \div 2) % 2, (m - 1) \div 4)]), 8)

\* Rotation is counterclockwise about the vertical axis: one step along U moves by |step| * (cos, sin, 0)
UAxisCounterclockwise ==
    (Done /\ out.err = "none") =>
        CASE Kind = "block" ->
                LET nU == Len(inp.ud) - 1  nZ == Len(inp.zd) - 1 IN
                \A i \in 1..(nU - 1) :
                    VSub(out.cent[i * nZ + 1], out.cent[(i - 1) * nZ + 1]) =
                        VScale(RSub(BlockLocalFormat(inp.ud, i + 1), BlockLocalFormat(inp.ud, i)), <<CA, SA, RZero>>)
          [] Kind = "grid2d" ->
                \A i \in 1..(inp.nu - 1) :
                    VSub(out.cent[i + 1], out.cent[i]) = VScale(Size(inp.us), <<CA, SA, RZero>>)
          [] Kind = "octree" ->
                \* records 1 and 2 of OctRecs are (0,0,0,1) and (1,0,0,1)
                VSub(out.cent[2], out.cent[1]) = VScale(Size(inp.us), <<CA, SA, RZero>>)

\* a vertical 2-D grid has its V axis pointing up (objects.rst "Vertical")
VerticalMeansVUp ==
    (Done /\ Kind = "grid2d" /\ EffDip(inp) = QuarterAngle) =>
        \A j \in 1..(inp.nv - 1) :
            VSub(out.cent[j * inp.nu + 1], out.cent[(j - 1) * inp.nu + 1]) = VScale(Size(inp.vs), VInt(0, 0, 1))

\* rotation and dip are rigid: distances between centres do not depend on them (exact in rationals)
RigidMotion ==
    (Done /\ out.err = "none" /\ Kind # "octree") =>
        LET ref == CASE Kind = "block" -> BlockCentroids(inp.ud, inp.vd, inp.zd, VZero, ZeroAngle, FALSE, "jik")
                     [] Kind = "grid2d" -> GridCentroids(inp.nu, inp.nv, Size(inp.us), Size(inp.vs), VZero, ZeroAngle, ZeroAngle)
        IN  \A a, b \in 1..Len(out.cent) :
                a < b => VNorm2(VSub(out.cent[a], out.cent[b])) = VNorm2(VSub(ref[a], ref[b]))

InputsUnchanged == [][inp' = inp]_vars

\* ---------------------------------------------------------------- export
\* asbuilt = what the two AS BUILT deviations predict for this case (recognised exactly by the harness)
AsBuilt(c) ==
    IF c.kind \in {"block", "octree"} /\ ~c.hasO THEN [err |-> "IndexError", cent |-> <<>>]
    ELSE IF c.kind = "block" THEN [err |-> "none", cent |-> BlockCentroids(c.ud, c.vd, c.zd, OriginOf(c), c.rot, TRUE, "jik")]
    ELSE [err |-> "none", cent |-> Centres(c)]
ExportCase == Done => PrintT(<<"CASE", ToJson([inp |-> inp, out |-> out, origin |-> OriginOf(inp),
                                               rot |-> <<CA, SA>>,
                                               dip |-> IF Kind = "grid2d" THEN <<Cos(EffDip(inp)), Sin(EffDip(inp))>> ELSE <<RInt(1), RZero>>,
                                               sizes |-> IF Kind = "block" THEN <<>> ELSE
                                                         <<Size(inp.us), Size(inp.vs), IF Kind = "octree" THEN Size(inp.ws) ELSE RZero>>,
                                               recs |-> IF Kind = "octree" THEN OctRecs ELSE <<>>,
                                               asbuilt |-> AsBuilt(inp)])>>)
=============================================================================
