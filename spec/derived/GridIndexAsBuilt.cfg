SPECIFICATION Spec
CONSTANTS
  Kind = "block"
  NMax = 2
  WidthMode = "one"
  Widths = {1, 2}
  Starts = {1}
  Signs = {1, 2}
  RotIdx = {1, 6}
  DipIdx = {1}
  SizeIdx = {1}
  Deviations = {"DefaultOriginRaises"}
INVARIANT CountMatches
INVARIANT PairwiseDistinct
INVARIANT BlockIndexFormula
INVARIANT UAxisCounterclockwise
INVARIANT RigidMotion
PROPERTY InputsUnchanged
CHECK_DEADLOCK FALSE
