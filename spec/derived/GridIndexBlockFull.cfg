SPECIFICATION Spec
CONSTANTS
  Kind = "block"
  NMax = 3
  WidthMode = "full"
  Widths = {1, 2}
  Starts = {1}
  Signs = {1, 2}
  RotIdx = {9}
  DipIdx = {1}
  SizeIdx = {1}
  Deviations = {}
INVARIANT CountMatches
INVARIANT PairwiseDistinct
INVARIANT BlockIndexFormula
INVARIANT UAxisCounterclockwise
INVARIANT RigidMotion
INVARIANT ExportCase
PROPERTY InputsUnchanged
CHECK_DEADLOCK FALSE
