------------------------------ MODULE GridGeom ------------------------------
(* Pure definitions shared by GridIndex.tla, OctreeRefine.tla and CentroidCache.tla (C17):      *)
(* the cell-centre lists of the four grid classes, built in the order the code builds them,     *)
(* over exact rationals (Rat.tla).                                                              *)
(*                                                                                              *)
(* Reference = docs/content/geoh5_format/analyst/objects.rst                                    *)
(*   Block model : cell index = k + i*nZ + j*nU*nZ ; delimiters = distances of cell edges from  *)
(*                 the origin along U, V, Z ; Rotation = COUNTERclockwise angle about the       *)
(*                 vertical axis ; without rotation U points east, V north, Z up.               *)
(*   2D Grid     : cell index = i + j*nU ; U Size / V Size ; Rotation counterclockwise about    *)
(*                 the vertical axis at the Origin ; Vertical => the V axis is vertical.        *)
(*   Octree      : records [I, J, K, NCells] = position and size of a cell in the base grid ;   *)
(*                 U/V/W Cell Size = base cell dimensions ; Rotation counterclockwise.          *)
(* (the docstrings of the code say "clockwise"; the matrices of the code are counterclockwise,  *)
(*  as the format says.)                                                                        *)
EXTENDS Rat

\* ------------------------------------------------------------------ angles with rational cosine and sine
\* entry <<cn, sn, d>> : cos = cn/d, sin = sn/d.  1..4 quarter turns, 5..8 the (3,4,5) triangle,
\* 9..12 the (5,12,13) triangle, spread over the four quadrants.
AngleTab == << <<1, 0, 1>>,  <<0, 1, 1>>,   <<-1, 0, 1>>,   <<0, -1, 1>>,
               <<4, 3, 5>>,  <<-3, 4, 5>>,  <<-3, -4, 5>>,  <<4, -3, 5>>,
               <<5, 12, 13>>, <<-12, 5, 13>>, <<-12, -5, 13>>, <<5, -12, 13>> >>
Cos(a) == RNorm(AngleTab[a][1], AngleTab[a][3])
Sin(a) == RNorm(AngleTab[a][2], AngleTab[a][3])
ZeroAngle == 1
QuarterAngle == 2            \* +90 degrees

\* cell sizes (rationals) addressed by index, so that cfg files can select them
SizeTab == << <<1, 1>>, <<2, 1>>, <<-1, 1>>, <<5, 2>>, <<-3, 2>>, <<3, 1>> >>
Size(i) == SizeTab[i]

\* ------------------------------------------------------------------ block model
\* block_model.py:80-82  cell_center_u = np.cumsum(u_cells) - u_cells / 2 with u_cells = diff(delimiters):
\* the running sum starts at 0, i.e. the code measures from the FIRST delimiter.  The format measures the
\* delimiters from the origin, so the centre of cell i is the midpoint of delimiters i and i+1.  The two agree
\* whenever the first delimiter is 0 ("first value should be 0").
BlockLocalFormat(d, i) == RHalf(RInt(d[i] + d[i + 1]))
BlockLocalCode(d, i)   == RSub(RInt(d[i + 1] - d[1]), RHalf(RInt(d[i + 1] - d[i])))
BlockLocal(d, i, relFirst) == IF relFirst THEN BlockLocalCode(d, i) ELSE BlockLocalFormat(d, i)

BlockPoint(ud, vd, zd, O, a, i, j, k, relFirst) ==
    VAdd(O, RotZ(Cos(a), Sin(a), <<BlockLocal(ud, i, relFirst), BlockLocal(vd, j, relFirst), BlockLocal(zd, k, relFirst)>>))

\* block_model.py:91-97  np.meshgrid(cu, cv, cz) has shape (nV, nU, nZ); np.ravel runs the last axis fastest:
\* for j: for i: for k.  order = "jik" is the code; "jki" is the named wrong order used as negative control.
BlockCentroids(ud, vd, zd, O, a, relFirst, order) ==
    LET nU == Len(ud) - 1  nV == Len(vd) - 1  nZ == Len(zd) - 1
        P(i, j, k) == BlockPoint(ud, vd, zd, O, a, i, j, k, relFirst)
    IN  IF order = "jik"
        THEN SeqFlatten([j \in 1..nV |-> SeqFlatten([i \in 1..nU |-> [k \in 1..nZ |-> P(i, j, k)]])])
        ELSE SeqFlatten([j \in 1..nV |-> SeqFlatten([k \in 1..nZ |-> [i \in 1..nU |-> P(i, j, k)]])])

\* ------------------------------------------------------------------ 2-D grid
\* grid2d.py:78-98  cell_center_u = cumsum(ones(n) * size) - size / 2  = (i - 1/2) * size, i = 1..n
GridLocal(size, i) == RMul(size, RHalf(RInt(2 * i - 1)))
\* grid2d.py:121-131  xyz = (u, v, 0); dipped = yz_rotation(dip) @ xyz; centroids = xy_rotation(rot) @ dipped + origin
GridPoint(us, vs, O, a, d, i, j) ==
    VAdd(O, RotZ(Cos(a), Sin(a), RotX(Cos(d), Sin(d), <<GridLocal(us, i), GridLocal(vs, j), RZero>>)))
\* np.meshgrid(cu, cv) has shape (nV, nU): for j: for i
GridCentroids(nu, nv, us, vs, O, a, d) ==
    SeqFlatten([j \in 1..nv |-> [i \in 1..nu |-> GridPoint(us, vs, O, a, d, i, j)]])

\* ------------------------------------------------------------------ octree
\* octree.py:141-157  (I + NCells/2) * u_cell_size, ... ; rotated about z ; + origin.  rec = <<I, J, K, NCells>>
OctLocal(x, n, size) == RMul(size, RAdd(RInt(x), RHalf(RInt(n))))
OctCentre(rec, du, dv, dw, O, a) ==
    VAdd(O, RotZ(Cos(a), Sin(a), <<OctLocal(rec[1], rec[4], du), OctLocal(rec[2], rec[4], dv), OctLocal(rec[3], rec[4], dw)>>))
OctCentroids(recs, du, dv, dw, O, a) == [r \in 1..Len(recs) |-> OctCentre(recs[r], du, dv, dw, O, a)]
\* corner (ea, eb, ec) in {0,1}^3 of the cell of a record: the cell spans base cells I..I+NCells in each direction
OctCorner(rec, du, dv, dw, O, a, ea, eb, ec) ==
    VAdd(O, RotZ(Cos(a), Sin(a), <<RMul(du, RInt(rec[1] + ea * rec[4])), RMul(dv, RInt(rec[2] + eb * rec[4])),
                                   RMul(dw, RInt(rec[3] + ec * rec[4]))>>))

\* ------------------------------------------------------------------ drape model
\* prism = <<easting, northing, top elevation, first layer (0-based), layer count>> ; layer = <<prism, k, bottom elevation>>
\* drape_model.py:71-86  one centre per layer: (easting, northing) of its prism, z = (top + bottom) / 2 with
\* top = prism top for the first layer of the prism, else the bottom of the layer above.
RECURSIVE DrapeBefore(_, _)
DrapeBefore(prisms, p) == IF p = 1 THEN 0 ELSE prisms[p - 1][5] + DrapeBefore(prisms, p - 1)
DrapeCentroids(prisms, layers) ==
    SeqFlatten([p \in 1..Len(prisms) |->
        [m \in 1..prisms[p][5] |->
            LET g   == DrapeBefore(prisms, p) + m                          \* row of self.layers (all layers in order)
                top == IF m = 1 THEN prisms[p][3] ELSE layers[prisms[p][4] + m - 1][3]
            IN  <<RInt(prisms[p][1]), RInt(prisms[p][2]), RHalf(RInt(top + layers[g][3]))>>]])
=============================================================================
