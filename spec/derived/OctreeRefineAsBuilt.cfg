SPECIFICATION Spec
CONSTANTS
  Dims = {1, 2, 4}
  RotIdx = {1}
  StyleIdx = {1}
  Recount = FALSE
  Deviations = {"DefaultOriginRaises"}
INVARIANT TilesExactlyOnce
INVARIANT InsideBase
INVARIANT SingleCellAlongShortest
INVARIANT CountMatches
INVARIANT PairwiseDistinct

PROPERTY InputsUnchanged
CHECK_DEADLOCK FALSE
