SPECIFICATION Spec
CONSTANTS
  Dims = {1, 2, 4}
  RotIdx = {1, 6}
  StyleIdx = {1, 2}
  Recount = FALSE
  Deviations = {}
INVARIANT TilesExactlyOnce
INVARIANT InsideBase
INVARIANT SingleCellAlongShortest
INVARIANT CountMatches
INVARIANT PairwiseDistinct
INVARIANT ExportCase
PROPERTY InputsUnchanged
CHECK_DEADLOCK FALSE
