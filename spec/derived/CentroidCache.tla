---------------------------- MODULE CentroidCache ----------------------------
(* C17, history half - the cached cell centres of a grid object never outlive the geometry they *)
(* were computed from.  State machine: p = the geometry parameters of one Grid2D / BlockModel / *)
(* Octree / DrapeModel, cache = the value kept in GridObject._centroids (grid_object.py:43).     *)
(* Actions = every geometry setter of the class + ReadCentroids.  For every interleaving the     *)
(* value read must equal the formula of GridGeom.tla applied to the CURRENT parameters, and its  *)
(* length must equal n_cells, whether or not an origin was ever given.                          *)
(* The whole reachable graph over the finite domains below is explored (no depth bound needed);  *)
(* it is exported (ST/TR lines) and replayed on real objects.                                    *)
EXTENDS GridGeom, FiniteSets, TLC, TLCExt, Json

CONSTANTS
    Kind,        \* "grid2d" | "block" | "octree" | "drape"
    Scope,       \* 1 = small domains (quick tier), 2 = larger domains (thorough tier)
    Mode,        \* "rw" : object in a writable workspace ; "r" : object re-read from a file opened read-only, where the
                 \*        write-through of every setter is refused (Workspace._io_call raises)
    Deviations   \* {} = ideal ; as built (before d160c9f / 353c42b): "DefaultOriginRaises", "DrapeSettersKeepCache" ;
                 \* negative controls: "RotationKeepsCache", "CountKeepsCache", "RefusedWriteKeepsCache"

VARIABLES p, cache, last
vars == <<p, cache, last>>
vw == <<p, cache>>
Dev(d) == d \in Deviations

\* ---------------------------------------------------------------- domains (tables; cfg files cannot hold tuples)
OriginTab == <<VInt(7, -11, 3), VInt(-2, 5, 1)>>      \* p.o = 0 : no origin was ever given (default), else index
OriginVec(o) == IF o = 0 THEN VZero ELSE OriginTab[o]
Origins == IF Scope = 1 THEN {1} ELSE {1, 2}          \* values the origin setter may store
Rots  == IF Scope = 1 THEN {1, 6} ELSE {1, 6, 11}
Dips  == IF Scope = 1 THEN {1, 2, 5} ELSE {1, 2, 5, 12}   \* 2 = 90 degrees = vertical
SizesU == IF Scope = 1 THEN {1, 2} ELSE {1, 2, 3}
SizesV == IF Scope = 1 THEN {1, 3} ELSE {1, 3}
SizesW == {1, 3}
CountsU == IF Scope = 1 THEN {1, 2} ELSE {1, 3}
CountsV == {1, 2}
DelimTabU == << <<0, 1, 3>>, <<0, -2>>, <<0, 2, 3, 5>> >>
DelimTabV == << <<0, 2>>, <<0, -1, -2>>, <<0, 1, 4>> >>
DelimTabZ == << <<0, -1>>, <<0, 1, 2>> >>
DelimsU == IF Scope = 1 THEN {1, 2} ELSE {1, 2, 3}
DelimsV == IF Scope = 1 THEN {1, 2} ELSE {1, 2, 3}
DelimsZ == {1, 2}
OctCountsU == IF Scope = 1 THEN {2} ELSE {2, 4}
OctCounts == {2}
OctCellsTab == << << <<0, 0, 0, 1>>, <<1, 0, 0, 1>>, <<0, 1, 0, 1>>, <<1, 1, 0, 1>>,
                     <<0, 0, 1, 1>>, <<1, 0, 1, 1>>, <<0, 1, 1, 1>>, <<1, 1, 1, 1>> >>,
                  << <<0, 0, 0, 2>> >>,
                  << <<0, 0, 0, 2>>, <<2, 0, 0, 1>>, <<3, 0, 0, 1>>, <<2, 1, 0, 1>> >> >>
OctCellSets == IF Scope = 1 THEN {1, 2} ELSE {1, 2, 3}
\* drape tables: shape = layer count per prism.  Layer tables 1,2 and prism tables 1,2 have shape <<2, 1>>;
\* layer table 3 and prism table 3 have shape <<1, 2, 1>>.
LayerTab == << << <<0, 0, -1>>, <<0, 1, -3>>, <<1, 0, -2>> >>,
               << <<0, 0, -2>>, <<0, 1, -5>>, <<1, 0, -4>> >>,
               << <<0, 0, -1>>, <<1, 0, -2>>, <<1, 1, -6>>, <<2, 0, -3>> >> >>
PrismTab == << << <<0, 0, 0, 0, 2>>, <<10, 1, 1, 2, 1>> >>,
               << <<5, 5, 2, 0, 2>>, <<15, 6, 0, 2, 1>> >>,
               << <<0, 0, 1, 0, 1>>, <<10, 0, 0, 1, 2>>, <<20, 5, -1, 3, 1>> >> >>
ShapeOfLayers == <<1, 1, 2>>
ShapeOfPrisms == <<1, 1, 2>>
LayerSets == IF Scope = 1 THEN {1, 2} ELSE {1, 2, 3}
PrismSets == IF Scope = 1 THEN {1, 2} ELSE {1, 2, 3}

\* ---------------------------------------------------------------- the formula on the current parameters
EffDip(q) == IF q.vert THEN QuarterAngle ELSE q.dip          \* grid2d.py:241-248
Consistent(q) == Kind = "drape" => ShapeOfLayers[q.layers] = ShapeOfPrisms[q.prisms]
Formula(q) ==
    CASE Kind = "grid2d" -> GridCentroids(q.nu, q.nv, Size(q.us), Size(q.vs), OriginVec(q.o), q.rot, EffDip(q))
      [] Kind = "block"  -> BlockCentroids(DelimTabU[q.ud], DelimTabV[q.vd], DelimTabZ[q.zd], OriginVec(q.o), q.rot, FALSE, "jik")
      [] Kind = "octree" -> OctCentroids(OctCellsTab[q.cells], Size(q.us), Size(q.vs), Size(q.ws), OriginVec(q.o), q.rot)
      [] Kind = "drape"  -> DrapeCentroids(PrismTab[q.prisms], LayerTab[q.layers])
NCells(q) ==
    CASE Kind = "grid2d" -> q.nu * q.nv                                             \* grid2d.py:260-267
      [] Kind = "block"  -> (Len(DelimTabU[q.ud]) - 1) * (Len(DelimTabV[q.vd]) - 1) * (Len(DelimTabZ[q.zd]) - 1)
      [] Kind = "octree" -> Len(OctCellsTab[q.cells])                               \* octree.py:168-175
      [] Kind = "drape"  -> Len(LayerTab[q.layers])                                 \* drape_model.py:138-142

NoCache == [valid |-> FALSE, val |-> <<>>]
NoLast == [act |-> "Create", arg |-> 0, val |-> 0, stored |-> TRUE, err |-> "none", out |-> <<>>, ideal |-> <<>>]

\* ---------------------------------------------------------------- initial states: created with or without an origin
InitP ==
    CASE Kind = "grid2d" -> [o : {0, 1}, rot : {1}, dip : {1}, vert : {FALSE}, us : {1}, vs : {1}, nu : {2}, nv : {2}]
      [] Kind = "block"  -> [o : {0, 1}, rot : {1}, ud : {1}, vd : {1}, zd : {1}]
      [] Kind = "octree" -> [o : {0, 1}, rot : {1}, us : {1}, vs : {1}, ws : {1}, nu : {2}, nv : {2}, nw : {2}, cells : {1}]
      [] Kind = "drape"  -> [layers : {1}, prisms : {1}]
Init == p \in InitP /\ cache = NoCache /\ last = NoLast

\* ---------------------------------------------------------------- setters
\* every geometry setter stores the value and drops the cached centres (self._centroids = None);
\* `keeps` names the deviations under which this setter forgets to do so
\* (arg = index into the domain table, val = the concrete value handed to the real setter)
\* Mode "r": the setter stores, drops the cache and then fails in workspace.update_attribute - or fails before it
\* stored anything (Octree.origin writes first, octree.py:220).  Either way the object must stay coherent: the
\* property speaks of the parameters the object currently reports.  Both outcomes are successors; the harness
\* follows the one whose parameters the real object reports after the call (`stored`).
\* "RefusedWriteKeepsCache" (negative control): the cache is dropped only after the write-through, i.e. never.
Setter(name, arg, val, newp, keeps) ==
    \/ /\ p' = newp
       /\ cache' = IF (\E d \in keeps : Dev(d)) \/ (Mode = "r" /\ Dev("RefusedWriteKeepsCache")) THEN cache ELSE NoCache
       /\ last' = [act |-> name, arg |-> arg, val |-> val, stored |-> TRUE, err |-> "none", out |-> <<>>, ideal |-> <<>>]
    \/ /\ Mode = "r"
       /\ p' = p
       /\ cache' = cache
       /\ last' = [act |-> name, arg |-> arg, val |-> val, stored |-> FALSE, err |-> "none", out |-> <<>>, ideal |-> <<>>]

HasOrigin == Kind \in {"grid2d", "block", "octree"}
SetOrigin == HasOrigin /\ \E k \in Origins :        \* grid2d.py:276-290, block_model.py:134-151, octree.py:212-227
    Setter("origin", k, OriginTab[k], [p EXCEPT !.o = k], {})
SetRotation == HasOrigin /\ \E a \in Rots :         \* grid2d.py:299-305, block_model.py:160-167, octree.py:236-243
    Setter("rotation", a, <<Cos(a), Sin(a)>>, [p EXCEPT !.rot = a], {"RotationKeepsCache"})

\* grid2d.py:250-258  dip setter: 90 also switches Vertical on.  Setting another dip while Vertical is on is left
\* out: the effective dip then depends on whether somebody read `dip` in between (the getter rewrites _dip).
SetDip == Kind = "grid2d" /\ \E a \in Dips : (~p.vert \/ a = QuarterAngle) /\
    Setter("dip", a, <<Cos(a), Sin(a)>>, [p EXCEPT !.dip = a, !.vert = IF a = QuarterAngle THEN TRUE ELSE @], {})
\* grid2d.py:385-398  vertical setter: True forces dip = 90; False keeps the stored dip
SetVertical == Kind = "grid2d" /\ \E b \in BOOLEAN :
    Setter("vertical", b, b, [p EXCEPT !.vert = b, !.dip = IF b THEN QuarterAngle ELSE @], {})
SetUSize == Kind \in {"grid2d", "octree"} /\ \E s \in SizesU :      \* grid2d.py:324-336, octree.py:266-278
    Setter("u_cell_size", s, Size(s), [p EXCEPT !.us = s], {})
SetVSize == Kind \in {"grid2d", "octree"} /\ \E s \in SizesV :      \* grid2d.py:361-373, octree.py:304-316
    Setter("v_cell_size", s, Size(s), [p EXCEPT !.vs = s], {})
SetWSize == Kind = "octree" /\ \E s \in SizesW :                     \* octree.py:341-353
    Setter("w_cell_size", s, Size(s), [p EXCEPT !.ws = s], {})
SetUCount == \/ Kind = "grid2d" /\ \E n \in CountsU : Setter("u_count", n, n, [p EXCEPT !.nu = n], {"CountKeepsCache"})  \* grid2d.py:345-352
             \/ Kind = "octree" /\ \E n \in OctCountsU : Setter("u_count", n, n, [p EXCEPT !.nu = n], {})                  \* octree.py:287-299
SetVCount == \/ Kind = "grid2d" /\ \E n \in CountsV : Setter("v_count", n, n, [p EXCEPT !.nv = n], {"CountKeepsCache"})  \* grid2d.py:375-383
             \/ Kind = "octree" /\ \E n \in OctCounts : Setter("v_count", n, n, [p EXCEPT !.nv = n], {})                  \* octree.py:325-336
SetWCount == Kind = "octree" /\ \E n \in OctCounts : Setter("w_count", n, n, [p EXCEPT !.nw = n], {})                     \* octree.py:362-373
\* the base dimensions of an octree do not enter the centres: the records do (octree.py:141-157)
\* octree.py:189-210 : the setter has two branches - a plain (N, 4) integer array is converted, an array of
\* records (I, J, K, NCells) is taken as it is; both must drop the cached centres
SetOctreeCells == Kind = "octree" /\ \E c \in OctCellSets :
    \/ Setter("octree_cells", c, OctCellsTab[c], [p EXCEPT !.cells = c], {})
    \/ Setter("octree_cells_records", c, OctCellsTab[c], [p EXCEPT !.cells = c], {})
SetUDelims == Kind = "block" /\ \E d \in DelimsU : Setter("u_cell_delimiters", d, DelimTabU[d], [p EXCEPT !.ud = d], {})   \* block_model.py:196-203
SetVDelims == Kind = "block" /\ \E d \in DelimsV : Setter("v_cell_delimiters", d, DelimTabV[d], [p EXCEPT !.vd = d], {})   \* block_model.py:228-235
SetZDelims == Kind = "block" /\ \E d \in DelimsZ : Setter("z_cell_delimiters", d, DelimTabZ[d], [p EXCEPT !.zd = d], {})   \* block_model.py:260-267
\* drape_model.py:119-136 / :170-191 : AS BUILT neither setter drops the cached centres
SetLayers == Kind = "drape" /\ \E l \in LayerSets : Setter("layers", l, LayerTab[l], [p EXCEPT !.layers = l], {"DrapeSettersKeepCache"})
SetPrisms == Kind = "drape" /\ \E r \in PrismSets : Setter("prisms", r, PrismTab[r], [p EXCEPT !.prisms = r], {"DrapeSettersKeepCache"})

\* ---------------------------------------------------------------- reading
\* block_model.py:71-102, grid2d.py:114-137, octree.py:131-164, drape_model.py:59-88: compute if nothing is cached
\* AS BUILT (DefaultOriginRaises): BlockModel / Octree index the default np.zeros(3) origin by field name
ReadRaises == Dev("DefaultOriginRaises") /\ Kind \in {"block", "octree"} /\ p.o = 0
ReadCentroids ==
    /\ Consistent(p)            \* a drape model whose layers and prisms disagree has no defined centres: never read
    /\ UNCHANGED p
    /\ IF cache.valid
       THEN cache' = cache /\ last' = [act |-> "Read", arg |-> 0, val |-> 0, stored |-> TRUE, err |-> "none", out |-> cache.val, ideal |-> Formula(p)]
       ELSE IF ReadRaises
            THEN cache' = cache /\ last' = [act |-> "Read", arg |-> 0, val |-> 0, stored |-> TRUE, err |-> "IndexError", out |-> <<>>, ideal |-> Formula(p)]
            ELSE cache' = [valid |-> TRUE, val |-> Formula(p)]
                 /\ last' = [act |-> "Read", arg |-> 0, val |-> 0, stored |-> TRUE, err |-> "none", out |-> Formula(p), ideal |-> Formula(p)]

Next == \/ SetOrigin \/ SetRotation \/ SetDip \/ SetVertical \/ SetUSize \/ SetVSize \/ SetWSize
        \/ SetUCount \/ SetVCount \/ SetWCount \/ SetOctreeCells \/ SetUDelims \/ SetVDelims \/ SetZDelims
        \/ SetLayers \/ SetPrisms \/ ReadCentroids
Spec == Init /\ [][Next]_vars

\* ---------------------------------------------------------------- properties
\* whatever is cached was computed from the current parameters
CacheCoherent == (cache.valid /\ Consistent(p)) => cache.val = Formula(p)
\* and a consistent drape model never keeps centres of another layout
CacheCountMatches == (cache.valid /\ Consistent(p)) => Len(cache.val) = NCells(p)
\* every read returns the formula of the current parameters, and as many centres as cells - also without an origin
ReadIsCurrent == [][(last'.act = "Read" /\ Consistent(p')) =>
                        (last'.err = "none" /\ last'.out = Formula(p') /\ Len(last'.out) = NCells(p'))]_vars
ReadPure == [][last'.act = "Read" => p' = p]_vars

\* ---------------------------------------------------------------- export (README conventions)
\* concrete values of the parameters, as the getters of the real object report them
Concrete(q) ==
    CASE Kind = "grid2d" -> [origin |-> OriginVec(q.o), rotation |-> <<Cos(q.rot), Sin(q.rot)>>,
                             dip |-> <<Cos(EffDip(q)), Sin(EffDip(q))>>, vertical |-> q.vert,
                             u_cell_size |-> Size(q.us), v_cell_size |-> Size(q.vs), u_count |-> q.nu, v_count |-> q.nv]
      [] Kind = "block"  -> [origin |-> OriginVec(q.o), rotation |-> <<Cos(q.rot), Sin(q.rot)>>,
                             u_cell_delimiters |-> DelimTabU[q.ud], v_cell_delimiters |-> DelimTabV[q.vd],
                             z_cell_delimiters |-> DelimTabZ[q.zd]]
      [] Kind = "octree" -> [origin |-> OriginVec(q.o), rotation |-> <<Cos(q.rot), Sin(q.rot)>>,
                             u_cell_size |-> Size(q.us), v_cell_size |-> Size(q.vs), w_cell_size |-> Size(q.ws),
                             u_count |-> q.nu, v_count |-> q.nv, w_count |-> q.nw, octree_cells |-> OctCellsTab[q.cells]]
      [] Kind = "drape"  -> [layers |-> LayerTab[q.layers], prisms |-> PrismTab[q.prisms]]
ExportState == PrintT(<<"ST", TLCFP(vw), TLCFP(<<vw, 1>>),
                        ToJson([p |-> p, cached |-> cache.valid, n |-> NCells(p), consistent |-> Consistent(p),
                                has_origin |-> IF HasOrigin THEN p.o # 0 ELSE TRUE, val |-> Concrete(p)])>>)
ExportTrans == PrintT(<<"TR", TLCFP(vw), TLCFP(<<vw, 1>>), TLCFP(vw'), TLCFP(<<vw', 1>>), ToJson(last')>>)
=============================================================================
