SPECIFICATION Spec
CONSTANTS
  NVs = {3}
  NLabels = 2
  MaxRemove = 1
  Deviations = {"PartsSetterLazyWrite"}
VIEW vw
INVARIANT StoredFollowsLive
PROPERTY ReopenKeepsTheCurve
PROPERTY StoredSegmentsFollowLabels

CHECK_DEADLOCK FALSE
