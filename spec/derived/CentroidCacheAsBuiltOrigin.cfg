SPECIFICATION Spec
CONSTANTS
  Kind = "octree"
  Scope = 1
  Deviations = {"DefaultOriginRaises"}
VIEW vw
INVARIANT CacheCoherent
INVARIANT CacheCountMatches
PROPERTY ReadIsCurrent
PROPERTY ReadPure
CHECK_DEADLOCK FALSE
