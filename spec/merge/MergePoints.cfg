SPECIFICATION Spec
CONSTANTS
  MaxInputs = 3
  NVs = {1, 2, 3}
  MinCells = 0
  MaxCells = 0
  Arity = 0
  NKeys = 3
  Deviations = {}
INVARIANT VerticesInOrder
INVARIANT CellsJoinSameCoords
INVARIANT DataFollows
INVARIANT ExportCase
PROPERTY InputsUnchanged
CHECK_DEADLOCK FALSE
