SPECIFICATION Spec
CONSTANTS
  MaxInputs = 3
  NVs = {2, 3}
  MinCells = 1
  MaxCells = 1
  Arity = 2
  NKeys = 2
  Deviations = {}
INVARIANT VerticesInOrder
INVARIANT CellsJoinSameCoords
INVARIANT DataFollows
INVARIANT ExportCase
PROPERTY InputsUnchanged
CHECK_DEADLOCK FALSE
