SPECIFICATION Spec
CONSTANTS
  MaxInputs = 2
  NVs = {2, 3}
  MinCells = 1
  MaxCells = 2
  Arity = 2
  NKeys = 2
  Deviations = {"OffsetByMaxIndex"}
INVARIANT VerticesInOrder
INVARIANT CellsJoinSameCoords
INVARIANT DataFollows
PROPERTY InputsUnchanged
CHECK_DEADLOCK FALSE
