SPECIFICATION Spec
CONSTANTS
  MaxInputs = 2
  NVs = {3, 4}
  MinCells = 1
  MaxCells = 1
  Arity = 3
  NKeys = 2
  Deviations = {}
INVARIANT VerticesInOrder
INVARIANT CellsJoinSameCoords
INVARIANT DataFollows
INVARIANT ExportCase
PROPERTY InputsUnchanged
CHECK_DEADLOCK FALSE
