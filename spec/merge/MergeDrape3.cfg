SPECIFICATION Spec
CONSTANTS
  MaxInputs = 3
  NPs = {2}
  MaxLayers = 2
  NKeys = 1
  Deviations = {}
INVARIANT CellsKeepPlace
INVARIANT Consistent
INVARIANT DataFollows
INVARIANT ExportCase
PROPERTY InputsUnchanged
CHECK_DEADLOCK FALSE
