SPECIFICATION Spec
CONSTANTS
  MaxInputs = 3
  NPs = {2}
  MaxLayers = 2
  NKeys = 1
  Deviations = {"PackedData"}
INVARIANT CellsKeepPlace
INVARIANT Consistent
INVARIANT DataFollows
PROPERTY InputsUnchanged
CHECK_DEADLOCK FALSE
