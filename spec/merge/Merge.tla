------------------------------- MODULE Merge -------------------------------
(* C16 - merging points / curves / surfaces.                                                   *)
(* One behaviour = choose a list of same-class inputs (Init), then the single action Merge      *)
(* computes the merged object.  Vertices and data values are tokens, so "connects the same      *)
(* coordinates" and "the value stays attached" are exact statements about tokens.               *)
(* Vertex token of input k, local index i (0-based, as in the code) : k*10 + i                  *)
(* Value  token of input k, data key d, element i                   : k*100 + d*10 + i          *)
EXTENDS Naturals, Sequences, FiniteSets, TLC, Json

CONSTANTS
    MaxInputs,    \* 2 or 3
    NVs,          \* set of vertex counts per input, e.g. {2,3}
    MinCells, MaxCells,
    Arity,        \* 0 = Points, 2 = Curve, 3 = Surface
    NKeys,        \* data keys 1..NKeys; odd keys are VERTEX data, even keys CELL data
    Deviations    \* {} = Ideal ; {"OffsetByMaxIndex"} = as built before the fix

VARIABLES inputs, out
Assoc == [d \in 1..NKeys |-> IF d % 2 = 1 THEN "VERTEX" ELSE "CELL"]
vars == <<inputs, out>>

NDV == 0 - 1
NoOut == [verts |-> <<>>, cells |-> <<>>, data |-> <<>>, none |-> TRUE]

\* ---------------------------------------------------------------- input space
Tuples(S, n) == [1..n -> S]
Injective(t) == \A i, j \in DOMAIN t : i # j => t[i] # t[j]
CellsOver(nv) == IF Arity = 0 THEN {} ELSE {t \in Tuples(0..(nv-1), Arity) : Injective(t)}
CellSeqs(nv) == IF Arity = 0 THEN {<<>>}
                ELSE UNION {Tuples(CellsOver(nv), n) : n \in MinCells..MaxCells}
Keys == 1..NKeys
KeyOK(d) == Arity # 0 \/ Assoc[d] = "VERTEX"
Obj == UNION {[nv : {nv}, cells : CellSeqs(nv), has : SUBSET {d \in Keys : KeyOK(d)}] : nv \in NVs}
InputLists == UNION {Tuples(Obj, n) : n \in 2..MaxInputs}

\* ---------------------------------------------------------------- helper sums
RECURSIVE SumNV(_, _)
SumNV(ins, k) == IF k = 0 THEN 0 ELSE ins[k].nv + SumNV(ins, k - 1)
RECURSIVE SumNC(_, _)
SumNC(ins, k) == IF k = 0 THEN 0 ELSE Len(ins[k].cells) + SumNC(ins, k - 1)

MaxIdx(cellseq) ==      \* largest vertex index used by a non-empty sequence of cells
    LET S == UNION {{c[i] : i \in DOMAIN c} : c \in {cellseq[j] : j \in DOMAIN cellseq}}
    IN CHOOSE m \in S : \A x \in S : x <= m

\* offset added to the cells of input k
RECURSIVE OffsetD(_, _, _)
OffsetD(ins, k, dev) ==
    IF k = 1 THEN 0
    ELSE IF dev /\ Len(ins[k-1].cells) > 0
         THEN OffsetD(ins, k - 1, dev) + MaxIdx(ins[k-1].cells) + 1   \* as built: np.nanmax(temp_cells) + 1
         ELSE OffsetD(ins, k - 1, dev) + ins[k-1].nv                  \* running vertex count
Offset(ins, k) == OffsetD(ins, k, "OffsetByMaxIndex" \in Deviations)

\* ---------------------------------------------------------------- the merged object
RECURSIVE Flatten(_)
Flatten(ss) == IF ss = <<>> THEN <<>> ELSE Head(ss) \o Flatten(Tail(ss))

MergedVerts(ins) == Flatten([k \in 1..Len(ins) |-> [i \in 1..ins[k].nv |-> k*10 + (i-1)]])
MergedCellsD(ins, dev) ==
    Flatten([k \in 1..Len(ins) |->
                [c \in 1..Len(ins[k].cells) |->
                    [a \in 1..Arity |-> ins[k].cells[c][a] + OffsetD(ins, k, dev)]]])
MergedCells(ins) == MergedCellsD(ins, "OffsetByMaxIndex" \in Deviations)
Count(ins, k, d) == IF Assoc[d] = "VERTEX" THEN ins[k].nv ELSE Len(ins[k].cells)
MergedData(ins, d) ==
    Flatten([k \in 1..Len(ins) |->
                [i \in 1..Count(ins, k, d) |->
                    IF d \in ins[k].has THEN k*100 + d*10 + (i-1) ELSE NDV]])
Present(ins) == {d \in Keys : \E k \in 1..Len(ins) : d \in ins[k].has}
Merged(ins) == [verts |-> MergedVerts(ins),
                cells |-> MergedCells(ins),
                data  |-> [d \in Keys |-> IF d \in Present(ins) THEN MergedData(ins, d) ELSE <<>>],
                none  |-> FALSE]

\* ---------------------------------------------------------------- behaviour
Init == inputs \in InputLists /\ out = NoOut
Merge == out.none /\ out' = Merged(inputs) /\ UNCHANGED inputs
Next == Merge
Spec == Init /\ [][Next]_vars

\* ---------------------------------------------------------------- properties (C16)
Done == ~out.none
\* vertices are the inputs' vertices in order
VerticesInOrder == Done => out.verts = MergedVerts(inputs)
\* every merged cell joins the same coordinate tokens as its source cell
CellsJoinSameCoords ==
    Done => /\ Len(out.cells) = SumNC(inputs, Len(inputs))
            /\ \A k \in 1..Len(inputs) : \A c \in 1..Len(inputs[k].cells) :
                 LET mc == out.cells[SumNC(inputs, k-1) + c] IN
                 \A a \in 1..Arity :
                    /\ mc[a] + 1 \in 1..Len(out.verts)
                    /\ out.verts[mc[a] + 1] = k*10 + inputs[k].cells[c][a]
\* each value is attached to the same vertex / cell; NDV where the input lacks the data
DataFollows ==
    Done => \A d \in Present(inputs) : \A k \in 1..Len(inputs) : \A i \in 1..Count(inputs, k, d) :
              LET base == IF Assoc[d] = "VERTEX" THEN SumNV(inputs, k-1) ELSE SumNC(inputs, k-1) IN
              out.data[d][base + i] = IF d \in inputs[k].has THEN k*100 + d*10 + (i-1) ELSE NDV
InputsUnchanged == [][inputs' = inputs]_vars

\* ---------------------------------------------------------------- export
\* asbuilt = what the named deviation OffsetByMaxIndex would produce (used by the harness to recognise
\* the recorded finding exactly; any other wrong answer is a new violation)
ExportCase == Done => PrintT(<<"CASE", ToJson([ins |-> inputs, out |-> out,
                                               asbuilt |-> MergedCellsD(inputs, TRUE)])>>)
=============================================================================
