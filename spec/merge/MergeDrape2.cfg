SPECIFICATION Spec
CONSTANTS
  MaxInputs = 2
  NPs = {2, 3}
  MaxLayers = 2
  NKeys = 2
  Deviations = {}
INVARIANT CellsKeepPlace
INVARIANT Consistent
INVARIANT DataFollows
INVARIANT ExportCase
PROPERTY InputsUnchanged
CHECK_DEADLOCK FALSE
