----------------------------- MODULE MergeDrape -----------------------------
(* C16 - merging drape models (geoh5py/shared/merging/drape_model.py).                          *)
(* A drape model is a trace of prisms (columns), each a stack of layers (cells).  Merging puts  *)
(* the inputs one after the other and joins consecutive inputs by TWO ghost prisms of one layer *)
(* each (the mirror image of the last / first prism across its neighbour), so that a viewer      *)
(* does not draw a wall between unrelated sections.                                               *)
(* One behaviour = choose a list of inputs (Init), then the single action Merge.                 *)
(* Tokens: prism c (0-based) of input k has position token k*10 + c (the harness maps a token    *)
(* to coordinates by an affine map, so the mirror image 2a - b of tokens is the mirror image of  *)
(* coordinates); the bottom of layer j (0-based) of that prism is <<k, c, j>>; the value of data *)
(* key d on the i-th cell of input k is k*100 + d*10 + i.                                        *)
EXTENDS Integers, Sequences, FiniteSets, TLC, Json

CONSTANTS
    MaxInputs,    \* 2 or 3
    NPs,          \* set of prism counts per input (>= 2: a ghost needs a neighbour to mirror)
    MaxLayers,    \* layers per prism: 1..MaxLayers
    NKeys,        \* data keys 1..NKeys, all CELL data
    Deviations    \* {} = Ideal ; {"PackedData"}: data blocks packed without room for the ghost cells

VARIABLES inputs, out
vars == <<inputs, out>>
NDV == 0 - 1
NoOut == [prisms |-> <<>>, layers |-> <<>>, data |-> <<>>, none |-> TRUE]

Keys == 1..NKeys
Obj == UNION {[np : {n}, nl : [1..n -> 1..MaxLayers], has : SUBSET Keys] : n \in NPs}
InputLists == UNION {[1..n -> Obj] : n \in 2..MaxInputs}

RECURSIVE SumTo(_, _)
SumTo(f, n) == IF n = 0 THEN 0 ELSE f[n] + SumTo(f, n - 1)
NCells(o) == SumTo(o.nl, o.np)                         \* layers of one input
First(o, c) == SumTo(o.nl, c - 1)                       \* 0-based index of the first layer of prism c (1-based c)

RECURSIVE Flatten(_)
Flatten(ss) == IF ss = <<>> THEN <<>> ELSE Head(ss) \o Flatten(Tail(ss))

\* number of merged cells / prisms in front of input k (two ghosts per junction)
RECURSIVE CellOff(_, _)
CellOff(ins, k) == IF k = 1 THEN 0 ELSE CellOff(ins, k - 1) + NCells(ins[k - 1]) + 2
RECURSIVE PrismOff(_, _)
PrismOff(ins, k) == IF k = 1 THEN 0 ELSE PrismOff(ins, k - 1) + ins[k - 1].np + 2

\* ---------------------------------------------------------------- the merged object
\* a merged prism: position token, index of its first layer, number of layers
\* a merged layer: index of its prism, depth index, bottom (<<k, c, j>> for a real cell, <<0, pos, 0>> for a ghost:
\*                 a ghost has no thickness, its bottom is the top of the ghost prism)
RealPrisms(ins, k) == [c \in 1..ins[k].np |-> [pos |-> k * 10 + (c - 1), first |-> CellOff(ins, k) + First(ins[k], c),
                                               count |-> ins[k].nl[c], ghost |-> FALSE]]
RealLayers(ins, k) == Flatten([c \in 1..ins[k].np |->
                                 [j \in 1..ins[k].nl[c] |-> [prism |-> PrismOff(ins, k) + (c - 1), k |-> j - 1,
                                                             bottom |-> <<k, c - 1, j - 1>>]]])
\* after input k (k < Len): mirror of its last prism across the one before; before input k+1: mirror of its first prism
GhostAfter(ins, k) == LET pos == 2 * (k * 10 + ins[k].np - 1) - (k * 10 + ins[k].np - 2) IN
    [prism |-> [pos |-> pos, first |-> CellOff(ins, k) + NCells(ins[k]), count |-> 1, ghost |-> TRUE],
     layer |-> [prism |-> PrismOff(ins, k) + ins[k].np, k |-> 0, bottom |-> <<0, pos, 0>>]]
GhostBefore(ins, k) == LET pos == 2 * (k * 10) - (k * 10 + 1) IN
    [prism |-> [pos |-> pos, first |-> CellOff(ins, k) - 1, count |-> 1, ghost |-> TRUE],
     layer |-> [prism |-> PrismOff(ins, k) - 1, k |-> 0, bottom |-> <<0, pos, 0>>]]

MergedPrisms(ins) == Flatten([k \in 1..Len(ins) |->
    (IF k > 1 THEN <<GhostBefore(ins, k).prism>> ELSE <<>>) \o RealPrisms(ins, k)
    \o (IF k < Len(ins) THEN <<GhostAfter(ins, k).prism>> ELSE <<>>)])
MergedLayers(ins) == Flatten([k \in 1..Len(ins) |->
    (IF k > 1 THEN <<GhostBefore(ins, k).layer>> ELSE <<>>) \o RealLayers(ins, k)
    \o (IF k < Len(ins) THEN <<GhostAfter(ins, k).layer>> ELSE <<>>)])

Block(ins, k, d) == [i \in 1..NCells(ins[k]) |-> IF d \in ins[k].has THEN k * 100 + d * 10 + (i - 1) ELSE NDV]
MergedDataIdeal(ins, d) == Flatten([k \in 1..Len(ins) |->
    (IF k > 1 THEN <<NDV>> ELSE <<>>) \o Block(ins, k, d) \o (IF k < Len(ins) THEN <<NDV>> ELSE <<>>)])
\* deviation: the blocks one after the other, the no-data of the ghost cells all at the end
MergedDataPacked(ins, d) == Flatten([k \in 1..Len(ins) |-> Block(ins, k, d)]) \o [i \in 1..(2 * (Len(ins) - 1)) |-> NDV]
MergedData(ins, d) == IF "PackedData" \in Deviations THEN MergedDataPacked(ins, d) ELSE MergedDataIdeal(ins, d)
Present(ins) == {d \in Keys : \E k \in 1..Len(ins) : d \in ins[k].has}
Merged(ins) == [prisms |-> MergedPrisms(ins), layers |-> MergedLayers(ins),
                data |-> [d \in Keys |-> IF d \in Present(ins) THEN MergedData(ins, d) ELSE <<>>], none |-> FALSE]

\* ---------------------------------------------------------------- behaviour
Init == inputs \in InputLists /\ out = NoOut
Merge == out.none /\ out' = Merged(inputs) /\ UNCHANGED inputs
Next == Merge
Spec == Init /\ [][Next]_vars

\* ---------------------------------------------------------------- properties (C16)
Done == ~out.none
\* every input cell is a merged cell with the same prism position, depth index and bottom; its prism lists it
CellsKeepPlace ==
    Done => \A k \in 1..Len(inputs) : \A c \in 1..inputs[k].np : \A j \in 1..inputs[k].nl[c] :
        LET li == CellOff(inputs, k) + First(inputs[k], c) + j          \* 1-based position of the merged layer
            ly == out.layers[li]
            pr == out.prisms[ly.prism + 1]
        IN /\ ly.bottom = <<k, c - 1, j - 1>> /\ ly.k = j - 1
           /\ pr.pos = k * 10 + (c - 1) /\ ~pr.ghost
           /\ pr.first <= li - 1 /\ li - 1 < pr.first + pr.count /\ pr.count = inputs[k].nl[c]
\* prisms and layers are consistent: the layers of prism p are exactly first..first+count-1, in order, no gap
Consistent ==
    Done => /\ \A p \in 1..Len(out.prisms) :
                 /\ out.prisms[p].first = (IF p = 1 THEN 0 ELSE out.prisms[p - 1].first + out.prisms[p - 1].count)
                 /\ \A i \in 1..out.prisms[p].count : out.layers[out.prisms[p].first + i].prism = p - 1
            /\ Len(out.layers) = out.prisms[Len(out.prisms)].first + out.prisms[Len(out.prisms)].count
\* each value stays on its cell; no-data where an input lacks the key and on the ghost cells
DataFollows ==
    Done => \A d \in Present(inputs) :
        /\ Len(out.data[d]) = Len(out.layers)
        /\ \A k \in 1..Len(inputs) : \A i \in 1..NCells(inputs[k]) :
              out.data[d][CellOff(inputs, k) + i] = IF d \in inputs[k].has THEN k * 100 + d * 10 + (i - 1) ELSE NDV
        /\ \A li \in 1..Len(out.layers) : out.prisms[out.layers[li].prism + 1].ghost => out.data[d][li] = NDV
InputsUnchanged == [][inputs' = inputs]_vars

\* ---------------------------------------------------------------- export
ExportCase == Done => PrintT(<<"CASE", ToJson([ins |-> inputs, out |-> out,
                                               packed |-> [d \in Keys |-> IF d \in Present(inputs) THEN MergedDataPacked(inputs, d) ELSE <<>>]])>>)
=============================================================================
