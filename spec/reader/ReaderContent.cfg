SPECIFICATION Spec
CONSTANTS
  MaxGroups = 1
  MaxObjects = 1
  MaxData = 3
  MaxPGs = 2
  ObjClasses = {"Points", "Grid2D"}
  Prims = {"float", "floatcmap", "int", "ref", "text"}
  ShareTypes = TRUE
  Deviations = {}
INVARIANT TypeOK
INVARIANT EveryItemClassified
INVARIANT DescribesSane
INVARIANT NamedByProperty
INVARIANT PropertyHolds
INVARIANT ExportFile
INVARIANT ExportCase
PROPERTY FaultIsSingle
CHECK_DEADLOCK FALSE
