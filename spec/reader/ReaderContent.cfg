SPECIFICATION Spec
CONSTANTS
  MaxGroups = 0
  MaxObjects = 1
  MaxData = 3
  MaxDrill = 0
  MaxPGs = 1
  ObjClasses = {"Points"}
  Prims = {"float", "floatcmap", "int", "ref", "text"}
  ShareTypes = TRUE
  UnnamedPGs = FALSE
  Deviations = {}
INVARIANT TypeOK
INVARIANT EveryItemClassified
INVARIANT DescribesSane
INVARIANT NamedByProperty
INVARIANT PropertyHolds
INVARIANT ExportFile
INVARIANT ExportCase
PROPERTY FaultIsSingle
CHECK_DEADLOCK FALSE
