----------------------------- MODULE ReaderFaults -----------------------------
(* C19 - the reader tolerates missing optional content.                                         *)
(*                                                                                              *)
(* A geoh5 file is modelled at the ITEM level: every attribute, every link (flat container,     *)
(* flat entry, Root link, Type link, child container, child link, property-group block) and     *)
(* every dataset (Data, Vertices, Cells, Color map, Value map) of the file is one element of    *)
(* Items(file).  One behaviour = a small build history (AddGroup / AddDrillGroup / AddObject /   *)
(* AddData / AddPG,                                                                              *)
(* the operations of the public API that produce the file), then ONE fault DeleteItem(i), then  *)
(* Open, whose result is computed by a model of the reader (h5_reader.py + workspace.py).       *)
(*                                                                                              *)
(* The PROPERTY is the invariant PropertyHolds = the outcome of Open lies in the set the        *)
(* property text allows and nothing stricter:                                                   *)
(*   optional item  => the file opens and every entity NOT described by the item is unchanged;  *)
(*   mandatory item => an error, or every entity outside Describes(i) + descendants unchanged.  *)
(* Classification optional / mandatory follows docs/content/geoh5_format/hierarchy/*.rst and    *)
(* geoh5_file_format.textile (see Class below).                                                 *)
(*                                                                                              *)
(* Entities: -1 = the project header (attributes of /GEOSCIENCE), 0 = the root group,           *)
(* 1..Len(file.nodes) = groups, objects and data in creation order, 100 + p = property group p  *)
(* (a child of the object that owns its block).  Types are not entities of their own: a type is *)
(* described through the entities that link to it (the Type child of an entity node IS the type *)
(* node, a hard link).                                                                          *)
EXTENDS Integers, Sequences, FiniteSets, TLC, TLCExt, Json

CONSTANTS
    MaxGroups, MaxObjects, MaxData, MaxPGs,   \* bounds of the build histories
    MaxDrill,       \* 0 or 1: a DrillholeGroup holding one drillhole with a depth log (concatenated storage)
    ObjClasses,     \* subset of {"Points", "Curve", "Surface", "Grid2D"}
    Prims,          \* subset of {"float", "floatcmap", "int", "ref", "text"}
    ShareTypes,     \* TRUE: a new data may re-use the data type of an earlier data of the same primitive
    UnnamedPGs,     \* TRUE: a property group may be created without a name (default name of the class)
    Deviations      \* {} = ideal reader ; {"RebuildRootFlatOrder"} = Workspace.fetch_or_create_root as built

VARIABLES file, stage, phase, item, outcome
vars == <<file, stage, phase, item, outcome>>

Proj == 0 - 1
Root == 0

\* ------------------------------------------------------------------ the file
Node(kind, cls, parent, rank, ty) == [kind |-> kind, cls |-> cls, parent |-> parent, rank |-> rank, ty |-> ty]
Ty(tk, cls, cmap, vmap) == [tk |-> tk, cls |-> cls, cmap |-> cmap, vmap |-> vmap]
\* Workspace.create: project header, the seven containers, the root group with type NoType, the Root link
EmptyFile == [nodes |-> <<>>, types |-> <<Ty("group", "NoType", FALSE, FALSE)>>, pgs |-> <<>>]

Nodes(f) == 1..Len(f.nodes)
PgBase == 100
PgEnt(p) == PgBase + p
PGsOf(f, o) == {p \in 1..Len(f.pgs) : f.pgs[p].obj = o}
PgEnts(f, o) == {PgEnt(p) : p \in PGsOf(f, o)}          \* the property groups an object lists
Ents(f) == {Proj, Root} \cup Nodes(f) \cup {PgEnt(p) : p \in 1..Len(f.pgs)}
KindOf(f, e) == IF e = Root THEN "group" ELSE f.nodes[e].kind
ClsOf(f, e) == IF e = Root THEN "Root" ELSE f.nodes[e].cls
TypeOf(f, e) == IF e = Root THEN 1 ELSE f.nodes[e].ty
RankOf(f, e) == IF e = Root THEN 0 ELSE f.nodes[e].rank     \* order of the uids in /Groups (link names)
GroupNodes(f) == {n \in Nodes(f) : f.nodes[n].kind = "group"}
ObjectNodes(f) == {n \in Nodes(f) : f.nodes[n].kind = "object"}
DataNodes(f) == {n \in Nodes(f) : f.nodes[n].kind = "data"}
Children(f, e) == {n \in Nodes(f) : f.nodes[n].parent = e}
\* Concatenated storage (format v2): the holes of a DrillholeGroup and their logs have no node of their own, they
\* are rows of the datasets under <group>/Concatenated Data (shared/concatenation/concatenator.py); a hole is an
\* entity (its logs and depth tables are read through it and are part of its content) but owns no item.
CatNodes(f) == {n \in Nodes(f) : f.nodes[n].cls = "Drillhole"}
Stored(f) == Nodes(f) \ CatNodes(f)                     \* entities with a node in a flat container
DrillGroups(f) == {n \in Nodes(f) : f.nodes[n].cls = "DrillholeGroup"}
ContGroups(f) == {n \in Nodes(f) : f.nodes[n].cls = "ContainerGroup"}
Holes(f, g) == Children(f, g) \cap CatNodes(f)
RECURSIVE Desc(_, _)      \* proper descendants of a set of entities
Desc(f, S) == LET C == UNION {Children(f, e) \cup PgEnts(f, e) : e \in S} IN IF C = {} THEN {} ELSE C \cup Desc(f, C)
RECURSIVE Anc(_, _)       \* proper ancestors of a node, the root included
Anc(f, n) == IF n = Root THEN {} ELSE {f.nodes[n].parent} \cup Anc(f, f.nodes[n].parent)
\* the data types of the concatenated logs are looked up in Types/Data types by the "Type ID" of their record
Users(f, t) == {e \in {Root} \cup Nodes(f) : TypeOf(f, e) = t}
               \cup (IF f.types[t].cls \in {"catdepth", "catlog"} THEN CatNodes(f) ELSE {})
Flat(kind) == CASE kind = "group" -> "Groups" [] kind = "object" -> "Objects" [] kind = "data" -> "Data"
\* links held by the child container `c` of entity e
ContLinks(f, e, c) == {n \in Children(f, e) \cap Stored(f) : Flat(f.nodes[n].kind) = c}
ChildConts(f, e) == CASE ClsOf(f, e) = "DrillholeGroup" -> {"Data", "Groups"}
                      [] ClsOf(f, e) = "Drillhole" -> {}
                      [] KindOf(f, e) = "group" -> {"Data", "Groups", "Objects"}
                      [] KindOf(f, e) = "object" -> {"Data"}
                      [] OTHER -> {}

\* attribute names as written by geoh5py (h5_writer.py write_attributes / entity _attribute_map);
\* the harness discovers the real list with raw h5py and refuses any name that is not listed here.
ProjectAttrs == {"Contributors", "Distance unit", "GA Version", "Version"}
BaseAttrs == {"Allow delete", "Allow move", "Allow rename", "ID", "Name", "Partially hidden", "Public", "Visible"}
EAttrs(f, e) ==
    LET c == ClsOf(f, e) IN
    CASE KindOf(f, e) = "group" -> BaseAttrs
      [] KindOf(f, e) = "data" -> BaseAttrs \cup {"Association", "Modifiable"}
      [] c = "Curve" -> BaseAttrs \cup {"Last focus", "Current line property ID"}
      [] c = "Grid2D" -> BaseAttrs \cup {"Last focus", "Dip", "Origin", "Rotation", "U Count", "U Size",
                                        "V Count", "V Size", "Vertical"}
      [] OTHER -> BaseAttrs \cup {"Last focus"}
Datasets(f, e) ==
    CASE KindOf(f, e) = "data" -> {"Data"}
      [] ClsOf(f, e) = "DrillholeGroup" -> {"Concatenated object IDs"}
      [] ClsOf(f, e) = "Points" -> {"Vertices"}
      [] ClsOf(f, e) \in {"Curve", "Surface"} -> {"Vertices", "Cells"}
      [] OTHER -> {}
PGAttrs == {"Association", "Group Name", "ID", "Properties", "Property Group Type"}
TAttrs(f, t) ==
    CASE f.types[t].tk = "group" -> {"Allow delete contents", "Allow move contents", "Description", "ID", "Name"}
      [] f.types[t].tk = "object" -> {"Description", "ID", "Name"}
      [] OTHER -> {"Description", "Hidden", "ID", "Mapping", "Name", "Primitive type", "Transparent no data"}
TMaps(f, t) == (IF f.types[t].cmap THEN {"Color map"} ELSE {}) \cup (IF f.types[t].vmap THEN {"Value map"} ELSE {})
\* what a DrillholeGroup node holds for its holes (file version 2.1), relative to the node
CatPaths == {"Concatenated Data", "Concatenated Data/Attributes Jsons", "Concatenated Data/Data",
             "Concatenated Data/Data/DEPTH", "Concatenated Data/Data/log", "Concatenated Data/Index",
             "Concatenated Data/Index/DEPTH", "Concatenated Data/Index/Property Group IDs",
             "Concatenated Data/Index/Surveys", "Concatenated Data/Index/log",
             "Concatenated Data/Property Group IDs", "Concatenated Data/Surveys"}
CatFatal == {"Concatenated Data", "Concatenated Data/Attributes Jsons", "Concatenated Data/Data/DEPTH",
             "Concatenated Data/Data/log", "Concatenated Data/Property Group IDs", "Concatenated Data/Surveys"}
FlatContainers == {"Data", "Groups", "Objects", "Types", "Group types", "Object types", "Data types"}

\* ------------------------------------------------------------------ items
\* n = entity index (pattr, flat: Proj), type index (tentry, tattr, tmap, tmapattr) or block index (pgblock, pgattr)
It(k, n, a) == [k |-> k, n |-> n, a |-> a]
Items(f) ==
    {It("pattr", Proj, a) : a \in ProjectAttrs}
    \cup {It("flat", Proj, a) : a \in FlatContainers}
    \cup {It("rootlink", Root, "Root")}
    \cup {It("entry", e, "") : e \in {Root} \cup Stored(f)}
    \cup UNION {{It("eattr", e, a) : a \in EAttrs(f, e)} : e \in {Root} \cup Stored(f)}
    \cup {It("typelink", e, "Type") : e \in {Root} \cup Stored(f)}
    \cup UNION {{It("childcont", e, c) : c \in ChildConts(f, e)} : e \in {Root} \cup Stored(f)}
    \cup {It("childlink", n, "") : n \in Stored(f)}
    \cup UNION {{It("dataset", n, d) : d \in Datasets(f, n)} : n \in Stored(f)}
    \cup UNION {{It("cdata", g, c) : c \in CatPaths} : g \in DrillGroups(f)}
    \cup {It("pgcont", o, "PropertyGroups") : o \in {o \in ObjectNodes(f) : PGsOf(f, o) # {}}}
    \cup {It("pgblock", p, "") : p \in 1..Len(f.pgs)}
    \cup UNION {{It("pgattr", p, a) : a \in PGAttrs} : p \in 1..Len(f.pgs)}
    \cup {It("tentry", t, "") : t \in 1..Len(f.types)}
    \cup UNION {{It("tattr", t, a) : a \in TAttrs(f, t)} : t \in 1..Len(f.types)}
    \cup UNION {{It("tmap", t, m) : m \in TMaps(f, t)} : t \in 1..Len(f.types)}
    \cup {It("tmapattr", t, "File name") : t \in {t \in 1..Len(f.types) : f.types[t].cmap}}

\* ------------------------------------------------------------------ classification by the format documents
\* hierarchy/workspace.rst: Contributors "(Optional)"; Version, Distance unit listed without it; GA Version is
\* not mentioned ("Anything found in a geoh5 v1.0 file which is not mentioned in this document is optional").
\* hierarchy/{groups,objects,data}.rst + textile: Name, ID (and Association of data) without "optional";
\* Visible, Public, Allow *, Clipping IDs, Metadata are optional in at least one of the two documents;
\* Partially hidden, Modifiable, Last focus, Current line property ID, Dip are not mentioned.
\* textile "2D grid type": Origin, U Size, U Count, V Size, V Count required; Rotation, Vertical optional.
\* hierarchy/types.rst: Name, ID, Primitive type required, everything else "(Optional)" or not mentioned;
\* Color map optional; Value map is named optional by the property text.
MandatoryEAttrs(f, e) ==
    {"ID", "Name"}
    \cup (IF KindOf(f, e) = "data" THEN {"Association"} ELSE {})
    \cup (IF ClsOf(f, e) = "Grid2D" THEN {"Origin", "U Size", "U Count", "V Size", "V Count"} ELSE {})
Class(f, i) ==
    CASE i.k = "pattr" -> IF i.a \in {"Version", "Distance unit"} THEN "mandatory" ELSE "optional"
      [] i.k = "flat" -> "mandatory"                      \* "a flat container"
      [] i.k = "rootlink" -> "optional"                   \* "Root: Optional hard link to workspace group"
      [] i.k = "entry" -> "mandatory"                     \* "all ... entities are written into their base folder"
      [] i.k = "tentry" -> "mandatory"
      [] i.k = "typelink" -> "mandatory"                  \* "must include a hard link to their type"
      [] i.k = "childlink" -> "mandatory"                 \* not named optional by the property: weaker clause
      [] i.k = "dataset" -> "mandatory"                   \* Data / Vertices / Cells are listed without "optional"
      [] i.k = "cdata" -> "mandatory"                     \* the datasets of v2 drillhole groups; the documents (v1.0) do
                                                          \* not know them: judged like datasets, by the weaker clause
      [] i.k = "eattr" -> IF i.a \in MandatoryEAttrs(f, i.n) THEN "mandatory" ELSE "optional"
      [] i.k = "childcont" -> IF ContLinks(f, i.n, i.a) = {} THEN "optional" ELSE "mandatory"   \* "an empty child container"
      [] i.k = "pgcont" -> "optional"                     \* PropertyGroups is not mentioned in the documents
      [] i.k = "pgblock" -> "optional"                    \* "a property-group block"
      [] i.k = "pgattr" -> IF i.a \in {"ID", "Group Name"} THEN "mandatory" ELSE "optional"   \* identifier, name
      [] i.k = "tattr" -> IF i.a \in {"ID", "Name", "Primitive type"} THEN "mandatory" ELSE "optional"
      [] i.k = "tmap" -> "optional"                       \* "a colour or value map"
      [] i.k = "tmapattr" -> "optional"

\* entities an item describes: the node owning the attribute / dataset; the linked child of a link; everything
\* stored in a container (its own node when the container is empty); the users of a type; the property group
\* of a block (so the OTHER groups of the same object are bystanders of every item of the block)
Describes(f, i) ==
    CASE i.k = "pattr" -> {Proj}
      [] i.k = "flat" ->
            (CASE i.a = "Data" -> DataNodes(f)
               [] i.a = "Groups" -> {Root} \cup GroupNodes(f)
               [] i.a = "Objects" -> ObjectNodes(f) \cap Stored(f)
               [] i.a = "Types" -> {Root} \cup Nodes(f)
               [] i.a = "Group types" -> {Root} \cup GroupNodes(f)
               [] i.a = "Object types" -> ObjectNodes(f)
               [] i.a = "Data types" -> DataNodes(f) \cup CatNodes(f))
      [] i.k \in {"rootlink", "entry", "eattr", "typelink", "childlink", "dataset"} -> {i.n}
      [] i.k = "pgcont" -> PgEnts(f, i.n)
      [] i.k = "cdata" -> {i.n} \cup Holes(f, i.n)
      [] i.k = "childcont" -> IF ContLinks(f, i.n, i.a) = {} THEN {i.n} ELSE ContLinks(f, i.n, i.a)
      [] i.k \in {"pgblock", "pgattr"} -> {PgEnt(i.n)}
      [] i.k \in {"tentry", "tattr", "tmap", "tmapattr"} -> Users(f, i.n)
Tolerated(f, i) ==
    IF Class(f, i) = "optional" THEN Describes(f, i) ELSE Describes(f, i) \cup Desc(f, Describes(f, i))
Bystanders(f, i) == Ents(f) \ Tolerated(f, i)

\* ------------------------------------------------------------------ model of the reader
\* Stored values that differ from what the class gives when the attribute is absent (the build in
\* harness/reader_files.py sets them so; pinned by experiment on the tree; only used for the
\* predicted outcome, never for the verdict).  map_attributes (shared/utils.py:626-643) skips
\* what is missing and the defaults of Entity.__init__ (shared/entity.py:57-75) stay.
NonDefault(f, e) ==
    CASE e = Root -> {}                                   \* RootGroup defaults = what it writes
      [] KindOf(f, e) = "data" ->
            {"Allow delete", "Allow move", "Allow rename", "Name", "Public", "Visible", "Modifiable"}
            \cup (IF ClsOf(f, e) = "text" THEN {} ELSE {"Association"})      \* default association is OBJECT
      [] ClsOf(f, e) = "Grid2D" ->
            {"Allow delete", "Allow move", "Allow rename", "Public", "Visible", "Origin", "Rotation",
             "U Count", "U Size", "V Count", "V Size"}
      [] OTHER -> {"Allow delete", "Allow move", "Allow rename", "Name", "Public", "Visible"}

\* Workspace.fetch_or_create_root, rebuild branch (workspace.py:564-584 of the snapshot, 569-589 at HEAD): every
\* uid of /Groups (H5Reader.fetch_uuids, h5_reader.py:397-416, link-name order) is loaded by load_entity in that
\* order with parent = the new root unless it was already loaded through a group met earlier.
\* A nested group whose uid sorts before the uids of all its ancestors (the old root included) is therefore
\* loaded flat and stays a child of the new root: named deviation "RebuildRootFlatOrder".
Reparented(f) ==
    {g \in GroupNodes(f) : f.nodes[g].parent # Root /\ \A a \in Anc(f, g) : RankOf(f, g) < RankOf(f, a)}

\* the reader gives up: an exception leaves Workspace.open / the listing of the entities
Fails(f, i) ==
    \/ i.k = "typelink" /\ i.n # Root /\ KindOf(f, i.n) \in {"group", "object"}
          \* fetch_attributes: no "Type" -> type attributes {} -> create_object_or_group falls to the abstract base
    \/ i.k = "flat" /\ i.a = "Objects" /\ ObjectNodes(f) \cap Stored(f) # {}      \* h5file[name]["Objects"] KeyError (h5_reader.py:66)
    \/ i.k = "flat" /\ i.a = "Data" /\ DataNodes(f) # {}
    \/ i.k = "cdata" /\ i.a \in CatFatal        \* Concatenator.fetch_* get None and index / iterate it
    \/ i.k = "tattr" /\ i.a = "ID" /\ f.types[i.n].tk \in {"group", "object"} /\ i.n # 1
          /\ f.types[i.n].cls # "Drillhole"      \* (a hole takes its type from "Object Type ID" of its record)
          \* the class is looked up by the type uid (Workspace.create_object_or_group); RootGroup falls back to its default
    \/ i.k = "eattr" /\ i.a = "Name" /\ ClsOf(f, i.n) = "Grid2D"
          \* ObjectBase.__init__ appends a default name AFTER on_file=True: the setter writes, mode "r" refuses
\* entities that are not reached any more (absent together with their subtrees)
Lost(f, i) ==
    CASE i.k = "entry" -> IF i.n = Root THEN Children(f, Root) ELSE {i.n}
            \* load_entity goes through the flat container (h5_reader.py:63-69): None -> the child is skipped;
            \* the root is read through the Root link but its children through /Groups/{uid} (h5_reader.py:136-140)
      [] i.k = "childlink" -> {i.n}
      [] i.k = "childcont" -> ContLinks(f, i.n, i.a)
      [] i.k = "flat" /\ i.a = "Groups" -> Children(f, Root)        \* fetch_children: entity_type not in file -> {}
      [] i.k = "eattr" /\ i.a = "ID" -> {i.n}
            \* Entity.__init__ draws a fresh uid; children are then looked up under the fresh uid: none
      [] i.k = "typelink" /\ KindOf(f, i.n) = "data" -> {i.n}       \* create_data returns None
      [] i.k = "pgcont" -> PgEnts(f, i.n)                           \* fetch_property_groups: KeyError -> {}
      [] i.k = "pgblock" -> {PgEnt(i.n)}
      [] i.k = "pgattr" /\ i.a = "ID" -> {PgEnt(i.n)}               \* PropertyGroup.__init__ draws a fresh uid
      [] i.k = "tattr" /\ i.a = "Primitive type" -> Users(f, i.n) \ CatNodes(f)   \* create_data finds no class: None
      [] i.k = "dataset" /\ i.a = "Concatenated object IDs" -> Holes(f, i.n)
      [] OTHER -> {}
Changed(f, i) ==
    CASE i.k = "pattr" -> IF i.a = "Version" /\ DrillGroups(f) # {} THEN {} ELSE {Proj}   \* (those are built as 2.1 = default)
      [] i.k = "eattr" -> IF i.a \in NonDefault(f, i.n) THEN {i.n} ELSE {}
      [] i.k = "dataset" -> IF i.a = "Concatenated object IDs" THEN {} ELSE {i.n}
                                                          \* fetch_values / fetch_array_attribute return None
      [] i.k = "cdata" -> Holes(f, i.n)                   \* surveys / logs / depth tables of the holes are not found
      [] i.k = "flat" -> IF i.a \in {"Types", "Data types"} THEN CatNodes(f) ELSE {}   \* fetch_type of the logs raises
      [] i.k = "tentry" -> IF f.types[i.n].cls \in {"catdepth", "catlog"} THEN CatNodes(f) ELSE {}
      [] i.k = "pgattr" ->
            IF \/ i.a = "Properties"
               \/ (i.a = "Group Name" /\ f.pgs[i.n].named)        \* default name "property_group" = an unnamed group's
               \/ (i.a = "Association" /\ ClsOf(f, f.pgs[i.n].obj) = "Grid2D")    \* default VERTEX, grid data are CELL
            THEN {PgEnt(i.n)} ELSE {}
      [] i.k = "tattr" ->
            IF f.types[i.n].cls \in {"catdepth", "catlog"}
            THEN (IF i.a \in {"ID", "Primitive type"} THEN CatNodes(f) ELSE {})
            ELSE (IF f.types[i.n].tk = "data" /\ i.a \in {"Description", "ID"} THEN Users(f, i.n) ELSE {})
      [] i.k \in {"tmap", "tmapattr"} -> Users(f, i.n)
      [] i.k = "rootlink" ->
            {Root} \cup (IF "RebuildRootFlatOrder" \in Deviations THEN Reparented(f) ELSE {})
            \* the old root comes back as an ordinary group below a new root
      [] OTHER -> {}
\* may or may not change: a data type without Name takes the name of the first data loaded with it
\* (data/data.py), i.e. of the user whose uid sorts first - the same name only if that is the data the type was
\* created for.  Only relevant for shared types; the uids of data are not modelled.
MaybeChanged(f, i) ==
    IF i.k = "tattr" /\ i.a = "Name" /\ f.types[i.n].tk = "data" /\ Cardinality(Users(f, i.n)) > 1
    THEN Users(f, i.n) ELSE {}
Read(f, i) ==
    IF Fails(f, i) THEN [err |-> TRUE, absent |-> {}, altered |-> {}, maybe |-> {}, extra |-> 0]
    ELSE LET \* an object without ID: fetch_attributes reads the blocks under the uid of the flat entry, so the
             \* property groups come back (same uid) attached to the object with the fresh uid
             kept == IF i.k = "eattr" /\ i.a = "ID" THEN PgEnts(f, i.n) ELSE {}
             gone == (Lost(f, i) \cup Desc(f, Lost(f, i))) \ kept IN
         [err |-> FALSE, absent |-> gone, altered |-> (Changed(f, i) \cup kept) \ gone,
          maybe |-> MaybeChanged(f, i) \ gone,
          extra |-> IF i.k = "rootlink" \/ (i.k \in {"eattr", "pgattr"} /\ i.a = "ID") THEN 1 ELSE 0]

\* ------------------------------------------------------------------ behaviour
NoItem == It("none", 0, "")
NoOutcome == [err |-> FALSE, absent |-> {}, altered |-> {}, maybe |-> {}, extra |-> 0]
Init == file = EmptyFile /\ stage = 0 /\ phase = "build" /\ item = NoItem /\ outcome = NoOutcome

Ranks(f) == {RankOf(f, g) : g \in {Root} \cup GroupNodes(f)}
MinOf(S) == CHOOSE m \in S : \A x \in S : m <= x
MaxOf(S) == CHOOSE m \in S : \A x \in S : x <= m
HasType(f, tk, cls) == \E t \in 1..Len(f.types) : f.types[t].tk = tk /\ f.types[t].cls = cls
TypeIdx(f, tk, cls) == IF HasType(f, tk, cls)
                       THEN CHOOSE t \in 1..Len(f.types) : f.types[t].tk = tk /\ f.types[t].cls = cls
                       ELSE Len(f.types) + 1
Building(s) == phase = "build" /\ stage <= s /\ stage' = s /\ UNCHANGED <<phase, item, outcome>>

\* ContainerGroup.create(ws, parent=p, uid=...) ; low: the uid sorts below / above every group written so far
AddGroup(p, low) ==
    /\ Building(1)
    /\ Cardinality(ContGroups(file)) < MaxGroups
    /\ LET r == IF low THEN MinOf(Ranks(file)) - 1 ELSE MaxOf(Ranks(file)) + 1
           t == TypeIdx(file, "group", "Container")
       IN file' = [file EXCEPT !.nodes = Append(@, Node("group", "ContainerGroup", p, r, t)),
                                !.types = IF t > Len(@) THEN Append(@, Ty("group", "Container", FALSE, FALSE)) ELSE @]
\* DrillholeGroup.create(ws, parent=p) ; Drillhole.create(ws, parent=group, collar=, surveys=) ;
\* hole.add_data({"log": {"depth": ..., "values": ...}}) - one group node, one concatenated hole, four types
AddDrillGroup(p, low) ==
    /\ Building(1)
    /\ Cardinality(DrillGroups(file)) < MaxDrill
    /\ LET r == IF low THEN MinOf(Ranks(file)) - 1 ELSE MaxOf(Ranks(file)) + 1
           g == Len(file.nodes) + 1
           t == Len(file.types)
       IN file' = [file EXCEPT
                     !.nodes = @ \o <<Node("group", "DrillholeGroup", p, r, t + 1), Node("object", "Drillhole", g, 0, t + 2)>>,
                     !.types = @ \o <<Ty("group", "DrillholeGroup", FALSE, FALSE), Ty("object", "Drillhole", FALSE, FALSE),
                                      Ty("data", "catdepth", FALSE, FALSE), Ty("data", "catlog", FALSE, FALSE)>>]
\* <Class>.create(ws, parent=p, vertices / cells / grid parameters)
AddObject(p, c) ==
    /\ Building(2)
    /\ Cardinality(ObjectNodes(file) \cap Stored(file)) < MaxObjects
    /\ LET t == TypeIdx(file, "object", c)
       IN file' = [file EXCEPT !.nodes = Append(@, Node("object", c, p, 0, t)),
                                !.types = IF t > Len(@) THEN Append(@, Ty("object", c, FALSE, FALSE)) ELSE @]
\* obj.add_data({...}) ; share = 0: new data type, else the existing data type `share`
AddData(o, prim, share) ==
    /\ Building(3)
    /\ Cardinality(DataNodes(file)) < MaxData
    /\ LET t == IF share = 0 THEN Len(file.types) + 1 ELSE share
       IN file' = [file EXCEPT !.nodes = Append(@, Node("data", prim, o, 0, t)),
                                !.types = IF share = 0
                                          THEN Append(@, Ty("data", prim, prim = "floatcmap", prim = "ref"))
                                          ELSE @]
\* obj.find_or_create_property_group(uid=, name= or nothing) + add_properties(members); an unnamed group gets the
\* default name of PropertyGroup.__init__; low: the uid sorts below / above every block written so far
PgRanks(f) == {0} \cup {f.pgs[p].rank : p \in 1..Len(f.pgs)}
AddPG(o, members, named, low) ==
    /\ Building(4)
    /\ Len(file.pgs) < MaxPGs
    /\ (low => Len(file.pgs) > 0)
    /\ (~named => UnnamedPGs /\ \A p \in PGsOf(file, o) : file.pgs[p].named)       \* one default name per object
    /\ LET r == IF low THEN MinOf(PgRanks(file)) - 1 ELSE MaxOf(PgRanks(file)) + 1
       IN file' = [file EXCEPT !.pgs = Append(@, [obj |-> o, members |-> members, named |-> named, rank |-> r])]

\* the single fault: one attribute, link or dataset is removed with raw h5py
DeleteItem(i) ==
    /\ phase = "build" /\ phase' = "faulted" /\ item' = i
    /\ UNCHANGED <<file, stage, outcome>>
\* Workspace(path, mode="r") followed by reading every entity
Open ==
    /\ phase = "faulted" /\ phase' = "opened" /\ outcome' = Read(file, item)
    /\ UNCHANGED <<file, stage, item>>

ShareChoices(prim) == {0} \cup (IF ShareTypes
                                THEN {t \in 1..Len(file.types) : file.types[t].tk = "data" /\ file.types[t].cls = prim}
                                ELSE {})
PGMembers(o) == {m \in SUBSET {d \in Children(file, o) : file.nodes[d].kind = "data" /\ file.nodes[d].cls # "text"} :
                     m # {} /\ Cardinality(m) <= 2}
Next ==
    \/ /\ phase = "build"         \* (guard first: Items(file) is only built where a fault can be injected)
       /\ \/ \E p \in {Root} \cup ContGroups(file), low \in BOOLEAN : AddGroup(p, low)
          \/ \E p \in {Root} \cup ContGroups(file), low \in BOOLEAN : AddDrillGroup(p, low)
          \/ \E p \in {Root} \cup ContGroups(file), c \in ObjClasses : AddObject(p, c)
          \/ \E o \in ObjectNodes(file) \cap Stored(file), prim \in Prims :
                \E share \in ShareChoices(prim) : AddData(o, prim, share)
          \/ \E o \in ObjectNodes(file) \cap Stored(file), named, low \in BOOLEAN : \E m \in PGMembers(o) : AddPG(o, m, named, low)
          \/ \E i \in Items(file) : DeleteItem(i)
    \/ Open
Spec == Init /\ [][Next]_vars

\* ------------------------------------------------------------------ properties
\* C19: the outcome is one the property allows
Allowed(f, i, o) ==
    /\ (Class(f, i) = "optional" => ~o.err)
    /\ (~o.err => (o.absent \cup o.altered \cup o.maybe) \cap Bystanders(f, i) = {})
PropertyHolds == phase = "opened" => Allowed(file, item, outcome)

\* sanity of the item model itself; these quantify over every item of the file, so they are evaluated
\* once per file (in the build phase, before the fault) and not again in the faulted / opened states
EveryItemClassified ==
    (phase = "build") => \A i \in Items(file) : Class(file, i) \in {"optional", "mandatory"}
DescribesSane ==
    (phase = "build") => \A i \in Items(file) :
        /\ Describes(file, i) \subseteq Ents(file)
        /\ (i.k \notin {"flat"} => Describes(file, i) # {})            \* an empty flat container describes nothing
        /\ Bystanders(file, i) \cup Tolerated(file, i) = Ents(file)
        /\ Bystanders(file, i) \cap Tolerated(file, i) = {}
        /\ (Class(file, i) = "optional" => Bystanders(file, i) = Ents(file) \ Describes(file, i))
        /\ (i.k # "pattr" => Proj \in Bystanders(file, i))             \* the header is a bystander of every entity item
\* the kinds the property text names are classified as it names them
NamedByProperty ==
    (phase = "build") => \A i \in Items(file) :
        /\ (i.k \in {"rootlink", "pgblock", "tmap"} => Class(file, i) = "optional")
        /\ (i.k = "childcont" /\ ContLinks(file, i.n, i.a) = {} => Class(file, i) = "optional")
        /\ (i.k \in {"eattr", "tattr"} /\ i.a \in {"ID", "Name"} => Class(file, i) = "mandatory")
        /\ (i.k \in {"typelink", "flat"} => Class(file, i) = "mandatory")
        /\ (i.k = "pattr" /\ i.a = "Contributors" => Class(file, i) = "optional")
\* the fault never changes the file model, the build never continues after the fault
FaultIsSingle == [][phase # "build" => file' = file]_vars
TypeOK ==
    /\ phase \in {"build", "faulted", "opened"}
    /\ (phase = "build" =>
          /\ \A n \in Nodes(file) : file.nodes[n].parent \in {Root} \cup Nodes(file) /\ file.nodes[n].parent < n
          /\ \A n \in Nodes(file) : file.nodes[n].ty \in 1..Len(file.types)
          /\ \A n \in Nodes(file) : KindOf(file, file.nodes[n].parent) = (IF file.nodes[n].kind = "data" THEN "object" ELSE "group")
          /\ \A g, h \in {Root} \cup GroupNodes(file) : g # h => RankOf(file, g) # RankOf(file, h))

\* ------------------------------------------------------------------ export
RECURSIVE SetToSeq(_)     \* increasing order
SetToSeq(S) == IF S = {} THEN <<>> ELSE LET x == MinOf(S) IN <<x>> \o SetToSeq(S \ {x})
FileJson(f) == [nodes |-> f.nodes, types |-> f.types,
                pgs |-> [p \in 1..Len(f.pgs) |-> [obj |-> f.pgs[p].obj, members |-> SetToSeq(f.pgs[p].members),
                                                  named |-> f.pgs[p].named, rank |-> f.pgs[p].rank]]]
ExportFile ==
    (phase = "build") =>
        PrintT(<<"FILE", TLCFP(file), TLCFP(<<file, 1>>),
                 ToJson([file |-> FileJson(file), items |-> Items(file)])>>)
ExportCase ==
    (phase = "opened") =>
        PrintT(<<"CASE", TLCFP(file), TLCFP(<<file, 1>>),
                 ToJson([item |-> item, class |-> Class(file, item),
                         describes |-> SetToSeq(Describes(file, item)),
                         bystanders |-> SetToSeq(Bystanders(file, item)),
                         pred |-> [err |-> outcome.err, absent |-> SetToSeq(outcome.absent),
                                   altered |-> SetToSeq(outcome.altered), maybe |-> SetToSeq(outcome.maybe),
                                   extra |-> outcome.extra],
                         reparented |-> SetToSeq(Reparented(file))])>>)
=============================================================================
