SPECIFICATION Spec
CONSTANTS
  MaxGroups = 0
  MaxObjects = 1
  MaxData = 1
  MaxDrill = 0
  MaxPGs = 1
  ObjClasses = {"Surface", "Grid2D"}
  Prims = {"int"}
  ShareTypes = FALSE
  UnnamedPGs = FALSE
  Deviations = {}
INVARIANT TypeOK
INVARIANT EveryItemClassified
INVARIANT DescribesSane
INVARIANT NamedByProperty
INVARIANT PropertyHolds
INVARIANT ExportFile
INVARIANT ExportCase
PROPERTY FaultIsSingle
CHECK_DEADLOCK FALSE
