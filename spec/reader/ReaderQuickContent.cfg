SPECIFICATION Spec
CONSTANTS
  MaxGroups = 0
  MaxObjects = 1
  MaxData = 2
  MaxDrill = 0
  MaxPGs = 1
  ObjClasses = {"Curve"}
  Prims = {"float", "floatcmap", "ref", "text"}
  ShareTypes = TRUE
  UnnamedPGs = FALSE
  Deviations = {}
INVARIANT TypeOK
INVARIANT EveryItemClassified
INVARIANT DescribesSane
INVARIANT NamedByProperty
INVARIANT PropertyHolds
INVARIANT ExportFile
INVARIANT ExportCase
PROPERTY FaultIsSingle
CHECK_DEADLOCK FALSE
