SPECIFICATION Spec
CONSTANTS
  MaxGroups = 1
  MaxObjects = 2
  MaxData = 1
  MaxPGs = 1
  ObjClasses = {"Points", "Curve", "Surface", "Grid2D"}
  Prims = {"float", "int"}
  ShareTypes = FALSE
  Deviations = {}
INVARIANT TypeOK
INVARIANT EveryItemClassified
INVARIANT DescribesSane
INVARIANT NamedByProperty
INVARIANT PropertyHolds
INVARIANT ExportFile
INVARIANT ExportCase
PROPERTY FaultIsSingle
CHECK_DEADLOCK FALSE
