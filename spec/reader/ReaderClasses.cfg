SPECIFICATION Spec
CONSTANTS
  MaxGroups = 1
  MaxObjects = 2
  MaxData = 1
  MaxDrill = 0
  MaxPGs = 1
  ObjClasses = {"Points", "Curve", "Surface", "Grid2D"}
  Prims = {"float", "int"}
  ShareTypes = FALSE
  UnnamedPGs = FALSE
  Deviations = {}
INVARIANT TypeOK
INVARIANT EveryItemClassified
INVARIANT DescribesSane
INVARIANT NamedByProperty
INVARIANT PropertyHolds
INVARIANT ExportFile
INVARIANT ExportCase
PROPERTY FaultIsSingle
CHECK_DEADLOCK FALSE
