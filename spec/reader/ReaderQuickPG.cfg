SPECIFICATION Spec
CONSTANTS
  MaxGroups = 0
  MaxObjects = 1
  MaxData = 1
  MaxDrill = 0
  MaxPGs = 2
  ObjClasses = {"Points"}
  Prims = {"float"}
  ShareTypes = FALSE
  UnnamedPGs = TRUE
  Deviations = {}
INVARIANT TypeOK
INVARIANT EveryItemClassified
INVARIANT DescribesSane
INVARIANT NamedByProperty
INVARIANT PropertyHolds
INVARIANT ExportFile
INVARIANT ExportCase
PROPERTY FaultIsSingle
CHECK_DEADLOCK FALSE
