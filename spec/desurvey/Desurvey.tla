------------------------------ MODULE Desurvey ------------------------------
(* C18 (first half) - the position computed for a depth lies on the surveyed path.               *)
(*                                                                                             *)
(* Function-style spec: Init chooses a collar and a survey table, the single action Compute     *)
(* evaluates Pos at every query depth of a half-integer grid.  All arithmetic is exact           *)
(* (Rat.tla): survey depths are small integers, directions are unit vectors with rational        *)
(* components (axis directions and Pythagorean triples / quadruples), which the harness turns    *)
(* into azimuth / dip for the API  ( dir = (sin az cos dip, cos az cos dip, sin dip),            *)
(* drillhole.py:752-784 ).                                                                      *)
(*                                                                                             *)
(* The path itself (directions, stations, leg directions, PathD) is defined in SurveyPath.tla,  *)
(* which also documents how the code averages and the named deviation ZeroLegKeepsInDir.         *)
(* TLC checks the property's clauses on the computed result for every table and exports, per      *)
(* case, the ideal positions and the positions the named deviation predicts.                     *)
EXTENDS SurveyPath, FiniteSets, TLC, Json

CONSTANTS
    MaxRows,      \* survey tables have 1..MaxRows rows
    Depths,       \* set of station depths (small naturals); rows are non-decreasing in depth
    Dirs,         \* subset of DOMAIN DirList
    Collars,      \* subset of DOMAIN CollarList
    QMax2,        \* query depths are k/2 for k in 0..QMax2
    Deviations    \* {} = Ideal ; {"ZeroLegKeepsInDir"} = as built ; {"StationsFromInDir"} = negative
                  \* control of the continuity invariants

VARIABLES collar, table, out
vars == <<collar, table, out>>

\* ---------------------------------------------------------------- input space
Row == [d : Depths, dir : Dirs]
NonDecreasing(t) == \A i \in 1..(Len(t) - 1) : t[i].d <= t[i + 1].d
Tables == UNION {{t \in [1..n -> Row] : NonDecreasing(t)} : n \in 1..MaxRows}

\* ---------------------------------------------------------------- behaviour
NoOut == <<>>
Init == /\ collar \in Collars /\ table \in Tables /\ out = NoOut
Compute == /\ out = NoOut
           /\ LET ideal == PathD(CollarList[collar], table, QMax2, {})
                  asb == IF Degenerate(table) THEN PathD(CollarList[collar], table, QMax2, {"ZeroLegKeepsInDir"})
                         ELSE ideal
              IN  out' = [pos |-> IF Deviations = {} THEN ideal
                                  ELSE PathD(CollarList[collar], table, QMax2, Deviations),
                          asbuilt |-> asb]
           /\ UNCHANGED <<collar, table>>
Next == Compute
Spec == Init /\ [][Next]_vars

\* ---------------------------------------------------------------- properties (C18) on the result
Done == out # NoOut
C == CollarList[collar]
P(k) == out.pos[k]                               \* position at depth k/2
NR == Len(table)
LastD == table[NR].d

\* the collar at depth zero
CollarAtZero == Done => P(0) = C

\* varies continuously: a half-unit step in depth never moves the position by more than half a
\* unit (a jump at a station would), and the one-sided limits agree at every station: the piece
\* that ends at a station and the piece that starts there give the same point, which is also the
\* value at the station
StepBounded == Done => \A k \in 0..(QMax2 - 1) : RLe(VNorm2(VSub(P(k + 1), P(k))), R(1, 4))
LimitsAgree ==
    Done => LET S == Stations(table)
                leg == Legs(S, Deviations)
                loc == LocSeq(C, S, LocLegs(S, Deviations), Len(S)) IN
            \A j \in 1..NLegs(S) :
                /\ Piece(S, leg, loc, j, D(S, j + 1)) = Piece(S, leg, loc, j + 1, D(S, j + 1))
                /\ (2 * S[j + 1].d <= QMax2 => P(2 * S[j + 1].d) = Piece(S, leg, loc, j + 1, D(S, j + 1)))

\* within each survey leg the hole moves along the mean of the leg's two station directions;
\* above the first station along the first direction.  Stated on consecutive grid steps
\* (half a depth unit) and without reference to LegDir / LocSeq.
StepIn(k, lo, hi) == 2 * lo <= k /\ k + 1 <= 2 * hi          \* [k/2, (k+1)/2] inside [lo, hi]
Step(k) == VSub(P(k + 1), P(k))
LegAlongMean ==
    Done => /\ \A k \in 0..(QMax2 - 1) :
                 StepIn(k, 0, table[1].d) => Step(k) = VScale(Half, DirList[table[1].dir])
            /\ \A j \in 1..(NR - 1) : \A k \in 0..(QMax2 - 1) :
                 StepIn(k, table[j].d, table[j + 1].d)
                 => Step(k) = VScale(Half, VMean(DirList[table[j].dir], DirList[table[j + 1].dir]))

\* hence by exactly the depth difference where the two station directions coincide
\* (every pair of grid depths inside such a leg)
UnitSpeedOnStraightLegs ==
    Done => \A j \in 1..(NR - 1) :
              table[j].dir = table[j + 1].dir =>
              \A k1, k2 \in (2 * table[j].d)..(2 * table[j + 1].d) :
                 (k1 < k2 /\ k2 <= QMax2) => VNorm2(VSub(P(k2), P(k1))) = RSq(R(k2 - k1, 2))

\* beyond the final survey the hole continues the last direction: that of the last leg
BeyondFollowsLastLeg ==
    Done => \A k \in (2 * LastD)..(QMax2 - 1) :
              Step(k) = VScale(Half, IF NR = 1 THEN DirList[table[1].dir]
                                     ELSE VMean(DirList[table[NR - 1].dir], DirList[table[NR].dir]))

\* ---------------------------------------------------------------- export
\* asbuilt = what the named deviation predicts (the harness recognises the recorded finding by
\* exact agreement with it; any other disagreement with `pos` is a new violation)
ExportCase ==
    Done => PrintT(<<"CASE", ToJson([collar |-> C, collar_id |-> collar, table |-> table,
                                      dirs |-> [i \in 1..NR |-> DirList[table[i].dir]],
                                      pos |-> [k \in 1..(QMax2 + 1) |-> out.pos[k - 1]],
                                      asbuilt |-> [k \in 1..(QMax2 + 1) |-> out.asbuilt[k - 1]]])>>)
=============================================================================
