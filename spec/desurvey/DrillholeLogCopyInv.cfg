SPECIFICATION Spec
CONSTANTS
  MaxAdds = 2
  Ticks = {1000, 2000, 3000}
  MaxLen = 2
  MaxLenI = 1
  MaxSets = 1
  Tols = {10}
  Kinds = {"float"}
  Assocs = {"V", "C"}
  Owns = {FALSE}
  PGs = {0}
  AllowCopy = TRUE
  Deviations = {}
INVARIANT ArraysAligned
INVARIANT VertexAtDepth
INVARIANT CellsJoin
INVARIANT ValuesAttached
PROPERTY OriginalKept
CHECK_DEADLOCK FALSE
