SPECIFICATION Spec
CONSTANTS
  MaxAdds = 2
  Ticks = {1000, 1004, 2000, 3000}
  MaxLen = 2
  MaxLenI = 2
  MaxSets = 1
  Tols = {1, 10}
  Kinds = {"float", "text"}
  Assocs = {"V", "C"}
  Owns = {FALSE}
  PGs = {0}
  AllowCopy = FALSE
  Deviations = {}
INVARIANT ArraysAligned
INVARIANT VertexAtDepth
INVARIANT CellsJoin
INVARIANT ValuesAttached
CHECK_DEADLOCK FALSE
