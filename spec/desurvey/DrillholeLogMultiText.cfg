SPECIFICATION Spec
CONSTANTS
  MaxAdds = 3
  Ticks = {1000, 1004, 2000}
  MaxLen = 2
  MaxLenI = 1
  MaxSets = 3
  Tols = {10}
  Kinds = {"float", "text"}
  Assocs = {"V", "C"}
  Deviations = {}
VIEW vw
INVARIANT ExportPos
INVARIANT ExportState
ACTION_CONSTRAINT ExportTrans
CHECK_DEADLOCK FALSE
