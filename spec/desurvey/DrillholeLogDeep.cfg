SPECIFICATION Spec
CONSTANTS
  MaxAdds = 3
  Ticks = {1000, 1004, 2000, 2500}
  MaxLen = 2
  MaxLenI = 2
  MaxSets = 1
  Tols = {10}
  Kinds = {"float"}
  Assocs = {"V", "C"}
  Owns = {FALSE}
  PGs = {0}
  AllowCopy = FALSE
  Deviations = {}
VIEW vw
INVARIANT ExportPos
INVARIANT ExportState
ACTION_CONSTRAINT ExportTrans
CHECK_DEADLOCK FALSE
