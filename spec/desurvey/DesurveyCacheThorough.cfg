SPECIFICATION Spec
CONSTANTS
  TableIds = {1, 2, 3, 4}
  CollarIds = {2, 3}
  QMax2 = 9
  MaxSteps = 4
  Deviations = {}
VIEW vw
INVARIANT ReadIsCurrent
INVARIANT CacheIsCurrent
INVARIANT ExportPos
INVARIANT ExportState
ACTION_CONSTRAINT ExportTrans
CHECK_DEADLOCK FALSE
