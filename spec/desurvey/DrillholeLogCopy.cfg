SPECIFICATION Spec
CONSTANTS
  MaxAdds = 2
  Ticks = {1000, 2000, 3000}
  MaxLen = 2
  MaxLenI = 1
  MaxSets = 1
  Tols = {10}
  Kinds = {"float"}
  Assocs = {"V", "C"}
  Owns = {FALSE}
  PGs = {0}
  AllowCopy = TRUE
  Deviations = {}
VIEW vw
INVARIANT ExportPos
INVARIANT ExportState
ACTION_CONSTRAINT ExportTrans
CHECK_DEADLOCK FALSE
