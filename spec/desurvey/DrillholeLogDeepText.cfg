SPECIFICATION Spec
CONSTANTS
  MaxAdds = 3
  Ticks = {1000, 1004, 2000, 3000}
  MaxLen = 1
  MaxLenI = 1
  MaxSets = 1
  Tols = {1, 10}
  Kinds = {"float", "text"}
  Assocs = {"V", "C"}
  Owns = {FALSE}
  PGs = {0}
  AllowCopy = FALSE
  Deviations = {}
VIEW vw
INVARIANT ExportPos
INVARIANT ExportState
ACTION_CONSTRAINT ExportTrans
CHECK_DEADLOCK FALSE
