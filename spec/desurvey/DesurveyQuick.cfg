SPECIFICATION Spec
CONSTANTS
  MaxRows = 3
  Depths = {0, 1, 2, 3}
  Dirs = {1, 2, 3, 5, 8}
  Collars = {2}
  QMax2 = 9
  Deviations = {}
INVARIANT CollarAtZero
INVARIANT StepBounded
INVARIANT LimitsAgree
INVARIANT LegAlongMean
INVARIANT UnitSpeedOnStraightLegs
INVARIANT BeyondFollowsLastLeg
INVARIANT ExportCase
CHECK_DEADLOCK FALSE
