-------------------------------- MODULE Rat --------------------------------
(* Exact rational arithmetic for TLC.  A rational is a pair <<num, den>> in lowest terms with   *)
(* den > 0, so that equality of rationals is equality of tuples.  3-vectors are triples of      *)
(* rationals.  TLC integers are 32 bit and TLC raises an error on overflow (never wraps), so a   *)
(* run that finishes has computed exact values.  Sums go through the lcm of the denominators to  *)
(* keep intermediate products small.                                                            *)
EXTENDS Integers, Sequences

Abs(x) == IF x < 0 THEN 0 - x ELSE x

RECURSIVE GCD(_, _)
GCD(a, b) == IF b = 0 THEN a ELSE GCD(b, a % b)          \* a, b >= 0

\* normal form of n/d, d # 0
R(n, d) == LET g == GCD(Abs(n), Abs(d))
               s == IF d < 0 THEN 0 - 1 ELSE 1
           IN  <<(s * n) \div g, (s * d) \div g>>
RInt(k) == <<k, 1>>
Zero == <<0, 1>>
One == <<1, 1>>
Half == <<1, 2>>

IsRat(x) == /\ x \in Seq(Int) /\ Len(x) = 2 /\ x[2] > 0 /\ GCD(Abs(x[1]), x[2]) = 1

RAdd(x, y) == LET g == GCD(x[2], y[2])
                  l == (x[2] \div g) * y[2]               \* lcm of the denominators
              IN  R(x[1] * (l \div x[2]) + y[1] * (l \div y[2]), l)
RNeg(x) == <<0 - x[1], x[2]>>
RSub(x, y) == RAdd(x, RNeg(y))
RMul(x, y) == LET a == R(x[1], y[2])                      \* cross-cancel before multiplying
                  b == R(y[1], x[2])
              IN  <<a[1] * b[1], a[2] * b[2]>>
RHalf(x) == RMul(x, Half)
RLt(x, y) == RSub(x, y)[1] < 0
RLe(x, y) == RSub(x, y)[1] <= 0
RSq(x) == RMul(x, x)

\* ---------------------------------------------------------------- 3-vectors
V3(a, b, c) == <<a, b, c>>
VZero == <<Zero, Zero, Zero>>
VAdd(u, v) == <<RAdd(u[1], v[1]), RAdd(u[2], v[2]), RAdd(u[3], v[3])>>
VSub(u, v) == <<RSub(u[1], v[1]), RSub(u[2], v[2]), RSub(u[3], v[3])>>
VScale(k, u) == <<RMul(k, u[1]), RMul(k, u[2]), RMul(k, u[3])>>
VMean(u, v) == VScale(Half, VAdd(u, v))
VNorm2(u) == RAdd(RSq(u[1]), RAdd(RSq(u[2]), RSq(u[3])))  \* squared Euclidean length
=============================================================================
