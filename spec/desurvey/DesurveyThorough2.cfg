SPECIFICATION Spec
CONSTANTS
  MaxRows = 2
  Depths = {0, 1, 2, 3, 4}
  Dirs = {1, 2, 3, 4, 5, 6, 7, 8, 9, 10, 11, 12, 13, 14}
  Collars = {1, 2, 3}
  QMax2 = 11
  Deviations = {}
INVARIANT CollarAtZero
INVARIANT StepBounded
INVARIANT LimitsAgree
INVARIANT LegAlongMean
INVARIANT UnitSpeedOnStraightLegs
INVARIANT BeyondFollowsLastLeg
INVARIANT ExportCase
CHECK_DEADLOCK FALSE
