---------------------------- MODULE DesurveyCache ----------------------------
(* C18 - the history half of "the position computed for any depth lies on the surveyed path":    *)
(* Drillhole.locations caches the station coordinates in _locations (drillhole.py:174-190); the    *)
(* collar setter (drillhole.py:99-123) and the surveys setter (drillhole.py:248-257) must reset    *)
(* it, otherwise desurvey keeps adding to the stations of an earlier collar / table.              *)
(* State: the current table and collar of one hole and the parameters the cached stations were     *)
(* computed from (<<0, 0>> = no cache).  Query = Drillhole.desurvey on the half-integer grid;      *)
(* its outcome is the pair <<table, collar>> whose path (SurveyPath!PathD) it returns.             *)
EXTENDS SurveyPath, TLC, TLCExt, Json

CONSTANTS
    TableIds,     \* subset of DOMAIN CacheTables
    CollarIds,    \* subset of DOMAIN CollarList
    QMax2,        \* query depths k/2, k \in 0..QMax2
    MaxSteps,     \* length of the histories (the history is part of the state: every sequence of
                  \* setters and queries up to this length is a distinct path of the exported graph -
                  \* a stale cache shows only in Query, setter, Query without another setter between)
    Deviations    \* {} = Ideal ; "SurveysKeepCache", "CollarKeepsCache" = negative controls

VARIABLES tab, col, cache, hist, last
vw == <<tab, col, cache, hist>>
vars == <<vw, last>>

CacheTables == <<
    <<[d |-> 1, dir |-> 2], [d |-> 3, dir |-> 3]>>,
    <<[d |-> 0, dir |-> 1]>>,
    <<[d |-> 2, dir |-> 4], [d |-> 2, dir |-> 5], [d |-> 3, dir |-> 7]>>,
    <<[d |-> 0, dir |-> 9], [d |-> 2, dir |-> 9], [d |-> 3, dir |-> 13]>>
>>
None == <<0, 0>>

Init == /\ tab \in TableIds /\ col \in CollarIds /\ cache = None      \* Drillhole.create(collar, surveys)
        /\ hist = <<>>
        /\ last = [act |-> "Create", args |-> <<tab, col>>, out |-> None]

SetSurveys(t) ==                                                        \* drillhole.py:248-257
    /\ Len(hist) < MaxSteps /\ hist' = Append(hist, <<"S", t>>)
    /\ tab' = t /\ UNCHANGED col
    /\ cache' = IF "SurveysKeepCache" \in Deviations THEN cache ELSE None
    /\ last' = [act |-> "SetSurveys", args |-> <<t>>, out |-> None]
SetCollar(c) ==                                                         \* drillhole.py:99-123
    /\ Len(hist) < MaxSteps /\ hist' = Append(hist, <<"C", c>>)
    /\ col' = c /\ UNCHANGED tab
    /\ cache' = IF "CollarKeepsCache" \in Deviations THEN cache ELSE None
    /\ last' = [act |-> "SetCollar", args |-> <<c>>, out |-> None]
Query ==                                                                \* drillhole.py:174-190, 454-486
    /\ Len(hist) < MaxSteps /\ hist' = Append(hist, <<"Q", 0>>)
    /\ cache' = IF cache = None THEN <<tab, col>> ELSE cache
    /\ UNCHANGED <<tab, col>>
    /\ last' = [act |-> "Query", args |-> <<>>, out |-> cache']

Next == \/ \E t \in TableIds : SetSurveys(t)
        \/ \E c \in CollarIds : SetCollar(c)
        \/ Query
Spec == Init /\ [][Next]_vars

\* the positions read are those of the CURRENT table and collar
ReadIsCurrent == last.act = "Query" => last.out = <<tab, col>>
CacheIsCurrent == cache = None \/ cache = <<tab, col>>

ExportState == PrintT(<<"ST", TLCFP(vw), TLCFP(<<vw, 1>>), ToJson([tab |-> tab, col |-> col, cache |-> cache])>>)
ExportTrans == PrintT(<<"TR", TLCFP(vw), TLCFP(<<vw, 1>>), TLCFP(vw'), TLCFP(<<vw', 1>>), ToJson(last')>>)
PosExport == [tables |-> CacheTables, collars |-> CollarList,
              dirs |-> [t \in 1..Len(CacheTables) |-> [r \in 1..Len(CacheTables[t]) |-> DirList[CacheTables[t][r].dir]]],
              path |-> [t \in 1..Len(CacheTables) |-> [c \in 1..Len(CollarList) |->
                          LET p == PathD(CollarList[c], CacheTables[t], QMax2, {})
                          IN  [k \in 1..(QMax2 + 1) |-> p[k - 1]]]]]
ExportPos == hist # <<>> \/ PrintT(<<"POS", ToJson(PosExport)>>)
=============================================================================
