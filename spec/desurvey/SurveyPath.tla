----------------------------- MODULE SurveyPath -----------------------------
(* C18 - the surveyed path of a drillhole as an exact rational function of depth.  Constant-     *)
(* level definitions shared by Desurvey.tla (function-style check of Drillhole.desurvey),        *)
(* DesurveyCache.tla (collar / surveys setters and the _locations cache) and DrillholeLog.tla     *)
(* (vertices and interval cells created by add_data).                                           *)
(*                                                                                             *)
(* How the code averages (drillhole.py:729-749, compute_deviation): per component                *)
(*     deviation = dl_in + lengths * ((dl_out - dl_in) / lengths) / 2 = (dl_in + dl_out) / 2     *)
(* i.e. the arithmetic mean of the two station UNIT VECTORS (not of the angles, not              *)
(* re-normalised).  The mean of two rational vectors is rational, so every pair of directions    *)
(* of the finite set below is modelled exactly; the hole advances by less than the depth         *)
(* difference on a bending leg and by exactly the depth difference where the two coincide.       *)
(* Drillhole.locations (drillhole.py:174-190) prepends a station at depth 0 carrying the first   *)
(* row's direction and accumulates length * deviation from the collar; Drillhole.desurvey        *)
(* (drillhole.py:454-486) picks the last station strictly above the query depth                  *)
(* (searchsorted side="left" minus one) and continues with the deviation of the last leg         *)
(* beyond the final station (ind_dev = min(ind_loc, n_legs - 1)).                                *)
(* A direction (x, y, z) corresponds to azimuth / dip by                                         *)
(*     (x, y, z) = (sin az cos dip, cos az cos dip, sin dip)        (drillhole.py:752-784).     *)
(*                                                                                             *)
(* Reading of "continues the last direction beyond the final survey": the direction of the last  *)
(* leg, i.e. the mean of the last two station directions (the single direction for one-row       *)
(* tables) - the path has no kink at the final station.                                         *)
(*                                                                                             *)
(* Named deviation ZeroLegKeepsInDir (as built), member of the parameter devs: for a leg of zero length   *)
(* the code's formula degenerates to dl_in (+ 0 * an uninitialised quotient), so when the LAST   *)
(* two rows share their depth the final row's direction is ignored altogether and the hole       *)
(* continues along the second-last row's direction.  Zero-length legs elsewhere are              *)
(* unobservable (their direction is multiplied by a zero length).                               *)
EXTENDS Rat

\* ---------------------------------------------------------------- finite direction / collar sets
U(a, b, c, n) == <<R(a, n), R(b, n), R(c, n)>>          \* (a, b, c)/n with a^2+b^2+c^2 = n^2
DirList == <<
    U(0, 0, 0 - 1, 1),        \*  1 straight down (dip -90)
    U(3, 4, 0, 5),            \*  2 horizontal, azimuth atan(3/4)
    U(0, 3, 0 - 4, 5),        \*  3 due north, dipping
    U(2, 3, 0 - 6, 7),        \*  4
    U(0 - 4, 0, 0 - 3, 5),    \*  5 due west, dipping
    U(1, 0, 0, 1),            \*  6 due east, horizontal
    U(0 - 6, 2, 0 - 3, 7),    \*  7
    U(0, 0, 1, 1),            \*  8 straight up (dip +90)
    U(1, 2, 0 - 2, 3),        \*  9
    U(0 - 2, 0 - 1, 0 - 2, 3),\* 10 south-west quadrant
    U(4, 4, 0 - 7, 9),        \* 11
    U(0, 0 - 1, 0, 1),        \* 12 due south, horizontal
    U(12, 0, 0 - 5, 13),      \* 13
    U(0 - 3, 0 - 4, 12, 13)   \* 14 upwards, south-west
>>
CollarList == <<
    <<RInt(0), RInt(0), RInt(0)>>,
    <<RInt(10), RInt(0 - 20), RInt(30)>>,
    <<R(4937, 4), R(0 - 81, 4), R(611, 2)>>     \* 1234.25, -20.25, 305.5 : exact binary fractions
>>

ASSUME \A i \in DOMAIN DirList : VNorm2(DirList[i]) = One     \* every direction is a unit vector

\* A survey table is a sequence of rows [d |-> depth (natural), dir |-> index into DirList] with
\* non-decreasing depths.

\* stations: the table preceded by a station at depth 0 with the first row's direction
\* (drillhole.py:180-181 and 468-469)
Stations(t) == <<[d |-> 0, dir |-> t[1].dir]>> \o t
D(S, j) == RInt(S[j].d)

\* direction of leg j (between stations j and j+1): mean of the two station unit vectors
\* (drillhole.py:743-747); devs = set of named deviations
LegDir(S, j, devs) ==
    IF "ZeroLegKeepsInDir" \in devs /\ S[j].d = S[j + 1].d
    THEN DirList[S[j].dir]
    ELSE VMean(DirList[S[j].dir], DirList[S[j + 1].dir])

\* locations of stations 1..j: collar + running sum of length * leg direction (drillhole.py:182-188)
RECURSIVE LocSeq(_, _, _, _)
LocSeq(c, S, leg, j) ==
    IF j = 1 THEN <<c>>
    ELSE LET prev == LocSeq(c, S, leg, j - 1)
         IN  Append(prev, VAdd(prev[j - 1], VScale(RInt(S[j].d - S[j - 1].d), leg[j - 1])))

NLegs(S) == Len(S) - 1
\* the piece of the path that starts at station j (for j = Len(S): beyond the final station,
\* continuing the last leg's direction; drillhole.py:476 ind_dev = min(ind_loc, n_legs - 1))
Piece(S, leg, loc, j, q) ==
    VAdd(loc[j], VScale(RSub(q, D(S, j)), leg[IF j <= NLegs(S) THEN j ELSE NLegs(S)]))

\* index of the piece that holds depth q > 0: the last station strictly above q
\* (drillhole.py:471-474 searchsorted(side="left") - 1)
PieceOf(S, q) ==
    IF \E j \in 1..NLegs(S) : RLt(D(S, j), q) /\ RLe(q, D(S, j + 1))
    THEN CHOOSE j \in 1..NLegs(S) : RLt(D(S, j), q) /\ RLe(q, D(S, j + 1))
    ELSE Len(S)

\* leg directions used by desurvey, and those used to accumulate the station locations (the same
\* in the code: both call compute_deviation).  StationsFromInDir is an artificial deviation that
\* exists only as a negative control of the continuity invariants: stations accumulated with the
\* direction at the top of each leg while desurvey interpolates with the mean.
Legs(S, devs) == [j \in 1..NLegs(S) |-> LegDir(S, j, devs)]
LocLegs(S, devs) == IF "StationsFromInDir" \in devs THEN [j \in 1..NLegs(S) |-> DirList[S[j].dir]]
                    ELSE Legs(S, devs)

\* the whole path on a half-integer grid: [k \in 0..qmax2 |-> position at depth k/2]
PathD(c, t, qmax2, devs) ==
    LET S == Stations(t)
        leg == Legs(S, devs)
        loc == LocSeq(c, S, LocLegs(S, devs), Len(S))
    IN  [k \in 0..qmax2 |-> IF k = 0 THEN c ELSE Piece(S, leg, loc, PieceOf(S, R(k, 2)), R(k, 2))]

\* position at one rational depth q >= 0
PosAt(c, t, q, devs) ==
    LET S == Stations(t)
        leg == Legs(S, devs)
        loc == LocSeq(c, S, LocLegs(S, devs), Len(S))
    IN  IF RLe(q, Zero) THEN c ELSE Piece(S, leg, loc, PieceOf(S, q), q)

\* ZeroLegKeepsInDir is observable only through a zero-length leg whose two directions differ
Degenerate(t) == \E j \in 1..(Len(t) - 1) : t[j].d = t[j + 1].d /\ t[j].dir # t[j + 1].dir
=============================================================================
