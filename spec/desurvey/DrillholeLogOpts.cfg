SPECIFICATION Spec
CONSTANTS
  MaxAdds = 2
  Ticks = {1000, 1004, 2000}
  MaxLen = 2
  MaxLenI = 1
  MaxSets = 2
  Tols = {1, 10}
  Kinds = {"float"}
  Assocs = {"V", "C"}
  Owns = {TRUE, FALSE}
  PGs = {0, 1}
  AllowCopy = FALSE
  Deviations = {}
VIEW vw
INVARIANT ExportPos
INVARIANT ExportState
ACTION_CONSTRAINT ExportTrans
CHECK_DEADLOCK FALSE
