SPECIFICATION Spec
CONSTANTS
  TableIds = {1, 2, 3}
  CollarIds = {2, 3}
  QMax2 = 9
  MaxSteps = 3
  Deviations = {}
VIEW vw
INVARIANT ReadIsCurrent
INVARIANT CacheIsCurrent
INVARIANT ExportPos
INVARIANT ExportState
ACTION_CONSTRAINT ExportTrans
CHECK_DEADLOCK FALSE
