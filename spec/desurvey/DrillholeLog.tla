---------------------------- MODULE DrillholeLog ----------------------------
(* C18 (second half) - vertices and interval cells created by Drillhole.add_data                *)
(* (non-concatenated Drillhole: version 1.0 workspaces, or a hole outside a DrillholeGroup).     *)
(*                                                                                             *)
(* State machine.  The state mirrors the arrays the object owns:                                *)
(*   verts    sequence of vertices; a vertex is identified by the depth (in thousandths, a        *)
(*            "tick") whose desurveyed position it was created at - its coordinates are          *)
(*            Pos(tick) of SurveyPath.tla, which is how the harness compares it                  *)
(*   depthArr the DEPTH data (one entry per vertex, NaN for vertices made for intervals)          *)
(*   cells    0-based vertex index pairs;  ft  the FROM / TO data (one pair per cell)             *)
(*   data     one record per add_data call: association V (depth data) or C (interval data),     *)
(*            value kind, and the value array (tokens, NaN = no value)                           *)
(*   added    ghost: every value ever handed to add_data with the depth <<d>> / interval <<f, t>>  *)
(*            and the collocation distance it came with                                          *)
(* Actions follow validate_depth_data (drillhole.py:604-652), validate_interval_data             *)
(* (drillhole.py:501-602), match_values / merge_arrays (shared/utils.py:154-218) and             *)
(* sort_depths (drillhole.py:700-726) statement by statement.  Arrays the code leaves short      *)
(* (it pads them with no-data values when they are read, numeric_data.py:74-97) are kept padded.  *)
(*                                                                                             *)
(* Argument space: depth sets / interval sets in any order, overlapping earlier ones, equal to    *)
(* or within / just outside the collocation distance of earlier ones; the distance itself varies  *)
(* per call.  Not modelled (enabling conditions below): two depths (intervals) of ONE call that   *)
(* are collocated with each other - one array cannot hold two values for one merged vertex - and  *)
(* text depth data that collocates with an existing depth (the code raises ValueError in          *)
(* merge_arrays; nothing is added, so C18 has nothing to say).                                   *)
(*                                                                                             *)
(* Named deviations (as built):                                                                 *)
(*   SortSkipsText       sort_depths permutes vertices, cells and the NumericData children only   *)
(*                       (drillhole.py:714-719): text values stay where they were and are now     *)
(*                       attached to other depths.                                               *)
(*   MidCallDepthShort   a depth set that follows a from-to set inside ONE add_data call merges into   *)
(*                       a DEPTH array that is shorter than the vertex list (see AddDepth).           *)
(*   TextMatchTruncated  validate_interval_data builds the no-data array for text as              *)
(*                       np.array([""] * n_cells), dtype <U1 (drillhole.py:577-578); a text       *)
(*                       value matched to an existing interval is cut to its first character.     *)
(* Artificial deviations, negative controls only: SortKeepsVertices, SortKeepsCells (sort_depths    *)
(* forgetting to permute the vertices / to renumber the cells).                                   *)
EXTENDS SurveyPath, FiniteSets, TLC, TLCExt, Json, IOUtils

CONSTANTS
    MaxAdds,      \* number of data sets in a history (one set = one name of an add_data dictionary)
    MaxSets,      \* largest number of data sets handed to ONE add_data call (sort_depths runs once, after
                  \* the last set of the call, drillhole.py:400-447)
    Ticks,        \* depth values in thousandths, e.g. {1000, 1004, 2000, 3000}
    MaxLen,       \* largest number of depths per set
    MaxLenI,      \* largest number of intervals per set
    Tols,         \* collocation distances in thousandths, e.g. {1, 10}
    Kinds,        \* subset of {"float", "text"}
    Assocs,       \* subset of {"V", "C"} : depth data / interval data
    Owns,         \* subset of BOOLEAN: FALSE = the call passes collocation_distance as its argument (one
                  \* distance for all sets); TRUE = no argument, every set carries its own
                  \* "collocation_distance" key - or none when it equals the hole's default 0.01 -
                  \* (drillhole.py validate_data: argument, else the set's key, else the default)
    PGs,          \* property_group argument of the call: 0 = none, n > 0 = the group "pg<n>"
    AllowCopy,    \* whether the history may contain one Drillhole.copy()
    Deviations    \* named deviations switched on by the cfg (the harness adds more through the
                  \* environment: C18_DEV_<name>=1, see EnvDevs)

VARIABLES verts, hasDepth, depthArr, cells, hasFT, ft, data, added, inCall, callTol, callOpt, dshort, calls,
          frozen, last
\* inCall  = number of sets of the add_data call in progress (0 between calls; the harness observes
\*           the object only between calls), callTol = its collocation distance
\* dshort  = how many entries the stored DEPTH array is shorter than the vertex list (see
\*           MidCallDepthShort; always 0 in the ideal specification and between calls)
\* calls   = ghost: the `more` flag and the call arguments of every set so far, so that histories which differ only in how
\*           the sets were grouped into calls stay distinct paths of the exported graph (the object
\*           may hide state the model does not have, e.g. cached arrays)
\* callOpt = [own, pg] of the call in progress
\* frozen  = <<>>, or the arrays of the hole at the moment it was copied: from then on the actions
\*           act on the COPY and the original must stay as it was
vw == <<verts, hasDepth, depthArr, cells, hasFT, ft, data, added, inCall, callTol, callOpt, dshort, calls, frozen>>
vars == <<vw, last>>

AllDevs == {"SortSkipsText", "TextMatchTruncated", "MidCallDepthShort"}
EnvDevs == {d \in AllDevs : ("C18_DEV_" \o d) \in DOMAIN IOEnv}
Devs == Deviations \cup EnvDevs

NaN == 0 - 1
Tok(k, j) == k * 10 + j                  \* value token of the j-th element of the k-th call
Trunc(tok) == 0 - (100 + tok)            \* the token cut to its first character
Rep(x, n) == [i \in 1..n |-> x]
Max(S) == CHOOSE x \in S : \A y \in S : y <= x
Min(S) == CHOOSE x \in S : \A y \in S : x <= y
Range(s) == {s[i] : i \in DOMAIN s}
SortedSeq(S) == [r \in 1..Cardinality(S) |-> CHOOSE x \in S : Cardinality({y \in S : y < x}) = r - 1]
IndexIn(s, x) == CHOOSE i \in DOMAIN s : s[i] = x
Pick(s, idx) == [r \in 1..Len(idx) |-> s[idx[r]]]     \* s restricted to the index sequence idx

\* ---------------------------------------------------------------- collocation
Near1(a, b, tol) == a # NaN /\ b # NaN /\ Abs(a - b) < tol                 \* utils.py:173-175
Near2(p, q, tol) ==                                                        \* drillhole.py:559-561
    (p[1] - q[1]) * (p[1] - q[1]) + (p[2] - q[2]) * (p[2] - q[2]) < tol * tol

\* ---------------------------------------------------------------- argument space
InjSeqs(S, n) == UNION {{s \in [1..m -> S] : \A i, j \in 1..m : i # j => s[i] # s[j]} : m \in 1..n}
DepthArgs(tol) == {s \in InjSeqs(Ticks, MaxLen) :
                      \A i, j \in DOMAIN s : i # j => ~Near1(s[i], s[j], tol)}
Intervals == {p \in Ticks \X Ticks : p[2] - p[1] >= 100}
IntervalArgs(tol) == {s \in InjSeqs(Intervals, MaxLenI) :
                         \A i, j \in DOMAIN s : i # j => ~Near2(s[i], s[j], tol)}

\* ---------------------------------------------------------------- sort_depths (drillhole.py:700-726)
\* np.argsort: ascending, NaN last, ties in index order
Key(arr, i) == IF arr[i] = NaN THEN 1000000 ELSE arr[i]
Before(arr, i, j) == Key(arr, i) < Key(arr, j) \/ (Key(arr, i) = Key(arr, j) /\ i < j)
SortInd(arr) == [r \in 1..Len(arr) |->
                    CHOOSE i \in DOMAIN arr : Cardinality({j \in DOMAIN arr : Before(arr, j, i)}) = r - 1]
InvPerm(si) == [i \in 1..Len(si) |-> CHOOSE r \in 1..Len(si) : si[r] = i]
\* np.all(np.diff(depths) >= 0): a NaN anywhere makes the comparison false
NonDecreasingArr(arr) == \A i \in 1..(Len(arr) - 1) : arr[i] # NaN /\ arr[i + 1] # NaN /\ arr[i] <= arr[i + 1]

SortDepths(s) ==     \* s = [verts, depthArr, cells, data] after the addition, DEPTH data present
    IF NonDecreasingArr(s.depthArr) THEN s
    ELSE LET si == SortInd(s.depthArr)
             inv == InvPerm(si)            \* np.argsort(sort_ind), drillhole.py:725
         IN  [verts |-> IF "SortKeepsVertices" \in Devs THEN s.verts ELSE Pick(s.verts, si),   \* :721-722
              depthArr |-> Pick(s.depthArr, si),
              cells |-> IF "SortKeepsCells" \in Devs THEN s.cells
                        ELSE [c \in 1..Len(s.cells) |->                           \* :724-726
                                 <<inv[s.cells[c][1] + 1] - 1, inv[s.cells[c][2] + 1] - 1>>],
              data |-> [k \in 1..Len(s.data) |->                                  \* :714-719
                           IF s.data[k].assoc = "V"
                              /\ (s.data[k].kind # "text" \/ "SortSkipsText" \notin Devs)
                           THEN [s.data[k] EXCEPT !.vals = Pick(@, si)]
                           ELSE s.data[k]]]

\* pad the existing value arrays when nv vertices and nc cells are appended
Padded(dt, nv, nc) == [k \in 1..Len(dt) |->
                          [dt[k] EXCEPT !.vals = @ \o Rep(NaN, IF dt[k].assoc = "V" THEN nv ELSE nc)]]

\* a set may be followed by another one of the same call (more) as long as the bounds allow
NoOpt == [own |-> FALSE, pg |-> 0]
CallOK(tol, more, opt) ==
    /\ Len(data) < MaxAdds
    /\ opt.own \in Owns /\ opt.pg \in PGs
    /\ inCall > 0 => (opt = callOpt /\ (~opt.own => tol = callTol))   \* the arguments belong to the call;
                                                                     \* own keys may differ from set to set
    /\ more => (inCall + 1 < MaxSets /\ Len(data) + 1 < MaxAdds)

\* s0 = arrays after the set; sort_depths only after the last set of the call
Commit(s0, more, opt, k, assoc, kind, tol, at, toks) ==
    LET s == IF more \/ ~hasDepth' THEN s0 ELSE SortDepths(s0) IN
    /\ verts' = s.verts /\ depthArr' = s.depthArr /\ cells' = s.cells /\ data' = s.data
    /\ inCall' = (IF more THEN inCall + 1 ELSE 0) /\ callTol' = (IF more THEN tol ELSE 0)
    /\ callOpt' = (IF more THEN opt ELSE NoOpt) /\ UNCHANGED frozen
    /\ calls' = Append(calls, [more |-> more, own |-> opt.own, pg |-> opt.pg])
    /\ added' = added \cup {[k |-> k, assoc |-> assoc, kind |-> kind, at |-> at[j], tol |-> tol, tok |-> toks[j]]
                            : j \in DOMAIN at}
    /\ last' = [act |-> IF assoc = "V" THEN "AddDepth" ELSE "AddInterval",
                args |-> [name |-> k, kind |-> kind, tol |-> tol, at |-> at, toks |-> toks, more |-> more,
                          own |-> opt.own, pg |-> opt.pg],
                out |-> "ok"]

\* ---------------------------------------------------------------- add_data with a "depth" key
\* rows of the mapping match_values(head, <<b>>) returns for one query depth b (utils.py:168-177):
\* the two neighbours of b in the sorted head (position of the first element > b, capped, and the
\* one before it, index -1 wrapping to the end) that lie within the collocation distance
MatchRows(head, b, tol) ==
    LET n == Len(head)
        si == SortInd(head)
        cnt == Cardinality({i \in 1..n : head[i] # NaN /\ head[i] <= b})   \* searchsorted side="right"
        p0 == IF cnt < n - 1 THEN cnt ELSE n - 1
        cand == <<si[p0 + 1], si[IF p0 = 0 THEN n ELSE p0]>>
    IN  SelectSeq(cand, LAMBDA a : Near1(head[a], b, tol))

\* MidCallDepthShort (as built): a from-to set appends vertices but leaves the stored DEPTH array
\* as it is; it is padded only by the re-sort at the end of the call (or when read from the file).
\* A depth set that follows in the SAME call merges into the short array
\* (validate_depth_data assumes len(self.depths.values) = n_vertices, drillhole.py:637-650): the new
\* depths are written at the indices of the interval vertices and the vertices created for them
\* get no depth.  head = the stored array.
AddDepth(kind, tol, ds, more, opt) ==
    LET k == Len(data) + 1
        m == Len(ds)
        n == Len(verts)
        toks == [j \in 1..m |-> Tok(k, j)]
        head == IF hasDepth THEN SubSeq(depthArr, 1, n - dshort) ELSE <<>>
        rows == [j \in 1..m |-> IF hasDepth THEN MatchRows(head, ds[j], tol) ELSE <<>>]
        unm == SelectSeq([j \in 1..m |-> j], LAMBDA j : rows[j] = <<>>)    \* np.delete(depth, indices[:, 1])
        hits(a) == {j \in 1..m : a \in Range(rows[j])}
        headVals == [a \in 1..n |-> IF hits(a) = {} THEN NaN ELSE toks[Max(hits(a))]]  \* head[a] = tail[b], last wins
        s0 == [verts |-> verts \o Pick(ds, unm),                                \* add_vertices(desurvey(...))
               depthArr |-> (IF hasDepth THEN head ELSE Rep(NaN, n)) \o Pick(ds, unm) \o Rep(NaN, dshort), \* :630-632, :650
                                                      \* (the values setter pads at the end, numeric_data.py:83-86)
               cells |-> cells,
               data |-> Append(Padded(data, Len(unm), 0),
                               [assoc |-> "V", kind |-> kind, vals |-> headVals \o Pick(toks, unm)])]
    IN  /\ "V" \in Assocs
        /\ CallOK(tol, more, opt)
        /\ ds \in DepthArgs(tol)
        /\ kind = "text" => unm = [j \in 1..m |-> j]          \* not modelled: text merged into existing depths
        /\ hasDepth' = TRUE /\ dshort' = 0 /\ UNCHANGED <<hasFT, ft>>
        /\ Commit(s0, more, opt, k, "V", kind, tol, [j \in 1..m |-> <<ds[j]>>], toks)

\* ---------------------------------------------------------------- add_data with a "from-to" key
AddInterval(kind, tol, ivs, more, opt) ==
    LET k == Len(data) + 1
        m == Len(ivs)
        n == Len(verts)
        nc == Len(cells)
        toks == [j \in 1..m |-> Tok(k, j)]
        near(j) == IF hasFT THEN {c \in 1..nc : Near2(ivs[j], ft[c], tol)} ELSE {}   \* :558-563, first match
        unm == SelectSeq([j \in 1..m |-> j], LAMBDA j : near(j) = {})
        hits(c) == {j \in 1..m : near(j) # {} /\ Min(near(j)) = c}
        stored(tok) == IF kind = "text" /\ "TextMatchTruncated" \in Devs THEN Trunc(tok) ELSE tok
        headVals == [c \in 1..nc |-> IF hits(c) = {} THEN NaN ELSE stored(toks[Max(hits(c))])]   \* :583-588
        uni == SortedSeq(UNION {{ivs[j][1], ivs[j][2]} : j \in Range(unm)})      \* np.unique, :530 / :572-574
        newCells == [r \in 1..Len(unm) |-> <<n + IndexIn(uni, ivs[unm[r]][1]) - 1,
                                            n + IndexIn(uni, ivs[unm[r]][2]) - 1>>]
        s0 == [verts |-> verts \o uni,
               depthArr |-> IF hasDepth THEN depthArr \o Rep(NaN, Len(uni)) ELSE depthArr,
               cells |-> cells \o newCells,                                      \* :531, :589-594
               data |-> Append(Padded(data, Len(uni), Len(unm)),
                               [assoc |-> "C", kind |-> kind, vals |-> headVals \o Pick(toks, unm)])]
    IN  /\ "C" \in Assocs
        /\ CallOK(tol, more, opt)
        /\ ivs \in IntervalArgs(tol)
        /\ hasFT' = TRUE /\ ft' = ft \o Pick(ivs, unm) /\ UNCHANGED hasDepth      \* :534-553, :595-600
        /\ dshort' = (IF more /\ hasDepth /\ "MidCallDepthShort" \in Devs THEN dshort + Len(uni) ELSE 0)
        /\ Commit(s0, more, opt, k, "C", kind, tol, ivs, toks)

\* ---------------------------------------------------------------- behaviour
Init == /\ verts = <<>> /\ hasDepth = FALSE /\ depthArr = <<>> /\ cells = <<>> /\ hasFT = FALSE
        /\ ft = <<>> /\ data = <<>> /\ added = {} /\ inCall = 0 /\ callTol = 0 /\ callOpt = NoOpt /\ dshort = 0 /\ calls = <<>>
        /\ frozen = <<>>
        /\ last = [act |-> "Init", args |-> <<>>, out |-> "ok"]
\* Drillhole.copy() (object_base.py copy / workspace copy_to_parent): the copy gets the vertices, the
\* cells and a copy of every child; the history goes on with the copy, the original is frozen
Snapshot == [verts |-> verts, hasDepth |-> hasDepth, depth |-> depthArr, cells |-> cells, ft |-> ft, data |-> data]
Copy == /\ AllowCopy /\ frozen = <<>> /\ inCall = 0 /\ Len(data) >= 1 /\ Len(data) < MaxAdds
        /\ frozen' = Snapshot
        /\ last' = [act |-> "Copy", args |-> <<>>, out |-> "ok"]
        /\ UNCHANGED <<verts, hasDepth, depthArr, cells, hasFT, ft, data, added, inCall, callTol, callOpt, dshort, calls>>

Next == \/ \E kind \in Kinds, tol \in Tols, more \in BOOLEAN, own \in Owns, pg \in PGs :
              LET opt == [own |-> own, pg |-> pg] IN
              \/ \E ds \in DepthArgs(tol) : AddDepth(kind, tol, ds, more, opt)
              \/ \E ivs \in IntervalArgs(tol) : AddInterval(kind, tol, ivs, more, opt)
        \/ Copy
Spec == Init /\ [][Next]_vars

\* ---------------------------------------------------------------- properties (C18)
\* positions for one collar and survey table of the lists below (any would do: Pos is injective on
\* the ticks); the harness replays every history on each of LogTables
LogTables == <<
    <<[d |-> 1, dir |-> 2], [d |-> 3, dir |-> 3]>>,                          \* bends at depths 1 and 3
    <<[d |-> 0, dir |-> 1]>>,                                                \* vertical
    <<[d |-> 2, dir |-> 4], [d |-> 2, dir |-> 5], [d |-> 4, dir |-> 7]>>     \* duplicated station at 2
>>
LogCollar == CollarList[2]
PosTab == [d \in Ticks |-> PosAt(LogCollar, LogTables[1], R(d, 1000), {})]

ArraysAligned ==
    /\ Len(ft) = Len(cells) /\ (hasDepth => Len(depthArr) = Len(verts))
    /\ \A k \in DOMAIN data : Len(data[k].vals) = IF data[k].assoc = "V" THEN Len(verts) ELSE Len(cells)
    /\ \A c \in DOMAIN cells : cells[c][1] \in 0..(Len(verts) - 1) /\ cells[c][2] \in 0..(Len(verts) - 1)

\* every vertex created for depth data sits at the position of its depth
VertexAtDepth == hasDepth => \A i \in DOMAIN verts :
                               depthArr[i] # NaN => PosTab[verts[i]] = PosTab[depthArr[i]]
\* every interval cell joins the positions of its from and to depths
CellsJoin == \A c \in DOMAIN cells : /\ PosTab[verts[cells[c][1] + 1]] = PosTab[ft[c][1]]
                                     /\ PosTab[verts[cells[c][2] + 1]] = PosTab[ft[c][2]]
\* each added value is attached to its depth / interval (up to the collocation distance it was
\* added with), whatever was added later
AttachedAt(a, i) ==
    /\ data[a.k].vals[i] = a.tok
    /\ IF a.assoc = "V" THEN hasDepth /\ Near1(depthArr[i], a.at[1], a.tol) ELSE Near2(ft[i], a.at, a.tol)
Attached(a) == \E i \in DOMAIN data[a.k].vals : AttachedAt(a, i)
Lost == {a \in added : ~Attached(a)}
\* and shows up nowhere else
Stray == {p \in (DOMAIN data) \X (1..(Len(verts) + Len(cells))) :
            /\ p[2] \in DOMAIN data[p[1]].vals
            /\ data[p[1]].vals[p[2]] # NaN
            /\ ~\E a \in added : a.k = p[1] /\ AttachedAt(a, p[2])}
ValuesAttached == Lost = {} /\ Stray = {}

\* the original of a copy stays as it was
OriginalKept == [][frozen # <<>> => frozen' = frozen]_vars

\* ---------------------------------------------------------------- export
Obs == [verts |-> verts, hasDepth |-> hasDepth, depth |-> depthArr, cells |-> cells, ft |-> ft,
        data |-> data, inCall |-> inCall, frozen |-> frozen,
        aligned |-> ArraysAligned, vertexAtDepth |-> VertexAtDepth, cellsJoin |-> CellsJoin,
        lost |-> {[k |-> a.k, tok |-> a.tok, assoc |-> a.assoc, kind |-> a.kind] : a \in Lost},
        stray |-> {[k |-> p[1], kind |-> data[p[1]].kind, assoc |-> data[p[1]].assoc] : p \in Stray}]
ExportState == PrintT(<<"ST", TLCFP(vw), TLCFP(<<vw, 1>>), ToJson(Obs)>>)
ExportTrans == PrintT(<<"TR", TLCFP(vw), TLCFP(<<vw, 1>>), TLCFP(vw'), TLCFP(<<vw', 1>>), ToJson(last')>>)

\* positions of every tick (and of depth 0) on every table of LogTables, printed once
TickSeq == SortedSeq(Ticks \cup {0})
PosExport == [tables |-> LogTables, collar |-> LogCollar, ticks |-> TickSeq,
              pos |-> [t \in 1..Len(LogTables) |->
                          [i \in 1..Len(TickSeq) |-> PosAt(LogCollar, LogTables[t], R(TickSeq[i], 1000), {})]],
              dirs |-> [t \in 1..Len(LogTables) |-> [r \in 1..Len(LogTables[t]) |-> DirList[LogTables[t][r].dir]]],
              devs |-> Devs]
ExportPos == hasDepth \/ hasFT \/ PrintT(<<"POS", ToJson(PosExport)>>)     \* true; prints in the initial state only
=============================================================================
