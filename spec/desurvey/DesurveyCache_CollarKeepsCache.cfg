SPECIFICATION Spec
CONSTANTS
  TableIds = {1, 2, 3, 4}
  CollarIds = {1, 2, 3}
  QMax2 = 9
  MaxSteps = 3
  Deviations = {"CollarKeepsCache"}
INVARIANT ReadIsCurrent
CHECK_DEADLOCK FALSE
