SPECIFICATION Spec
CONSTANTS
  MaxRows = 2
  Depths = {0, 1, 2, 3}
  Dirs = {1, 2, 3, 5, 8}
  Collars = {2}
  QMax2 = 9
  Deviations = {"StationsFromInDir"}
INVARIANT LimitsAgree
CHECK_DEADLOCK FALSE
