\* negative control: with the named deviation RepeatAccepted TLC must report RepeatRefused violated
SPECIFICATION Spec
CONSTANTS
  ReadOps = {"object.get"}
  WriteOps = {"object.set", "ws.remove"}
  ProbeOps = {"ws.set", "object.call"}
  RepeatOps = {"object.set"}
  Helpers = {"read_ui_json", "monitored_copy"}
  MaxVersion = 5
  MaxDepth = 5
  Deviations = {"RepeatAccepted"}
CONSTRAINT DepthBound
VIEW vw
INVARIANT TypeOK
PROPERTY RepeatRefused
CHECK_DEADLOCK FALSE
