------------------------------ MODULE ReadOnly ------------------------------
(* C10 - "Read-only workspaces never change the file".                                          *)
(*                                                                                              *)
(* One user-held Workspace object on one .geoh5 file (the SOURCE file).  The state is what C10  *)
(* speaks about and nothing more:                                                               *)
(*   mode        - mode of the h5py handle of the workspace: "closed" | "r" | "r+"              *)
(*                 (Workspace._geoh5 and its mode, workspace.py:119,1000-1008)                  *)
(*   fileVersion - abstract token of the source file: it changes iff the file changes.  While   *)
(*                 mode is "r" or "closed" the harness observes it at the finest grain          *)
(*                 (SHA-256 of the bytes), while mode is "r+" at the grain of the raw content   *)
(*                 digest (an open writable HDF5 file has transient bytes).                     *)
(*   live        - abstract token of the in-memory objects: "sync" = as loaded from the file,   *)
(*                 "refused" = nothing but refused mutating calls since the load (a refusal     *)
(*                 may have detached a child or changed the one attribute it was asked to       *)
(*                 assign, but it never makes the library believe an entity is not stored: every *)
(*                 assignment still has to write and must still be refused),                    *)
(*                 "any" = unconstrained (after a refused write the setter has already changed  *)
(*                 the attribute in memory, a refused removal has already detached the child,   *)
(*                 Workspace.repack may have been raised ...: DESIGN.md section 8, C10 bullet). *)
(*                 Exact raise / no-raise verdicts are only specified for live = "sync" on the  *)
(*                 pristine file (the state in which the harness classified the entry points).  *)
(*   ctx         - the fetch_active_workspace context the user is in (shared/utils.py:95-123):  *)
(*                 "none" | "keep" (workspace yielded as it was) | "close" (re-opened by the    *)
(*                 helper, closed again when the with-block is left)                            *)
(*   rep         - "none", or the setter class whose assignment has just been refused on the    *)
(*                 pristine read-only workspace: the identical assignment can be repeated       *)
(*   last        - observation of the last action (never part of the VIEW): act, args, out and  *)
(*                 wopen = "a writable handle on the source file was opened during the step"    *)
(*                 (the harness sees every h5py.File that is opened, also the transient ones)   *)
(*                                                                                              *)
(* The alphabet is abstract: an operation class is "<holder kind>.<verb>" (holder kinds ws,     *)
(* group, object, data, pgroup, type; verbs get, set, create, remove, copy, save, call).  The   *)
(* harness binds Read(op) / Write(op) / Probe(op) to the real public entry points discovered    *)
(* reflectively, each classified by its effect in mode r+ on a scratch copy of the fixture:     *)
(*   Read  : property getters that return normally and leave the content unchanged              *)
(*   Write : entry points whose call changes the content of the file in mode r+                 *)
(*   Probe : every other call (no effect on the file in r+; may or may not need a writable      *)
(*           handle, e.g. save_entity of an unchanged entity; memory-only setters)              *)
EXTENDS Naturals, FiniteSets, TLC, TLCExt, Json

CONSTANTS ReadOps, WriteOps, ProbeOps,   \* operation classes (sets of strings)
          Helpers,                       \* helpers that open the file for reading on the user's behalf
          RepeatOps,                     \* operation classes whose refused call can be repeated verbatim (setters)
          MaxVersion,                    \* bound on the number of content changes in one behaviour (= MaxDepth: never binding)
          MaxDepth,
          Deviations                     \* named as-built deviations; {} = Ideal

VARIABLES mode, fileVersion, live, ctx, rep, last
vw   == <<mode, fileVersion, live, ctx, rep>>
vars == <<mode, fileVersion, live, ctx, rep, last>>

Modes == {"closed", "r", "r+"}
Outs  == {"ok", "refused"}
Pristine == fileVersion = 0
Exact == Pristine /\ live = "sync"       \* the state in which the binding was classified
Firm  == Pristine /\ live \in {"sync", "refused"}   \* only refusals since: assignments keep their exact verdict
ObsW(act, args, out, w) == last' = [act |-> act, args |-> args, out |-> out, wopen |-> w]
Obs(act, args, out) == ObsW(act, args, out, FALSE)

Init ==
    /\ mode = "closed" /\ fileVersion = 0 /\ live = "sync" /\ ctx = "none" /\ rep = "none"
    /\ last = [act |-> "Init", args |-> [x |-> 0], out |-> "ok", wopen |-> FALSE]

\* ------------------------------------------------------------------ open / close
\* Workspace(path, mode=m) / Workspace.open(mode=m) (workspace.py:1183-1215): the tree is re-loaded
\* from the file, registries are reset; nothing is written.
\* Loading a file whose content is no longer the pristine one may fail (C10 says nothing about what a writable
\* session left behind, e.g. two entities for one node after a uid was re-assigned): outcome unconstrained there, a
\* failed open leaves no handle.
Open(m) ==
    /\ mode = "closed" /\ ctx = "none" /\ m \in {"r", "r+"}
    /\ \E out \in Outs :
         /\ (Pristine => out = "ok")
         /\ IF out = "ok" THEN mode' = m /\ live' = "sync" /\ ObsW("Open", [m |-> m], out, m = "r+")
                          ELSE /\ UNCHANGED <<mode, live>>
                               /\ \E w \in {FALSE, m = "r+"} : ObsW("Open", [m |-> m], out, w)
    /\ UNCHANGED <<fileVersion, ctx>>
    /\ rep' = "none"

\* Workspace.open(mode=m) on a workspace that is already open (workspace.py:1189-1191): warns and
\* returns self - in particular open("r+") never upgrades a read-only handle.
ReOpen(m) ==
    /\ mode # "closed" /\ m \in {"r", "r+"}
    /\ UNCHANGED <<mode, fileVersion, live, ctx>>
    /\ Obs("ReOpen", [m |-> m], "ok")
    /\ rep' = "none"

\* Workspace.close / finalize / leaving the with-block (workspace.py:184-218).  Only a writable handle
\* performs the final save of the root sub-tree (it may purge, i.e. write, after earlier writes);
\* the repack step (h5repack, file replaced) belongs to a writable session as well: a read-only
\* workspace has nothing to repack.  As built, the repack step is not guarded by the mode: named
\* deviation RepackOnReadOnlyClose (the flag Workspace.repack is part of `live`: it can be raised by the
\* user or, in memory, by a refused write on a concatenated entity, concatenator.py:522,604).
Hows == {"close", "finalize", "exit"}
\* what releasing the handle may do to the file
Released(v) ==
    \/ v = fileVersion
    \/ /\ mode = "r+" /\ ~Exact /\ fileVersion < MaxVersion         \* final save / purge / repack after writes
       /\ v = fileVersion + 1
    \/ /\ "RepackOnReadOnlyClose" \in Deviations /\ mode = "r" /\ live # "sync" /\ fileVersion < MaxVersion
       /\ v = fileVersion + 1
\* A WRITABLE handle whose in-memory side is no longer the classified one (after writes, or after a call whose effect
\* the model does not know, live = "any") is outside C10: its final save may do anything to the content and may fail
\* (then the handle may or may not have been released).  Read-only and pristine-writable handles are released with
\* outcome ok.
Loose == mode = "r+" /\ ~Exact
ReleaseOutcome(act, args) ==
    \E out \in Outs :
        /\ (~Loose => out = "ok")
        /\ Obs(act, args, out)
        /\ IF out = "ok" THEN mode' = "closed" ELSE mode' \in {"closed", "r+"}
Close(how) ==
    /\ mode # "closed"
    /\ ReleaseOutcome("Close", [how |-> how])
    /\ Released(fileVersion')
    /\ UNCHANGED <<live, ctx>>
    /\ rep' = "none"

\* Workspace.save_as(path) (workspace.py:1273-1303): closes, copies the file and re-targets the
\* workspace object to the copy (re-opened in the mode the workspace was constructed with).  From the
\* point of view of the source file the handle is gone.
SaveAs ==
    /\ mode # "closed" /\ ctx = "none"
    /\ ReleaseOutcome("SaveAs", [x |-> 0])
    /\ Released(fileVersion')
    /\ UNCHANGED <<live, ctx>>
    /\ rep' = "none"

\* ------------------------------------------------------------------ the reflective alphabet
\* Non-mutating entry points (getters, incl. the lazily loading ones: values, metadata,
\* property_groups, visual_parameters, comments ...): outcome ok, file and mode unchanged.
\* (In mode "r+" Read and Probe are only explored in the state the binding was classified in; what getters do to a
\* modified writable workspace - e.g. ws.groups purging dead references - is the business of C05/C09.)
Read(op) ==
    /\ (mode = "r" \/ (mode = "r+" /\ Exact)) /\ op \in ReadOps
    /\ \E out \in Outs :
         /\ (Exact => out = "ok")
         /\ Obs("Read", [op |-> op], out)
    /\ fileVersion' = fileVersion
    /\ IF "LazyGetterUpgrades" \in Deviations /\ mode = "r" THEN mode' = "r+" ELSE mode' = mode
    /\ rep' = "none"
    /\ UNCHANGED <<live, ctx>>

\* Mutating entry points.  Workspace._io_call refuses every r+/a writer function when the handle mode is
\* "r" (workspace.py:1409-1441): single outcome `refused`, file and mode unchanged, the in-memory side is
\* unconstrained afterwards.  In mode "r+" on the pristine file the call succeeds and the content changes.
Write(op) ==
    /\ mode # "closed" /\ op \in WriteOps
    /\ IF mode = "r"
       THEN /\ \E out \in Outs :
                 /\ (Exact /\ "WriteIgnored" \notin Deviations => out = "refused")
                 /\ (Exact /\ "WriteIgnored" \in Deviations => out = "ok")
                 \* an assignment after nothing but refusals (e.g. after the refused removal of the same entity:
                 \* Workspace.remove_entity -> remove_recursively, workspace.py:602-676) is refused as well
                 /\ (Firm /\ ~Exact /\ op \in RepeatOps /\ "RefusalUnprotects" \notin Deviations => out = "refused")
                 /\ (Firm /\ ~Exact /\ op \in RepeatOps /\ "RefusalUnprotects" \in Deviations => out = "ok")
                 /\ Obs("Write", [op |-> op], out)
                 /\ rep' = IF Firm /\ out = "refused" /\ op \in RepeatOps THEN op ELSE "none"
                 /\ live' = IF out = "refused" /\ live # "any" THEN "refused" ELSE "any"
            /\ IF "WriteThroughReadOnly" \in Deviations /\ fileVersion < MaxVersion
               THEN fileVersion' = fileVersion + 1 ELSE fileVersion' = fileVersion
       ELSE /\ fileVersion < MaxVersion /\ rep' = "none"
            /\ IF Exact
               THEN /\ fileVersion' = fileVersion + 1 /\ live' = "sync"
                    /\ \E out \in Outs : Obs("Write", [op |-> op], out)   \* may raise after having written
               ELSE /\ fileVersion' \in {fileVersion, fileVersion + 1} /\ live' = "any"
                    /\ \E out \in Outs : Obs("Write", [op |-> op], out)
    /\ UNCHANGED <<mode, ctx>>

\* Calls without effect on the file in mode r+ (queries with arguments, validators, memory-only setters,
\* re-saving an unchanged entity).  They may need a writable handle (then they are refused in mode "r") or
\* not; they never change the file in mode "r" and may change the in-memory side.
Probe(op) ==
    /\ (mode = "r" \/ (mode = "r+" /\ Exact)) /\ op \in ProbeOps
    /\ \E out \in Outs : Obs("Probe", [op |-> op], out)
    /\ fileVersion' = fileVersion
    /\ live' = "any" /\ rep' = "none"
    /\ UNCHANGED <<mode, ctx>>

\* The assignment that has just been refused, issued again with the identical value.  The refused setter has already
\* changed the attribute in memory (live = "any"), the file still holds the old value: the call still has to write and
\* must be refused again, however often it is repeated.  As built, Entity.parent accepts the repetition silently
\* (entity.py:273-287: the second call finds current_parent == parent and skips the file operations): named deviation
\* RepeatAccepted.
Repeat ==
    /\ mode = "r" /\ rep # "none"
    /\ \E out \in Outs :
         /\ ("RepeatAccepted" \notin Deviations => out = "refused")
         /\ ("RepeatAccepted" \in Deviations => out = "ok")
         /\ Obs("Repeat", [op |-> rep], out)
    /\ UNCHANGED <<mode, fileVersion, live, ctx, rep>>

\* ------------------------------------------------------------------ helpers
\* read_ui_json   InputFile.read_ui_json(path) + .data         (input_file.py:192-212,111-147)
\* input_file     InputFile(ui_json={... "geoh5": "<path>"}) + .data (utils.py path2workspace: mode="r", closed)
\* input_file_ws  InputFile(ui_json={... "geoh5": <the user's Workspace>}) + .data: promotion runs inside
\*                fetch_active_workspace(ws) (mode "r" requested: yielded as is when open, else opened "r" and closed)
\* path2workspace ui_json.utils.path2workspace(path)            (ui_json/utils.py:280-285)
\* monitored_copy monitored_directory_copy(dir, entity of the workspace) (ui_json/utils.py:294-321): reads inside
\*                fetch_active_workspace(entity.workspace, mode="r"), writes a NEW file
\* All of them leave the source file and the mode of the user's handle unchanged, and no handle they open on the
\* source file - not even a transient one - is writable (wopen).
Helper(h) ==
    /\ h \in Helpers /\ mode \in {"closed", "r"}
    /\ \E out \in Outs : ObsW("Helper", [h |-> h], out, "HelperOpensWritable" \in Deviations)
    /\ IF "HelperUpgrades" \in Deviations /\ mode = "r" THEN mode' = "r+" ELSE mode' = mode
    /\ rep' = "none"
    /\ UNCHANGED <<fileVersion, live, ctx>>

\* fetch_active_workspace(ws, mode=m) (shared/utils.py:95-123), entering the with-block:
\*   `mode in workspace.geoh5.mode` is a substring test: "r" matches "r" and "r+", "r+" matches only "r+";
\*   a match yields the workspace as it is; otherwise the workspace is closed (with a warning) and re-opened in
\*   the requested mode.  Asking for "r+" on a read-only workspace is the caller's EXPLICIT request for a
\*   writable handle - the only way (besides close + open) a handle opened "r" becomes writable.
Matches(m) == mode # "closed" /\ (m = "r" \/ mode = "r+")
FetchEnter(m) ==
    /\ ctx = "none" /\ m \in {"r", "r+"}
    /\ IF Matches(m)
       THEN /\ ctx' = "keep" /\ UNCHANGED <<mode, live, fileVersion>>
            /\ ObsW("FetchEnter", [m |-> m], "ok", FALSE)
       ELSE /\ IF mode = "closed" THEN fileVersion' = fileVersion
               ELSE Released(fileVersion')  \* the open handle (necessarily "r") is closed first: never writes
            /\ \E out \in Outs :
                 /\ (Pristine => out = "ok")            \* loading a modified file may fail, see Open
                 /\ IF out = "ok" THEN /\ ctx' = "close" /\ mode' = m /\ live' = "sync"
                                       /\ ObsW("FetchEnter", [m |-> m], out, m = "r+")
                                  ELSE /\ ctx' = "none" /\ mode' = "closed" /\ UNCHANGED live
                                       /\ \E w \in {FALSE, m = "r+"} : ObsW("FetchEnter", [m |-> m], out, w)
    /\ rep' = "none"
\* leaving the with-block: a workspace the helper opened is closed, a workspace yielded as it was is left alone
FetchExit ==
    /\ ctx # "none"
    /\ ctx' = "none"
    /\ IF ctx = "close" /\ mode # "closed"
       THEN ReleaseOutcome("FetchExit", [x |-> 0]) /\ Released(fileVersion')
       ELSE mode' = mode /\ fileVersion' = fileVersion /\ Obs("FetchExit", [x |-> 0], "ok")
    /\ UNCHANGED live
    /\ rep' = "none"

Next ==
    \/ \E m \in {"r", "r+"} : Open(m) \/ ReOpen(m) \/ FetchEnter(m)
    \/ \E h \in Hows : Close(h)
    \/ SaveAs
    \/ \E op \in ReadOps : Read(op)
    \/ \E op \in WriteOps : Write(op)
    \/ \E op \in ProbeOps : Probe(op)
    \/ \E h \in Helpers : Helper(h)
    \/ FetchExit
    \/ Repeat

Spec == Init /\ [][Next]_vars
DepthBound == TLCGet("level") <= MaxDepth

\* ------------------------------------------------------------------ properties (C10)
TypeOK ==
    /\ mode \in Modes /\ fileVersion \in 0..MaxVersion /\ live \in {"sync", "refused", "any"}
    /\ ctx \in {"none", "keep", "close"} /\ rep \in {"none"} \cup RepeatOps
    /\ last.out \in Outs /\ last.wopen \in BOOLEAN

\* the explicit request for a writable handle
Explicit(l) == l.act = "FetchEnter" /\ l.args.m = "r+"

\* While the handle is read-only no step changes the file or makes the handle writable - except the step in
\* which the caller explicitly asks for a writable handle, and that step does not change the file either.
ReadOnlyFrozen ==
    [][mode = "r" => /\ fileVersion' = fileVersion
                     /\ (~Explicit(last') => mode' \in {"r", "closed"})]_vars
\* A closed file does not change either (helpers open it on the user's behalf).
ClosedFrozen == [][mode = "closed" => fileVersion' = fileVersion]_vars
\* every call that would have to write fails with an error
WritesRefused ==
    [][(last'.act = "Write" /\ mode = "r" /\ (Exact \/ (Firm /\ last'.args.op \in RepeatOps))) => last'.out = "refused"]_vars
\* ... however often it is asked
RepeatRefused ==
    [][last'.act = "Repeat" => last'.out = "refused" /\ fileVersion' = fileVersion /\ mode' = mode]_vars
\* getters (incl. lazy ones) work on a read-only workspace
ReadsWork == [][(last'.act = "Read" /\ mode = "r" /\ Exact) => last'.out = "ok"]_vars
\* helpers leave the source file and the user's handle alone and never hold a writable handle themselves
HelpersPreserveSource ==
    [][last'.act = "Helper" => /\ fileVersion' = fileVersion /\ mode' = mode
                               /\ ~last'.wopen]_vars
\* a handle becomes writable only by Open("r+") from closed or by the explicit request
NoSilentUpgrade ==
    [][(mode # "r+" /\ mode' = "r+") => (Explicit(last') \/ (last'.act = "Open" /\ last'.args.m = "r+"))]_vars
\* ... not even transiently inside a step
WritableOpensAreExplicit ==
    [][last'.wopen => (Explicit(last') \/ (last'.act = "Open" /\ last'.args.m = "r+"))]_vars
\* the file only ever changes through a writable handle
ChangeNeedsWritable == [][fileVersion' # fileVersion => mode = "r+"]_vars

\* ------------------------------------------------------------------ export
ExportState == PrintT(<<"ST", TLCFP(vw), TLCFP(<<vw, 1>>),
                        ToJson([mode |-> mode, fileVersion |-> fileVersion, live |-> live, ctx |-> ctx, rep |-> rep])>>)
ExportTrans == PrintT(<<"TR", TLCFP(vw), TLCFP(<<vw, 1>>), TLCFP(vw'), TLCFP(<<vw', 1>>), ToJson(last')>>)
=============================================================================
