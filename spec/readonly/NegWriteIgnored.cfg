\* negative control: with the named deviation WriteIgnored TLC must report WritesRefused violated
SPECIFICATION Spec
CONSTANTS
  ReadOps = {"object.get"}
  WriteOps = {"object.set", "ws.remove"}
  ProbeOps = {"ws.set", "object.call"}
  RepeatOps = {"object.set"}
  Helpers = {"read_ui_json", "monitored_copy"}
  MaxVersion = 5
  MaxDepth = 5
  Deviations = {"WriteIgnored"}
CONSTRAINT DepthBound
VIEW vw
INVARIANT TypeOK
PROPERTY WritesRefused
CHECK_DEADLOCK FALSE
