\* as-built deviation RefusalUnprotects (property groups after a refused removal, notes/C10.md Round 2): graph exported so that the harness recognises exactly this failure mode (no property checked here, see NegRefusalUnprotects.cfg)
SPECIFICATION Spec
CONSTANTS
  ReadOps = {"ws.get", "group.get", "object.get", "data.get", "pgroup.get", "type.get"}
  WriteOps = {"ws.get", "ws.set", "ws.create", "ws.remove", "ws.copy", "ws.save", "ws.call", "group.get", "group.set", "group.create", "group.remove", "group.copy", "group.save", "group.call", "object.get", "object.set", "object.create", "object.remove", "object.copy", "object.save", "object.call", "data.get", "data.set", "data.create", "data.remove", "data.copy", "data.save", "data.call", "pgroup.get", "pgroup.set", "pgroup.create", "pgroup.remove", "pgroup.copy", "pgroup.save", "pgroup.call", "type.get", "type.set", "type.create", "type.remove", "type.copy", "type.save", "type.call"}
  ProbeOps = {"ws.get", "ws.set", "ws.create", "ws.remove", "ws.copy", "ws.save", "ws.call", "group.get", "group.set", "group.create", "group.remove", "group.copy", "group.save", "group.call", "object.get", "object.set", "object.create", "object.remove", "object.copy", "object.save", "object.call", "data.get", "data.set", "data.create", "data.remove", "data.copy", "data.save", "data.call", "pgroup.get", "pgroup.set", "pgroup.create", "pgroup.remove", "pgroup.copy", "pgroup.save", "pgroup.call", "type.get", "type.set", "type.create", "type.remove", "type.copy", "type.save", "type.call"}
  RepeatOps = {"ws.set", "group.set", "object.set", "data.set", "pgroup.set", "type.set"}
  Helpers = {"read_ui_json", "input_file", "input_file_ws", "path2workspace", "monitored_copy"}
  MaxVersion = 7
  MaxDepth = 7
  Deviations = {"RefusalUnprotects"}
CONSTRAINT DepthBound
VIEW vw
INVARIANT TypeOK
INVARIANT ExportState
ACTION_CONSTRAINT ExportTrans
CHECK_DEADLOCK FALSE
