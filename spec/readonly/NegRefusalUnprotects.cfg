\* negative control: with the named deviation RefusalUnprotects TLC must report WritesRefused violated
SPECIFICATION Spec
CONSTANTS
  ReadOps = {"object.get"}
  WriteOps = {"object.set", "ws.remove"}
  ProbeOps = {"ws.set", "object.call"}
  RepeatOps = {"object.set"}
  Helpers = {"read_ui_json", "monitored_copy"}
  MaxVersion = 5
  MaxDepth = 5
  Deviations = {"RefusalUnprotects"}
CONSTRAINT DepthBound
VIEW vw
INVARIANT TypeOK
PROPERTY WritesRefused
CHECK_DEADLOCK FALSE
