SPECIFICATION Spec
CONSTANTS
  Pair = "LLFEM"
  MaxDepth = 3
  MaxCopies = 2
  MaxEdits = 2
  MaxReopens = 1
  EditOps = {}
  CopyModes = {"plain-same", "extent-same"}
  MaskNames = {"lo", "mid"}
  Focus = TRUE
  BadValues = FALSE
  ValuesPerOp = 2
  EditWhen = "always"
  Extras = 0
  IdInGroup = FALSE
  InGroup = FALSE
  Deviations = {"EmptyPartnerBreaksLoopCopy"}
VIEW vw
INVARIANT Mutual
INVARIANT BothIds
INVARIANT SharedEqual
INVARIANT TxIdKept
INVARIANT WriteThrough
INVARIANT Resolvable
INVARIANT CopiesPaired
INVARIANT GroupsExact
PROPERTY LinkSticks
PROPERTY ReopenResolves
PROPERTY CopyCopiesPartner
PROPERTY EditIsLocal
PROPERTY RefusedIsNoop
PROPERTY ValidEditsAccepted
PROPERTY GroupCopyOnce
CHECK_DEADLOCK FALSE
