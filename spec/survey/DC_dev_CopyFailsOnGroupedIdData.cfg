SPECIFICATION Spec
CONSTANTS
  Pair = "DC"
  MaxDepth = 3
  MaxCopies = 1
  MaxEdits = 2
  MaxReopens = 1
  EditOps = {}
  CopyModes = {"plain-same", "extent-same"}
  MaskNames = {"lo"}
  Focus = TRUE
  BadValues = FALSE
  ValuesPerOp = 2
  EditWhen = "always"
  Extras = 0
  IdInGroup = TRUE
  InGroup = FALSE
  Deviations = {"CopyFailsOnGroupedIdData"}
VIEW vw
INVARIANT Mutual
INVARIANT BothIds
INVARIANT SharedEqual
INVARIANT TxIdKept
INVARIANT WriteThrough
INVARIANT Resolvable
INVARIANT CopiesPaired
INVARIANT GroupsExact
PROPERTY LinkSticks
PROPERTY ReopenResolves
PROPERTY CopyCopiesPartner
PROPERTY EditIsLocal
PROPERTY RefusedIsNoop
PROPERTY ValidEditsAccepted
PROPERTY GroupCopyOnce
CHECK_DEADLOCK FALSE
