SPECIFICATION Spec
CONSTANTS
  Pair = "TIP"
  MaxDepth = 3
  MaxCopies = 2
  MaxEdits = 1
  MaxReopens = 1
  EditOps = {"channels"}
  CopyModes = {"plain-same", "extent-same", "plain-other"}
  MaskNames = {"lo"}
  Focus = TRUE
  BadValues = FALSE
  ValuesPerOp = 1
  EditWhen = "copied"
  Extras = 0
  IdInGroup = FALSE
  InGroup = FALSE
  Deviations = {}
VIEW vw
INVARIANT Mutual
INVARIANT BothIds
INVARIANT SharedEqual
INVARIANT TxIdKept
INVARIANT WriteThrough
INVARIANT Resolvable
INVARIANT CopiesPaired
INVARIANT GroupsExact
PROPERTY LinkSticks
PROPERTY ReopenResolves
PROPERTY CopyCopiesPartner
PROPERTY EditIsLocal
PROPERTY RefusedIsNoop
PROPERTY ValidEditsAccepted
PROPERTY GroupCopyOnce
INVARIANT ExportState
ACTION_CONSTRAINT ExportTrans
CHECK_DEADLOCK FALSE
