SPECIFICATION Spec
CONSTANTS
  Pair = "MLTEM"
  MaxDepth = 3
  MaxCopies = 1
  MaxEdits = 2
  MaxReopens = 1
  EditOps = {"channels", "unit", "input_type", "waveform", "timing_mark", "loop_radius"}
  CopyModes = {"plain-same"}
  MaskNames = {"lo"}
  Focus = TRUE
  BadValues = FALSE
  ValuesPerOp = 2
  EditWhen = "always"
  Extras = 0
  IdInGroup = FALSE
  InGroup = FALSE
  Deviations = {}
VIEW vw
INVARIANT Mutual
INVARIANT BothIds
INVARIANT SharedEqual
INVARIANT TxIdKept
INVARIANT WriteThrough
INVARIANT Resolvable
INVARIANT CopiesPaired
INVARIANT GroupsExact
PROPERTY LinkSticks
PROPERTY ReopenResolves
PROPERTY CopyCopiesPartner
PROPERTY EditIsLocal
PROPERTY RefusedIsNoop
PROPERTY ValidEditsAccepted
PROPERTY GroupCopyOnce
INVARIANT ExportState
ACTION_CONSTRAINT ExportTrans
CHECK_DEADLOCK FALSE
