#!/venv/bin/python
"""Writes the TLC configuration files of LinkedSurveys.tla (cfg files cannot share text, so they are generated).

  <PAIR>_qs.cfg  quick,    structure: links, copies (plain / extent / other workspace), copies of copies, re-open,
                                      one edit once the copies exist (isolation)
  <PAIR>_qe.cfg  quick,    edits:     public setters from both sides around link / copy / re-open
  <PAIR>_ts.cfg  thorough, structure: boolean masks and extents, second mask, other workspace + extent, isolation edits
                                      through channels (and timing_mark on LLTEM); DC / MT: depth 5, two re-opens
  <PAIR>_te.cfg  thorough, edits:     every setter of the pair, rejected values, depth 4, cross-workspace copies
  (the thorough tier also runs the two quick configurations)
  DC_qr / AFEM_qr (quick), DC_tr / AFEM_tr (thorough): re-linking with additional originals (Extras)
  <PAIR>_dev_<Deviation>.cfg  negative controls: exactly one named deviation on, TLC must report a violated property
Run:  cd /verif/spec/survey && /venv/bin/python gen_cfgs.py
"""
PAIRS = ["ATEM", "AFEM", "MLTEM", "MLFEM", "LLTEM", "LLFEM", "TIP", "TIP1", "DC", "MT"]
BASIC = ["channels", "unit", "input_type"]
ALL_OPS = BASIC + ["waveform", "timing_mark", "loop_radius", "crossline_offset", "inline_offset", "vertical_offset",
                   "pitch", "roll", "yaw", "relative_to_bearing", "edit_em_metadata", "edit_metadata"]
# quick tier: channels / unit / input_type everywhere (class specific defaults and accepted values); the setters that
# live in shared base classes (base.py) are spread over the pairs that inherit them
QUICK_OPS = {
    "ATEM": BASIC + ["waveform", "timing_mark", "crossline_offset"],
    "AFEM": BASIC + ["yaw", "relative_to_bearing", "loop_radius"],
    "MLTEM": BASIC + ["waveform", "timing_mark", "loop_radius"],
    "MLFEM": BASIC + ["loop_radius", "edit_em_metadata"],
    "LLTEM": BASIC + ["waveform", "timing_mark"],
    "LLFEM": BASIC + ["edit_em_metadata", "edit_metadata"],
    "TIP": BASIC + ["pitch", "loop_radius", "edit_metadata"],
    "TIP1": ["channels", "roll"],
    "DC": [],
    "MT": BASIC + ["edit_em_metadata"],
}
# quick structure depth: one pair per copy implementation goes to depth 4 (plain EM: ATEM, large loop: LLFEM,
# DC, MT), the others to depth 3
QS_DEPTH = {"ATEM": 4, "AFEM": 3, "MLTEM": 3, "MLFEM": 3, "LLTEM": 3, "LLFEM": 4, "TIP": 3, "TIP1": 3, "DC": 5, "MT": 5}

# thorough structure depth: one pair per copy implementation at depth 4 (plain EM, both large-loop pairs, single base
# station), DC / MT at depth 5, the pairs that share BaseEMSurvey.copy unchanged at depth 3
TS_DEPTH = {"ATEM": 4, "AFEM": 3, "MLTEM": 3, "MLFEM": 3, "LLTEM": 4, "LLFEM": 4, "TIP": 3, "TIP1": 4, "DC": 5, "MT": 5}

# pairs explored with additional originals (constant Extras) for re-linking: quick value
RELINK = {"DC": 2, "AFEM": 1}

IDGROUP = ["DC", "LLFEM"]
GROUPCOPY = ["DC", "AFEM"]

INV = """VIEW vw
INVARIANT Mutual
INVARIANT BothIds
INVARIANT SharedEqual
INVARIANT TxIdKept
INVARIANT WriteThrough
INVARIANT Resolvable
INVARIANT CopiesPaired
INVARIANT GroupsExact
PROPERTY LinkSticks
PROPERTY ReopenResolves
PROPERTY CopyCopiesPartner
PROPERTY EditIsLocal
PROPERTY RefusedIsNoop
PROPERTY ValidEditsAccepted
PROPERTY GroupCopyOnce
"""
EXPORT = """INVARIANT ExportState
ACTION_CONSTRAINT ExportTrans
"""
KNOWN = ["WaveformAliased", "LinkFromTxDropsTxId", "InputTypeSetterMLFEM", "UnitSetterTIP",
         "LoopRadiusNoneHalfApplied", "TipperSingleBaseMaskedCopy"]


def tla_set(xs):
    return "{" + ", ".join(f'"{x}"' for x in xs) + "}"


def cfg(pair, depth, copies, edits, reopens, ops, modes, masks, vals, when, bad=False, devs=(), export=True,
        extras=0, idingroup=False, ingroup=False):
    return f"""SPECIFICATION Spec
CONSTANTS
  Pair = "{pair}"
  MaxDepth = {depth}
  MaxCopies = {copies}
  MaxEdits = {edits}
  MaxReopens = {reopens}
  EditOps = {tla_set(ops)}
  CopyModes = {tla_set(modes)}
  MaskNames = {tla_set(masks)}
  Focus = TRUE
  BadValues = {"TRUE" if bad else "FALSE"}
  ValuesPerOp = {vals}
  EditWhen = "{when}"
  Extras = {extras}
  IdInGroup = {"TRUE" if idingroup else "FALSE"}
  InGroup = {"TRUE" if ingroup else "FALSE"}
  Deviations = {tla_set(devs)}
{INV}{EXPORT if export else ""}CHECK_DEADLOCK FALSE
"""


def main():
    q_modes = ["plain-same", "extent-same", "plain-other"]
    t_modes = ["plain-same", "mask-same", "extent-same", "plain-other", "extent-other"]
    for pair in PAIRS:
        files = {
            "qs": cfg(pair, QS_DEPTH[pair], 2, 1, 1, ["channels"], q_modes, ["lo"], 1, "copied"),
            "qe": cfg(pair, 3, 1, 2, 1, QUICK_OPS[pair], ["plain-same"], ["lo"], 2, "always"),
            "ts": cfg(pair, TS_DEPTH[pair], 2, 1, 2 if pair in ("DC", "MT") else 1,
                      ["channels", "timing_mark"] if pair == "LLTEM" else ["channels"],
                      t_modes, ["lo", "mid"], 1, "copied"),
            "te": cfg(pair, 4, 1, 2, 1, ALL_OPS, ["plain-other"], ["lo"], 2, "always", bad=True),
        }
        if pair in IDGROUP:
            # the A entity carries a property group that holds its id data: copies from either side, re-open
            files["qi"] = cfg(pair, 3, 1, 0, 1, [], q_modes, ["lo"], 1, "always", idingroup=True)
        if pair in GROUPCOPY:
            # the originals live in a container group which is copied (same / other workspace)
            files["qg"] = cfg(pair, 3, 1, 1, 1, ["channels"], [], ["lo"], 1, "always", ingroup=True)
        if pair in RELINK:
            # re-linking with a second A (and B): take-over, re-open, link again from either side
            files["qr"] = cfg(pair, 4, 0, 1, 1, ["channels"], ["plain-same"], ["lo"], 1, "always", extras=RELINK[pair])
            files["tr"] = cfg(pair, 5 if pair == "DC" else 4, 1, 1, 1, ["channels"], ["plain-same"], ["lo"], 1, "always", extras=2)
        for name, text in files.items():
            with open(f"{pair}_{name}.cfg", "w", encoding="ascii") as fh:
                fh.write(text)


# negative controls: exactly one named deviation switched on, TLC must report one of the listed properties
NEGATIVE = [
    ("ATEM", "WaveformAliased", ["waveform", "timing_mark"]),            # WriteThrough / EditIsLocal
    ("LLFEM", "LinkFromTxDropsTxId", ["channels"]),                      # TxIdKept
    ("MLFEM", "InputTypeSetterMLFEM", ["input_type"]),                   # ValidEditsAccepted
    ("TIP", "UnitSetterTIP", ["unit"]),                                  # ValidEditsAccepted
    ("MLTEM", "LoopRadiusNoneHalfApplied", ["loop_radius"]),             # WriteThrough / RefusedIsNoop
    ("TIP1", "TipperSingleBaseMaskedCopy", ["channels"]),                # RefusedIsNoop / CopyCopiesPartner
    ("DC", "RelinkKeepsCachedPartner", []),                              # LinkSticks / BothIds
    ("AFEM", "RelinkLeavesSharedDictionary", ["channels"]),              # WriteThrough
    ("DC", "CopyFailsOnGroupedIdData", []),                              # RefusedIsNoop / CopyCopiesPartner
    ("AFEM", "GroupCopyDuplicatesPair", ["channels"]),                   # GroupCopyOnce
    ("LLFEM", "EmptyPartnerBreaksLoopCopy", []),                         # RefusedIsNoop / CopyCopiesPartner
]


def negatives():
    for pair, dev, ops in NEGATIVE:
        spare = dev == "EmptyPartnerBreaksLoopCopy"   # needs two copies and the mask that keeps the spare loop only
        text = cfg(pair, 3, 2 if spare else 1, 2, 1, ops, ["plain-same", "extent-same"], ["lo", "mid"] if spare else ["lo"],
                   2, "always", devs=[dev], export=False,
                   extras=2 if dev.startswith("Relink") else 0, idingroup=dev == "CopyFailsOnGroupedIdData",
                   ingroup=dev == "GroupCopyDuplicatesPair")
        with open(f"{pair}_dev_{dev}.cfg", "w", encoding="ascii") as fh:
            fh.write(text)


if __name__ == "__main__":
    negatives()
    main()
