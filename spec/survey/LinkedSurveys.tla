--------------------------- MODULE LinkedSurveys ---------------------------
(* C20 - linked surveys stay mutually consistent.                                              *)
(*                                                                                             *)
(* One model instance = one linked class pair (constant Pair):                                  *)
(*   ATEM  AirborneTEMReceivers / AirborneTEMTransmitters        (airborne_tem.py)             *)
(*   AFEM  AirborneFEMReceivers / AirborneFEMTransmitters        (airborne_fem.py)             *)
(*   MLTEM MovingLoopGroundTEMReceivers / ...Transmitters        (ground_tem.py)               *)
(*   MLFEM MovingLoopGroundFEMReceivers / ...Transmitters        (ground_fem.py)               *)
(*   LLTEM LargeLoopGroundTEMReceivers / ...Transmitters         (ground_tem.py, base.py:634)  *)
(*   LLFEM LargeLoopGroundFEMReceivers / ...Transmitters         (ground_fem.py, base.py:634)  *)
(*   TIP   TipperReceivers / TipperBaseStations                  (tipper.py)                   *)
(*   TIP1  the same with a single base station (n_vertices = 1, accepted by tipper.py:88-91)   *)
(*   DC    PotentialElectrode / CurrentElectrode                 (direct_current.py)           *)
(*   MT    MTReceivers, no partner (degenerate case)             (magnetotellurics.py)         *)
(* Role "A" = receivers / potential electrodes, role "B" = transmitters / base stations /      *)
(* current electrodes.  Entity 1 is the original A, entity 2 the original B; copies get the    *)
(* next free numbers in creation order (copy first, then the copy of its partner).             *)
(*                                                                                             *)
(* Geometry is abstracted to stations 1..4 on a line (x = station number).  In the "grouped"   *)
(* pairs (large loop, DC) the B entity consists of groups 1..2 (transmitter loops / current     *)
(* dipoles) and station s of A refers to group (s+1) \div 2 through its "Transmitter ID" /      *)
(* "A-B Cell ID" property.  Masks lo/mid/hi select stations {1,2} / {2,3} / {3,4} and groups    *)
(* {1} / {} / {2}.  Pair LLFEM has a third loop nobody refers to (loops 1, 2, 3; stations 1,2 ->  *)
(* loop 1, stations 3,4 -> loop 3; masks select loops {1,2} / {2} / {3}): a copy made through the  *)
(* transmitters keeps such a loop, a copy made through the receivers does not.                     *)
(*                                                                                             *)
(* Metadata is abstracted to Meta = [has, pa, pb, tx, par]:                                    *)
(*   has  the entity has a metadata dictionary at all (DC electrodes have none before linking) *)
(*   pa   entity recorded under "Receivers" / "Potential Electrodes"   (0 = None or absent)    *)
(*   pb   entity recorded under "Transmitters" / "Base stations" / "Current Electrodes"        *)
(*   tx   entity owning the data recorded under "Tx ID property" (large loop), 0 = absent      *)
(*   par  shared survey parameters: field -> token                                             *)
(* Every entity carries live (the Python object's metadata) and file (the "Metadata" JSON      *)
(* dataset of its node) separately.                                                            *)
(*                                                                                             *)
(* Deviations (named, as-built behaviours of the pinned tree that break the property):         *)
(*   WaveformAliased       BaseEMSurvey.copy hands the source's "Waveform" dict object to the  *)
(*                         copy (base.py:256-258); timing_mark / waveform setters mutate that  *)
(*                         dict in place (base.py:997-1007, 1042-1057)                         *)
(*   LinkFromTxDropsTxId   transmitters.receivers = rx overwrites the receivers' metadata with *)
(*                         the transmitters' one, which has no "Tx ID property" (base.py:445)  *)
(*   InputTypeSetterMLFEM  MovingLoopGroundFEMSurvey.default_input_types reads a name-mangled  *)
(*                         attribute that does not exist (ground_fem.py:31-34)                 *)
(*   UnitSetterTIP         TipperSurvey.default_units: same mistake (tipper.py:167-172)        *)
(*   LoopRadiusNoneHalfApplied  moving-loop classes list "Loop radius" as a mandatory key, so  *)
(*                         loop_radius = None is rejected (KeyError, base.py:425-433) - but    *)
(*                         only after edit_em_metadata deleted the key from the live           *)
(*                         dictionary (base.py:345-347): live and stored metadata differ       *)
(*   TipperSingleBaseMaskedCopy  a masked copy of tipper receivers applies the receivers'      *)
(*                         vertex mask to the base stations as well (base.py:279-285): with a  *)
(*                         single base station the shape check fails (cell_object.py:163-167)  *)
(*                         after the receivers' copy was made: an unlinked orphan copy stays   *)
(*   RelinkKeepsCachedPartner  a link setter fills the cache of the linking side only               *)
(*                         (base.py:473, 514; direct_current.py:301, 383): an entity taken over *)
(*                         from a previous partner keeps answering its getter from the stale     *)
(*                         cache - the new pair is not mutually consistent until re-open         *)
(*   RelinkLeavesSharedDictionary  EM partners hold the same metadata dictionary object           *)
(*                         (base.py:461-465) and edit_em_metadata changes it in place             *)
(*                         (base.py:356-362): when an entity links to a new partner, its former   *)
(*                         partner's live metadata silently becomes the new pair's (its file not) *)
(*   CopyFailsOnGroupedIdData  CellObject.copy leaves the "A-B Cell ID" / "Transmitter ID" child out of  *)
(*                         the children map (cell_object.py:203) but copy_property_groups looks every    *)
(*                         member of a property group up in it (workspace.py:327): a survey whose        *)
(*                         property group holds its id data cannot be copied (KeyError), the half-made   *)
(*                         copies stay behind, unlinked                                                  *)
(*   GroupCopyDuplicatesPair  copying a group copies each child; each linked survey child brings its     *)
(*                         partner along (base.py:260-267, direct_current.py:157-186): a group holding   *)
(*                         a pair ends up with two copied pairs                                          *)
(*   EmptyPartnerBreaksLoopCopy  a copy through the transmitters whose mask keeps only loops no receiver   *)
(*                         refers to gives a receivers copy without stations; copying those transmitters   *)
(*                         again builds the partner's mask with np.r_[[]] - an empty *float* array - and   *)
(*                         indexing with it raises IndexError (base.py:710-713): the transmitters' copy    *)
(*                         stays behind, unlinked                                                           *)
(* The specification is explored with Deviations = {} (ideal); every transition additionally   *)
(* exports, as last.alt, the state the same action yields with all KnownDevs switched on, so   *)
(* that the harness can recognise exactly these behaviours and nothing else.                   *)
EXTENDS Naturals, Sequences, FiniteSets, TLC, TLCExt, Json

CONSTANTS
    Pair,        \* one of the strings above
    MaxDepth,    \* length of a history
    MaxCopies,   \* number of Copy actions in a history
    MaxEdits,    \* number of Edit actions in a history
    MaxReopens,
    EditOps,     \* public setters exercised (subset of AllOps, intersected with the ops of Pair)
    CopyModes,   \* subset of {"plain-same","mask-same","extent-same","plain-other","mask-other","extent-other"}
    MaskNames,   \* subset of {"lo","mid","hi"}
    Focus,       \* TRUE: a history edits through one group of setters only
    BadValues,   \* TRUE: also try one rejected value for unit / input_type / channels / loop_radius
    ValuesPerOp, \* 1, 2 or 3: how many of the accepted values of a setter are tried
    EditWhen,    \* "always" | "copied": "copied" = edits only once all MaxCopies copies exist (isolation of copies)
    Extras,      \* 0: originals A, B ; 1: a second A (entity 3) ; 2: a second A and a second B (entities 3, 4): re-linking
    IdInGroup,   \* TRUE (large loop, DC): the A entity has a property group holding its "Transmitter ID" / "A-B Cell ID" data
    InGroup,     \* TRUE: the originals are children of a container group and copies are made by copying that group
    Deviations   \* {} = ideal

VARIABLES ents, step, nedits, ncopies, nreopens, focus, last
vars == <<ents, step, nedits, ncopies, nreopens, focus, last>>
vw == <<ents>>        \* VIEW: counters, focus and last never multiply states

KnownDevs == {"WaveformAliased", "LinkFromTxDropsTxId", "InputTypeSetterMLFEM", "UnitSetterTIP",
              "LoopRadiusNoneHalfApplied", "TipperSingleBaseMaskedCopy", "RelinkKeepsCachedPartner",
              "RelinkLeavesSharedDictionary", "CopyFailsOnGroupedIdData", "GroupCopyDuplicatesPair",
              "EmptyPartnerBreaksLoopCopy"}

\* ------------------------------------------------------------------ class pair traits
Family     == IF Pair = "DC" THEN "dc" ELSE "em"
HasPartner == Pair # "MT"
Grouped    == Pair \in {"LLTEM", "LLFEM", "DC"}
LargeLoop  == Pair \in {"LLTEM", "LLFEM"}
IsTEM      == Pair \in {"ATEM", "MLTEM", "LLTEM"}
Tipper     == Pair \in {"TIP", "TIP1"}
Airborne   == Pair \in {"ATEM", "AFEM", "TIP", "TIP1"}      \* TipperSurvey(FEMSurvey, AirborneEMSurvey): tipper.py:35
MovingLoop == Pair \in {"MLTEM", "MLFEM"}
PointsOnly == Pair = "MT"                             \* MTReceivers(FEMSurvey, Points)

DefUnit == IF IsTEM THEN "Milliseconds (ms)" ELSE "Hertz (Hz)"          \* default_metadata of each class
DefInput == CASE Pair \in {"ATEM", "AFEM"} -> "Rx"
              [] Pair \in {"MLTEM", "MLFEM", "LLTEM", "LLFEM"} -> "Tx and Rx"
              [] Tipper -> "Rx and base stations"
              [] OTHER -> "Rx only"
SurveyType == CASE Pair = "ATEM" -> "Airborne TEM" [] Pair = "AFEM" -> "Airborne FEM"
                [] Pair = "MLTEM" -> "Ground TEM" [] Pair = "MLFEM" -> "Ground FEM"
                [] Pair = "LLTEM" -> "Ground TEM (large-loop)" [] Pair = "LLFEM" -> "Ground FEM (large-loop)"
                [] Tipper -> "ZTEM" [] Pair = "MT" -> "Magnetotellurics" [] OTHER -> "-"

OffsetOps == {"crossline_offset", "inline_offset", "vertical_offset", "pitch", "roll", "yaw"}  \* base.py:805-812
VF(op) == CASE op = "crossline_offset" -> "crossline_offset.value" [] op = "inline_offset" -> "inline_offset.value"
            [] op = "vertical_offset" -> "vertical_offset.value" [] op = "pitch" -> "pitch.value"
            [] op = "roll" -> "roll.value" [] OTHER -> "yaw.value"
PF(op) == CASE op = "crossline_offset" -> "crossline_offset.property" [] op = "inline_offset" -> "inline_offset.property"
            [] op = "vertical_offset" -> "vertical_offset.property" [] op = "pitch" -> "pitch.property"
            [] op = "roll" -> "roll.property" [] OTHER -> "yaw.property"

PairOps == IF Family = "dc" THEN {}
           ELSE {"channels", "unit", "input_type", "edit_em_metadata", "edit_metadata"}
                \cup (IF IsTEM THEN {"waveform", "timing_mark"} ELSE {})
                \cup (IF Airborne \/ MovingLoop THEN {"loop_radius"} ELSE {})
                \cup (IF Airborne THEN OffsetOps \cup {"relative_to_bearing"} ELSE {})
Ops == PairOps \cap EditOps
UsedOffsets == OffsetOps \cap Ops

Fields == IF Family = "dc" THEN {"-"}
          ELSE {"Survey type", "Channels", "Unit", "Input type", "Custom"}
               \cup (IF IsTEM THEN {"Waveform.Timing mark", "Waveform.Discretization"} ELSE {})
               \cup (IF Airborne \/ MovingLoop THEN {"Loop radius"} ELSE {})
               \cup (IF Airborne THEN {"Angles relative to bearing"} ELSE {})
               \cup {VF(o) : o \in UsedOffsets} \cup {PF(o) : o \in UsedOffsets}
PropFields == {PF(o) : o \in UsedOffsets}      \* uuid-valued entries: not carried over by copy (base.py:256-258)

DefPar == [f \in Fields |->
             CASE f = "-" -> "-"
               [] f = "Survey type" -> SurveyType
               [] f = "Channels" -> "c0"
               [] f = "Unit" -> DefUnit
               [] f = "Input type" -> DefInput
               [] f = "Waveform.Timing mark" -> "t0"
               [] f = "Loop radius" -> IF MovingLoop THEN "r0" ELSE "absent"      \* ground_tem.py:42, ground_fem.py:45
               [] OTHER -> "absent"]

\* accepted values of each setter, most informative first (ValuesPerOp takes a prefix).
\* units: base.py:936-962 ; input types: base.py:804 (airborne), 607 (moving loop), 635 (large loop), tipper.py:40,
\* magnetotellurics.py:35
ValSeq(op) ==
    CASE op = "channels" -> <<"c1", "c2">>
      [] op = "unit" -> IF IsTEM THEN <<"Seconds (s)", "Microseconds (us)">> ELSE <<"KiloHertz (kHz)", "Gigahertz (GHz)">>
      [] op = "input_type" -> IF Pair \in {"ATEM", "AFEM"} THEN <<"Tx and Rx", "Tx">>
                              ELSE IF MovingLoop THEN <<"Rx">> ELSE <<DefInput>>
      [] op = "loop_radius" -> <<"r1", "none", "r2">>
      [] op = "waveform" -> <<"w1", "w2">>
      [] op = "timing_mark" -> <<"t1", "t2">>
      [] op \in {"crossline_offset", "pitch", "vertical_offset"} -> <<"f1", "none", "p1">>   \* removal (None) is always tried
      [] op \in OffsetOps -> <<"p1", "none", "f1">>
      [] op = "relative_to_bearing" -> <<"true", "none", "false">>
      [] op = "edit_em_metadata" -> <<"x1", "none", "x2">>
      [] OTHER -> <<"x2", "none">>                  \* edit_metadata, the deprecated alias (base.py:353-366)
GoodVals(op) == {ValSeq(op)[k] : k \in 1..(IF Len(ValSeq(op)) < ValuesPerOp THEN Len(ValSeq(op)) ELSE ValuesPerOp)}
BadVals(op) == IF BadValues /\ op \in {"unit", "input_type", "channels", "loop_radius"} THEN {"bogus"} ELSE {}
Vals(op) == GoodVals(op) \cup BadVals(op)

GroupOf(op) == CASE op \in {"unit", "input_type"} -> "labels"
                 [] op \in {"waveform", "timing_mark"} -> "wave"
                 [] op \in {"edit_em_metadata", "edit_metadata"} -> "custom"
                 [] OTHER -> op

ApplyOp(par, op, val) ==
    CASE op = "channels" -> [par EXCEPT !["Channels"] = val]                                  \* base.py:191-203
      [] op = "unit" -> [par EXCEPT !["Unit"] = val]                                          \* base.py:529-534
      [] op = "input_type" -> [par EXCEPT !["Input type"] = val]                              \* base.py:376-386
      [] op = "loop_radius" -> [par EXCEPT !["Loop radius"] = IF val = "none" THEN "absent" ELSE val]   \* base.py:627, 873
      [] op = "waveform" -> [par EXCEPT !["Waveform.Discretization"] = val]                   \* base.py:1037-1057
      [] op = "timing_mark" -> [par EXCEPT !["Waveform.Timing mark"] = val]                   \* base.py:992-1007
      [] op \in OffsetOps -> [par EXCEPT ![VF(op)] = IF val = "f1" THEN "f1" ELSE "absent",    \* base.py:841-855
                                         ![PF(op)] = IF val = "p1" THEN "p1" ELSE "absent"]
      [] op = "relative_to_bearing" -> [par EXCEPT !["Angles relative to bearing"] =          \* base.py:895-899
                                            IF val = "none" THEN "absent" ELSE val]
      [] OTHER -> [par EXCEPT !["Custom"] = IF val = "none" THEN "absent" ELSE val]           \* base.py:333-351

\* what BaseEMSurvey.copy carries over: every value that is neither None nor a uuid, on top of the defaults
CopyPar(par) == [f \in Fields |-> IF par[f] = "absent" \/ f \in PropFields THEN DefPar[f] ELSE par[f]]

\* ------------------------------------------------------------------ geometry
AllStations == 1..4
St(m) == CASE m = "lo" -> {1, 2} [] m = "mid" -> {2, 3} [] m = "hi" -> {3, 4} [] OTHER -> AllStations
SpareLoop == Pair = "LLFEM"
AllGroups == IF SpareLoop THEN {1, 2, 3} ELSE {1, 2}
Gr(m) == IF SpareLoop THEN (CASE m = "lo" -> {1, 2} [] m = "mid" -> {2} [] m = "hi" -> {3} [] OTHER -> AllGroups)
         ELSE (CASE m = "lo" -> {1} [] m = "mid" -> {} [] m = "hi" -> {2} [] OTHER -> AllGroups)
GrpOf(s) == IF SpareLoop THEN (IF s <= 2 THEN 1 ELSE 3) ELSE (s + 1) \div 2
\* what a mask keeps of an entity's own geometry (cell_object.py:54-77: vertices without a complete cell are dropped)
Sel(role, geo, m) ==
    IF m = "-" THEN geo
    ELSE IF Grouped /\ role = "B" THEN geo \cap Gr(m)
    ELSE LET S == geo \cap St(m) IN
         IF PointsOnly \/ Pair = "DC" THEN S
         ELSE IF Cardinality(S) >= 2 THEN S ELSE {}           \* polyline: a kept vertex needs a kept segment
\* geometry of the partner's copy
PartnerGeo(role, newgeo, pgeo) ==
    IF Pair = "TIP1" THEN pgeo                                                  \* the one base station / all receivers
    ELSE IF ~Grouped THEN pgeo \cap newgeo                                           \* same index mask: base.py:279-285
    ELSE IF role = "A" THEN pgeo \cap {GrpOf(s) : s \in newgeo}                 \* base.py:680-708, direct_current.py:163-186
    ELSE {s \in pgeo : GrpOf(s) \in newgeo}
Refs(E, i) == IF Grouped /\ E[i].role = "A" /\ E[i].ptr # 0
              THEN {s * 10 + GrpOf(s) : s \in E[i].geo} ELSE {}

\* ------------------------------------------------------------------ metadata helpers
Other(r) == IF r = "A" THEN "B" ELSE "A"
PKey(m, r) == IF r = "A" THEN m.pa ELSE m.pb
SetP(m, r, v) == IF r = "A" THEN [m EXCEPT !.pa = v] ELSE [m EXCEPT !.pb = v]
NoMeta == [has |-> FALSE, pa |-> 0, pb |-> 0, tx |-> 0, par |-> DefPar]
OwnMeta(i, role) == SetP([has |-> TRUE, pa |-> 0, pb |-> 0, tx |-> 0, par |-> DefPar], role, i)   \* base.py:394-398

\* the partner getter: cached pointer, else the entity recorded in the live metadata if it is an entity of the
\* partner class in the same workspace (base.py:451-464, 484-500; tipper.py:57-74; direct_current.py:271-284, 352-365)
Resolve(E, i) ==
    LET m == E[i].live
        p == PKey(m, Other(E[i].role))
    IN IF m.has /\ p # 0 /\ p \in DOMAIN E THEN (IF E[p].ws = E[i].ws /\ E[p].role = Other(E[i].role) THEN p ELSE 0)
       ELSE 0
Settle(E) == [i \in DOMAIN E |-> [E[i] EXCEPT !.ptr = IF @ # 0 THEN @ ELSE Resolve(E, i)]]

\* ghost: which entities hold the same "Waveform" dict object (as-built rules, see header); partners hold the same
\* object exactly when they hold the same metadata dictionary (handed over by the metadata setter, base.py:445-449,
\* separate again after Reopen).  Only tracked when a configuration exercises setters whose as-built behaviour
\* depends on it.
TrackAlias == \/ IsTEM /\ ({"waveform", "timing_mark"} \cap Ops # {})
              \/ MovingLoop /\ "loop_radius" \in Ops
              \/ Extras > 0 /\ Family = "em"
Rejoin(E, S, C) == [x \in DOMAIN E |-> IF ~TrackAlias THEN E[x]
                                        ELSE IF x \in C THEN [E[x] EXCEPT !.al = C]
                                        ELSE [E[x] EXCEPT !.al = @ \ S]]

\* ------------------------------------------------------------------ initial state
MkEnt(i, role, m, geo) == [role |-> role, ws |-> 1, live |-> m, file |-> m, ptr |-> 0, geo |-> geo,
                           src |-> 0, mate |-> 0, al |-> IF TrackAlias THEN {i} ELSE {}]
InitEnts ==
    LET ma == IF Family = "dc" THEN NoMeta
              ELSE [OwnMeta(1, "A") EXCEPT !.tx = IF LargeLoop THEN 1 ELSE 0]   \* rx.tx_id_property = ... (base.py:799-800)
        mb == IF Family = "dc" THEN NoMeta ELSE OwnMeta(2, "B")
        gb == IF Grouped THEN AllGroups ELSE IF Pair = "TIP1" THEN {1} ELSE AllStations
        base == <<MkEnt(1, "A", ma, AllStations), MkEnt(2, "B", mb, gb)>>
        a2 == MkEnt(3, "A", IF Family = "dc" THEN NoMeta ELSE [OwnMeta(3, "A") EXCEPT !.tx = IF LargeLoop THEN 3 ELSE 0],
                    AllStations)
        b2 == MkEnt(4, "B", IF Family = "dc" THEN NoMeta ELSE OwnMeta(4, "B"), gb)
    IN IF ~HasPartner THEN <<MkEnt(1, "A", ma, AllStations)>>
       ELSE IF Extras = 0 THEN base ELSE IF Extras = 1 THEN Append(base, a2) ELSE Append(Append(base, a2), b2)
NOrig == IF ~HasPartner THEN 1 ELSE 2 + Extras

NoLast == [act |-> "Init", i |-> 0, j |-> 0, op |-> "-", val |-> "-", how |-> "-", m |-> "-", dest |-> "-",
           out |-> "ok", alt |-> <<>>, altout |-> "ok", dev |-> "-"]

Init == /\ ents = InitEnts
        /\ step = 0 /\ nedits = 0 /\ ncopies = 0 /\ nreopens = 0
        /\ focus = "none"
        /\ last = NoLast

\* ------------------------------------------------------------------ LinkFrom(s, o)
\*   EM: s.receivers = o / s.transmitters = o / s.base_stations = o  (base.py:466-474, 502-515; tipper.py:76-94):
\*       the setter caches o, records o's uid in s's metadata, stores it, then hands the *same* dictionary to o and
\*       stores it there too (base.py:442-449): o's own parameters are replaced by s's.
\*   DC: both get {"Current Electrodes", "Potential Electrodes"} (direct_current.py:286-305, 367-386).
\*   Re-linking (Extras > 0): o may already belong to somebody else, s may have had another partner.  The new pair
\*   must be consistent: both ids on both, each resolves the other.  An abandoned partner keeps what it recorded
\*   (it still names - and resolves - the entity that was taken from it); that is tolerated, it is not a pair any more.
LinkRes(E, s, o, dev) ==
    LET m0 == IF Family = "dc" THEN SetP(SetP([NoMeta EXCEPT !.has = TRUE], E[s].role, s), E[o].role, o)
              ELSE SetP(E[s].live, E[o].role, o)
        \* the receivers' "Tx ID property" entry survives the link whichever side it is made from
        m  == IF LargeLoop /\ E[s].role = "B" /\ "LinkFromTxDropsTxId" \notin dev
              THEN [m0 EXCEPT !.tx = E[o].live.tx] ELSE m0
        \* as built the taken entity keeps a filled cache
        po == IF "RelinkKeepsCachedPartner" \in dev /\ E[o].ptr # 0 THEN E[o].ptr ELSE s
        \* as built whoever still holds s's dictionary object (its former partner) sees the new content, unsaved
        sh == IF "RelinkLeavesSharedDictionary" \in dev /\ Family = "em" THEN E[s].al \ {s, o} ELSE {}
        E1 == [x \in DOMAIN E |->
                 IF x = s THEN [E[x] EXCEPT !.live = m, !.file = m, !.ptr = o]
                 ELSE IF x = o THEN [E[x] EXCEPT !.live = m, !.file = m, !.ptr = po]
                 ELSE IF x \in sh THEN [E[x] EXCEPT !.live = m]
                 ELSE E[x]]
    IN Settle(Rejoin(E1, {s, o}, E[s].al \cup {s, o}))

LinkFrom(s, o) ==
    /\ HasPartner /\ s \in 1..NOrig /\ o \in 1..NOrig
    /\ ents[s].role # ents[o].role
    /\ LET E2 == LinkRes(ents, s, o, Deviations)
           EA == LinkRes(ents, s, o, KnownDevs)
       IN /\ ents' = E2
          /\ last' = [NoLast EXCEPT !.act = "LinkFrom", !.i = s, !.j = o,
                                    !.alt = IF EA = E2 THEN <<>> ELSE EA,
                                    !.dev = IF EA = E2 THEN "-"
                                            ELSE IF \E x \in DOMAIN ents \ {s, o} : EA[x] # E2[x]
                                                 THEN "RelinkLeavesSharedDictionary"
                                            ELSE IF EA[o].ptr # E2[o].ptr THEN "RelinkKeepsCachedPartner"
                                            ELSE "LinkFromTxDropsTxId"]
    /\ UNCHANGED <<nedits, ncopies, nreopens, focus>>

\* an entity whose partner was taken over by somebody else: it still points at it, the partner does not point back
Abandoned(E, i) == E[i].ptr # 0 /\ E[E[i].ptr].ptr # i

\* ------------------------------------------------------------------ Edit(i, op, val)
\*   every setter ends in edit_em_metadata (base.py:333-351): the new dictionary is stored on the entity and on
\*   every entity its receivers / transmitters / base_stations getters return (base.py:442-449).
EditRefused(op, val, dev) ==
    \/ val = "bogus"
    \/ MovingLoop /\ op = "loop_radius" /\ val = "none"     \* "Loop radius" is mandatory there (ground_tem.py:42, base.py:425-433)
    \/ Pair = "MLFEM" /\ op = "input_type" /\ "InputTypeSetterMLFEM" \in dev
    \/ Tipper /\ op = "unit" /\ "UnitSetterTIP" \in dev

EditRes(E, i, op, val, dev) ==
    LET e   == E[i]
        p   == e.ptr
        S   == {i} \cup (IF p = 0 THEN {} ELSE {p})
        m   == [e.live EXCEPT !.par = ApplyOp(e.live.par, op, val)]
        \* the setter builds a new "Waveform" dict only when there is no discretization yet (base.py:997-1000)
        fresh   == op = "timing_mark" /\ e.live.par["Waveform.Discretization"] = "absent"
        inplace == op \in {"waveform", "timing_mark"} /\ ~fresh
        E1  == [x \in DOMAIN E |->
                  IF x \in S THEN [E[x] EXCEPT !.live = m, !.file = m]
                  ELSE IF inplace /\ "WaveformAliased" \in dev /\ x \in e.al
                       \* the dict object is shared: the other holder sees the change, nothing is stored for it
                       THEN [E[x] EXCEPT !.live.par["Waveform.Timing mark"] = m.par["Waveform.Timing mark"],
                                         !.live.par["Waveform.Discretization"] = m.par["Waveform.Discretization"]]
                       ELSE E[x]]
    IN Settle(Rejoin(E1, S, IF fresh THEN S ELSE e.al \cup S))

\* a rejected edit changes nothing - except, as built, the half-applied deletion of "Loop radius"
RefusedRes(E, i, op, val, dev) ==
    IF MovingLoop /\ op = "loop_radius" /\ val = "none" /\ "LoopRadiusNoneHalfApplied" \in dev
    THEN LET S == {i} \cup ({E[i].ptr} \cap E[i].al)      \* the partner only if it holds the same dictionary
         IN [x \in DOMAIN E |-> IF x \in S THEN [E[x] EXCEPT !.live.par["Loop radius"] = "absent"] ELSE E[x]]
    ELSE E

Edit(i, op, val) ==
    /\ nedits < MaxEdits
    /\ ents[i].live.has /\ Family = "em"
    /\ ~Abandoned(ents, i)              \* what an edit through an abandoned partner should do is left open
    /\ (EditWhen = "copied") => ncopies >= MaxCopies
    /\ (Focus /\ focus # "none") => GroupOf(op) = focus
    /\ LET ref == EditRefused(op, val, Deviations)
           E2  == IF ref THEN RefusedRes(ents, i, op, val, Deviations) ELSE EditRes(ents, i, op, val, Deviations)
           EA  == IF EditRefused(op, val, KnownDevs) THEN RefusedRes(ents, i, op, val, KnownDevs)
                  ELSE EditRes(ents, i, op, val, KnownDevs)
       IN /\ ents' = E2
          /\ last' = [NoLast EXCEPT !.act = "Edit", !.i = i, !.op = op, !.val = val,
                                    !.out = IF ref THEN "refused" ELSE "ok",
                                    !.alt = IF EA = E2 /\ (ref <=> EditRefused(op, val, KnownDevs)) THEN <<>> ELSE EA,
                                    !.altout = IF EditRefused(op, val, KnownDevs) THEN "refused" ELSE "ok",
                                    !.dev = IF EA = E2 /\ (ref <=> EditRefused(op, val, KnownDevs)) THEN "-"
                                            ELSE IF op = "loop_radius" THEN "LoopRadiusNoneHalfApplied"
                                            ELSE IF EditRefused(op, val, KnownDevs)
                                                 THEN (IF Tipper THEN "UnitSetterTIP" ELSE "InputTypeSetterMLFEM")
                                                 ELSE "WaveformAliased"]
    /\ nedits' = nedits + 1
    /\ focus' = GroupOf(op)
    /\ UNCHANGED <<ncopies, nreopens>>

\* ------------------------------------------------------------------ Copy(i, how, m, dest)
\*   EM: base.py:230-292 (+ 646-741 for large loops); DC: direct_current.py:118-222.
\*   The copy gets default metadata with its own identifier, then every parameter of the source; if the source has
\*   a partner, the partner is copied with the corresponding mask and the copy's partner setter links the two.
CopyRes(E, i, m, destws) ==
    LET e    == E[i]
        p    == e.ptr
        n1   == Len(E) + 1
        n2   == Len(E) + 2
        g1   == Sel(e.role, e.geo, m)
        g2   == IF p = 0 THEN {} ELSE PartnerGeo(e.role, g1, E[p].geo)
        own  == IF Family = "dc" THEN NoMeta
                ELSE [OwnMeta(n1, e.role) EXCEPT !.par = CopyPar(e.live.par)]
        \* the receivers' copy owns the copied "Transmitter ID" data (base.py:668, 719, 799-800)
        rxid == IF e.role = "A" THEN n1 ELSE n2
        lm   == IF Family = "dc"
                THEN SetP(SetP([NoMeta EXCEPT !.has = TRUE], e.role, n1), Other(e.role), n2)
                ELSE [SetP(own, Other(e.role), n2) EXCEPT !.tx = IF LargeLoop THEN rxid ELSE 0]
        c1   == [role |-> e.role, ws |-> destws, live |-> IF p = 0 THEN own ELSE lm,
                 file |-> IF p = 0 THEN own ELSE lm, ptr |-> IF p = 0 THEN 0 ELSE n2,
                 geo |-> g1, src |-> i, mate |-> IF p = 0 THEN 0 ELSE n2, al |-> {}]
        c2   == [role |-> Other(e.role), ws |-> destws, live |-> lm, file |-> lm, ptr |-> n1,
                 geo |-> g2, src |-> p, mate |-> n1, al |-> {}]
        E1   == IF p = 0 THEN Append(E, c1) ELSE Append(Append(E, c1), c2)
        N    == IF p = 0 THEN {n1} ELSE {n1, n2}
    IN Settle(Rejoin(E1, N, IF IsTEM THEN e.al \cup N ELSE N))

CopySel(i, m) == Sel(ents[i].role, ents[i].geo, m)

\* as built (TIP1): the receivers' copy exists, unlinked, when the partner's copy fails
OrphanRes(E, i, m, destws) ==
    LET e   == E[i]
        n1  == Len(E) + 1
        own == [OwnMeta(n1, e.role) EXCEPT !.par = CopyPar(e.live.par)]
        c1  == [role |-> e.role, ws |-> destws, live |-> own, file |-> own, ptr |-> 0,
                geo |-> Sel(e.role, e.geo, m), src |-> i, mate |-> 0, al |-> {}]
    IN Settle(Rejoin(Append(E, c1), {n1}, {n1}))
CopyBreaks(i, m, dev) == /\ Pair = "TIP1" /\ "TipperSingleBaseMaskedCopy" \in dev
                         /\ ents[i].role = "A" /\ m # "-" /\ ents[i].ptr # 0

\* as built (IdInGroup): the copy of the A entity stops in copy_property_groups, after the object and its children
\* were created and before any metadata was copied or any link made; copying through B first makes B's copy
UnlinkedCopy(E, i, geo, destws, withpar) ==
    LET n == Len(E) + 1
        own == IF Family = "dc" THEN NoMeta
               ELSE [OwnMeta(n, E[i].role) EXCEPT !.par = IF withpar THEN CopyPar(E[i].live.par) ELSE DefPar]
    IN Append(E, [role |-> E[i].role, ws |-> destws, live |-> own, file |-> own, ptr |-> 0, geo |-> geo,
                  src |-> i, mate |-> 0, al |-> IF TrackAlias THEN {n} ELSE {}])
PgFailRes(E, i, m, destws) ==
    LET e == E[i]
        g1 == Sel(e.role, e.geo, m)
    IN IF e.role = "A" THEN Settle(UnlinkedCopy(E, i, g1, destws, FALSE))
       ELSE Settle(UnlinkedCopy(UnlinkedCopy(E, i, g1, destws, TRUE), e.ptr, PartnerGeo("B", g1, E[e.ptr].geo), destws, FALSE))
PgBreaks(i, dev) == /\ IdInGroup /\ Grouped /\ "CopyFailsOnGroupedIdData" \in dev
                    /\ (ents[i].role = "A" \/ ents[i].ptr # 0)

\* as built: large-loop transmitters whose receivers have no station cannot be copied (the copy stays, unlinked)
LoopBreaks(i, dev) == /\ LargeLoop /\ "EmptyPartnerBreaksLoopCopy" \in dev
                      /\ ents[i].role = "B" /\ ents[i].ptr # 0 /\ ents[ents[i].ptr].geo = {}

Copy(i, how, m, dest) ==
    /\ ncopies < MaxCopies
    /\ ~InGroup
    /\ ~Abandoned(ents, i)
    /\ (how = "plain") <=> (m = "-")
    /\ (m # "-") => ents[i].geo # {}                     \* the extent of an object without vertices is C13 territory (points.py:54 raises)
    /\ (Pair = "TIP1" /\ ents[i].role = "B") => m = "-"     \* a single vertex has no segment to select (cell_object.py:67-75)
    /\ LET \* a mask / extent that selects nothing: copy_from_extent returns None (entity_container.py:149-151);
           \* a plain copy is not a selection: an entity without stations (see EmptyPartnerBreaksLoopCopy) is copied as it is
           none == m # "-" /\ CopySel(i, m) = {}
           dws  == IF dest = "same" THEN ents[i].ws ELSE 3 - ents[i].ws
           Res(dev) == IF none THEN ents
                       ELSE IF PgBreaks(i, dev) THEN PgFailRes(ents, i, m, dws)
                       ELSE IF LoopBreaks(i, dev) THEN Settle(UnlinkedCopy(ents, i, CopySel(i, m), dws, TRUE))
                       ELSE IF CopyBreaks(i, m, dev) THEN OrphanRes(ents, i, m, dws)
                       ELSE CopyRes(ents, i, m, dws)
           Out(dev) == IF none THEN "none"
                       ELSE IF PgBreaks(i, dev) \/ LoopBreaks(i, dev) \/ CopyBreaks(i, m, dev) THEN "refused" ELSE "ok"
           E2   == Res(Deviations)
           EA   == Res(KnownDevs)
       IN /\ (how = "mask") => ~none                       \* a boolean mask selecting nothing is not exercised
          /\ ents' = E2
          /\ last' = [NoLast EXCEPT !.act = "Copy", !.i = i, !.how = how, !.m = m, !.dest = dest,
                                    !.out = Out(Deviations),
                                    !.alt = IF EA = E2 /\ Out(KnownDevs) = Out(Deviations) THEN <<>> ELSE EA,
                                    !.altout = Out(KnownDevs),
                                    !.dev = IF EA = E2 /\ Out(KnownDevs) = Out(Deviations) THEN "-"
                                            ELSE IF PgBreaks(i, KnownDevs) THEN "CopyFailsOnGroupedIdData"
                                            ELSE IF LoopBreaks(i, KnownDevs) THEN "EmptyPartnerBreaksLoopCopy"
                                            ELSE "TipperSingleBaseMaskedCopy"]
    /\ ncopies' = ncopies + 1
    /\ UNCHANGED <<nedits, nreopens, focus>>

\* ------------------------------------------------------------------ CopyGroup(dest)
\*   the originals are the children of one container group; group.copy(parent) copies every child into the new group
\*   (groups/base.py).  Specified: every child is copied once and the copies of a linked pair are linked to each other.
\*   As built each linked child brings its partner along, so the pair arrives twice.
CopyGroupRes(E, destws, dev) ==
    IF ~HasPartner THEN CopyRes(E, 1, "-", destws)
    ELSE IF E[1].ptr = 2 /\ "GroupCopyDuplicatesPair" \notin dev THEN CopyRes(E, 1, "-", destws)
    ELSE CopyRes(CopyRes(E, 1, "-", destws), 2, "-", destws)

CopyGroup(dest) ==
    /\ InGroup /\ ncopies < MaxCopies
    /\ Len(ents) = NOrig /\ Extras = 0                   \* the group holds the originals only
    /\ LET dws == IF dest = "same" THEN 1 ELSE 2
           E2  == CopyGroupRes(ents, dws, Deviations)
           EA  == CopyGroupRes(ents, dws, KnownDevs)
       IN /\ ents' = E2
          /\ last' = [NoLast EXCEPT !.act = "CopyGroup", !.dest = dest,
                                    !.alt = IF EA = E2 THEN <<>> ELSE EA,
                                    !.dev = IF EA = E2 THEN "-" ELSE "GroupCopyDuplicatesPair"]
    /\ ncopies' = ncopies + 1
    /\ UNCHANGED <<nedits, nreopens, focus>>

\* ------------------------------------------------------------------ Reopen
\*   both workspaces are closed and opened again: every object is new, its metadata is what the file holds
\*   (h5_reader.py:259-296) and partners are resolved from it on first use.
ReopenRes(E) ==
    Settle([x \in DOMAIN E |-> [E[x] EXCEPT !.live = E[x].file, !.ptr = 0, !.al = IF TrackAlias THEN {x} ELSE {}]])

Reopen ==
    /\ nreopens < MaxReopens
    /\ ents' = ReopenRes(ents)
    /\ last' = [NoLast EXCEPT !.act = "Reopen"]
    /\ nreopens' = nreopens + 1
    /\ UNCHANGED <<nedits, ncopies, focus>>

\* ------------------------------------------------------------------ next-state relation
Act ==
    \/ \E s \in 1..NOrig : \E o \in 1..NOrig : LinkFrom(s, o)
    \/ \E i \in DOMAIN ents : \E op \in Ops : \E v \in Vals(op) : Edit(i, op, v)
    \/ \E i \in DOMAIN ents : \E hd \in CopyModes :
          LET how  == CASE hd \in {"plain-same", "plain-other"} -> "plain"
                        [] hd \in {"mask-same", "mask-other"} -> "mask"
                        [] OTHER -> "extent"
              dest == IF hd \in {"plain-same", "mask-same", "extent-same"} THEN "same" ELSE "other"
          IN IF how = "plain" THEN Copy(i, how, "-", dest)
             ELSE \E m \in MaskNames : Copy(i, how, m, dest)
    \/ \E d \in {"same", "other"} : CopyGroup(d)
    \/ Reopen

Next == /\ step < MaxDepth
        /\ step' = step + 1
        /\ Act

Spec == Init /\ [][Next]_vars

\* ------------------------------------------------------------------ the property (C20)
Ids == DOMAIN ents
Linked(i) == ents[i].ptr # 0 /\ ents[ents[i].ptr].ptr = i      \* a pair: each resolves the other
RoleA(i, j) == IF ents[i].role = "A" THEN i ELSE j
RoleB(i, j) == IF ents[i].role = "B" THEN i ELSE j

\* partners point at each other, live in the same workspace and have complementary roles
Mutual == \A i \in Ids : ents[i].ptr # 0 =>
            LET p == ents[i].ptr IN
            /\ p \in Ids /\ p # i
            /\ (Extras = 0 => ents[p].ptr = i)            \* without re-linking nobody is ever abandoned
            /\ ents[p].ws = ents[i].ws
            /\ ents[p].role = Other(ents[i].role)

\* both identifiers are recorded on both entities, live and in the file
BothIds == \A i \in Ids : Linked(i) =>
            LET p == ents[i].ptr IN
            /\ ents[i].live.has /\ ents[i].file.has
            /\ ents[i].live.pa = RoleA(i, p) /\ ents[i].live.pb = RoleB(i, p)
            /\ ents[i].file.pa = RoleA(i, p) /\ ents[i].file.pb = RoleB(i, p)

\* once a link has been made from either side, both originals resolve each other
LinkSticks == [][(last'.act = "LinkFrom") => (ents'[last'.i].ptr = last'.j /\ ents'[last'.j].ptr = last'.i)]_vars

\* shared parameters (the whole metadata record) agree on both sides after every action
SharedEqual == \A i \in Ids : Linked(i) => ents[i].live = ents[ents[i].ptr].live

\* large loop: the receivers' "Tx ID property" entry is never lost by linking
TxIdKept == LargeLoop => \A i \in Ids : (ents[i].role = "A" /\ Linked(i)) => ents[i].live.tx = i

\* write-through: what the file holds is what the objects hold
WriteThrough == \A i \in Ids : ents[i].file = ents[i].live

\* after Reopen (and always) whatever the metadata records as partner is what the getter returns
Resolvable == \A i \in Ids :
                 LET q == PKey(ents[i].live, Other(ents[i].role)) IN
                 (ents[i].live.has /\ q # 0) => ents[i].ptr = q
ReopenResolves == [][(last'.act = "Reopen") => (\A i \in Ids : ents[i].ptr # 0 => ents'[i].ptr = ents[i].ptr)]_vars

\* a copy of a linked entity comes with a copy of the partner; the two are linked to each other and to nobody else
CopiesPaired == \A i \in Ids : (ents[i].src # 0 /\ ents[i].mate # 0) =>
                   /\ ents[i].ptr = ents[i].mate
                   /\ ents[ents[i].mate].ptr = i
                   /\ ents[i].ptr \notin {ents[i].src, ents[ents[i].src].ptr}
CopyCopiesPartner ==
    [][(last'.act = "Copy" /\ last'.out = "ok" /\ ents[last'.i].ptr # 0)
         => /\ Len(ents') = Len(ents) + 2
            /\ ents'[Len(ents) + 1].ptr = Len(ents) + 2
            /\ ents'[Len(ents) + 2].ptr = Len(ents) + 1
            /\ \A x \in DOMAIN ents : [ents'[x] EXCEPT !.al = {}] = [ents[x] EXCEPT !.al = {}]]_vars

\* copying the group that holds a linked pair yields exactly one copy of each, linked to each other
GroupCopyOnce == [][(last'.act = "CopyGroup") => Len(ents') = Len(ents) + NOrig]_vars

\* grouped pairs: the partner holds exactly the loops / dipoles the receivers refer to
GroupsExact == Grouped => \A i \in Ids : (ents[i].role = "A" /\ Linked(i)) =>
                  LET referred == {GrpOf(s) : s \in ents[i].geo}
                      copiedThroughA == ents[i].src # 0 /\ ents[i].mate = i + 1
                  IN /\ referred \subseteq ents[ents[i].ptr].geo
                     \* a copy made through the receivers (or of a survey without spare loops) brings exactly those
                     /\ (copiedThroughA \/ ~SpareLoop) => ents[ents[i].ptr].geo = referred

\* an edit touches the edited entity and its partner, nobody else (copies are not tied to their originals)
EditIsLocal ==
    [][(last'.act = "Edit")
         => \A x \in DOMAIN ents :
               (x # last'.i /\ x # ents[last'.i].ptr)
                  => (ents'[x].live = ents[x].live /\ ents'[x].file = ents[x].file /\ ents'[x].ptr = ents[x].ptr)]_vars
\* every value the class documents as acceptable can be set through the public setter
ValidEditsAccepted ==
    [][(last'.act = "Edit" /\ last'.val # "bogus" /\ ~(MovingLoop /\ last'.op = "loop_radius" /\ last'.val = "none"))
         => last'.out = "ok"]_vars
RefusedIsNoop == [][(last'.out # "ok") => ents' = ents]_vars      \* rejected edits and copies that select nothing

\* ------------------------------------------------------------------ export
\* compact: parameters are printed as the difference from the class defaults (printed once as a CASE line),
\* the file metadata as "=" when it equals the live metadata
ShownMeta(m) == [has |-> m.has, pa |-> m.pa, pb |-> m.pb, tx |-> m.tx,
                 d |-> [f \in {g \in Fields : m.par[g] # DefPar[g]} |-> m.par[f]]]
Shown(E) == [x \in DOMAIN E |-> [role |-> E[x].role, ws |-> E[x].ws, live |-> ShownMeta(E[x].live),
                                  file |-> IF E[x].file = E[x].live THEN [same |-> TRUE] ELSE ShownMeta(E[x].file),
                                  ptr |-> E[x].ptr, geo |-> E[x].geo, refs |-> Refs(E, x)]]
ASSUME PrintT(<<"CASE", ToJson([pair |-> Pair, defpar |-> DefPar, idingroup |-> IdInGroup, ingroup |-> InGroup])>>)
ExportState == PrintT(<<"ST", TLCFP(vw), TLCFP(<<vw, 1>>), ToJson([ents |-> Shown(ents)])>>)
ExportTrans == PrintT(<<"TR", TLCFP(vw), TLCFP(<<vw, 1>>), TLCFP(vw'), TLCFP(<<vw', 1>>),
                        ToJson([last' EXCEPT !.alt = IF @ = <<>> THEN <<>> ELSE Shown(@)])>>)
=============================================================================
