SPECIFICATION Spec
CONSTANTS
  Pair = "MT"
  MaxDepth = 5
  MaxCopies = 2
  MaxEdits = 1
  MaxReopens = 2
  EditOps = {"channels"}
  CopyModes = {"plain-same", "mask-same", "extent-same", "plain-other", "extent-other"}
  MaskNames = {"lo", "mid"}
  Focus = TRUE
  BadValues = FALSE
  ValuesPerOp = 1
  EditWhen = "copied"
  Extras = 0
  IdInGroup = FALSE
  InGroup = FALSE
  Deviations = {}
VIEW vw
INVARIANT Mutual
INVARIANT BothIds
INVARIANT SharedEqual
INVARIANT TxIdKept
INVARIANT WriteThrough
INVARIANT Resolvable
INVARIANT CopiesPaired
INVARIANT GroupsExact
PROPERTY LinkSticks
PROPERTY ReopenResolves
PROPERTY CopyCopiesPartner
PROPERTY EditIsLocal
PROPERTY RefusedIsNoop
PROPERTY ValidEditsAccepted
PROPERTY GroupCopyOnce
INVARIANT ExportState
ACTION_CONSTRAINT ExportTrans
CHECK_DEADLOCK FALSE
