SPECIFICATION Spec
CONSTANTS
  Arity = 2
  NVs = {2}
  MinCells = 0
  MaxCells = 2
  AnyOrientation = TRUE
  InitData = {"none", "full"}
  MaxData = 2
  MaxIx = 2
  MaxDepth = 2
  CellMask = TRUE
  CopyClear = TRUE
  Grow = 1
  GrowDepth = 2
  DataCopyDepth = 2
  Valueless = TRUE
  Deviations = {}
VIEW vw
INVARIANT LengthsAgree
INVARIANT CellsReferenceVertices
INVARIANT CellsJoinSameCoords
INVARIANT VertexValuesFollow
INVARIANT CellValuesFollow
INVARIANT VertsDistinct
INVARIANT ExportState
ACTION_CONSTRAINT ExportTrans
PROPERTY OnlySurvivors
CHECK_DEADLOCK FALSE
