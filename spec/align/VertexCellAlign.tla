--------------------------- MODULE VertexCellAlign ---------------------------
(* C07 - data stay aligned with the geometry they are attached to.                                *)
(*                                                                                                *)
(* One object (Points: Arity = 0, Curve: Arity = 2, Surface: Arity = 3) in one workspace file.     *)
(*   verts : sequence of distinct coordinate tokens (token t = the vertex created at position t)   *)
(*   cells : sequence of Arity-tuples of 0-BASED vertex indices, exactly as geoh5py stores them    *)
(*   cids  : ghost identity of every cell (parallel to cells, moved by the same arithmetic)        *)
(*   data  : the data children in creation order; [name, assoc, has, vals, rd]                     *)
(*           has = FALSE : a child without values (add_data without 'values')                      *)
(*           vals        : value tokens  name*100 + gen*10 + position-at-assignment, or NDV        *)
(*           rd = FALSE  : reading .values raises (only ever produced by a named deviation)        *)
(*   cached    : FALSE right after Reopen: the next operation starts from the file                  *)
(*   twin      : the object under observation is the target of a masked Data.copy (only read back)  *)
(*   partsRead : (curves) Curve.parts has been computed on this object since it was loaded - a pure *)
(*               history marker: it makes the cover visit "parts read, removal, caches dropped"     *)
(* The operations are written as pure operators  Op(S, args, D) -> [out, st]  where D is the set   *)
(* of named deviations in force, so that the same run can print, next to the specified result,     *)
(* what each known as-built deviation of geoh5py would produce (field devs of the TR label).       *)
(* The index arithmetic follows the code line by line; the ghost variables expect / cexpect /      *)
(* ccoords are keyed by TOKENS and never touched by that arithmetic - the invariants compare them. *)
EXTENDS Integers, Sequences, FiniteSets, TLC, TLCExt, Json

CONSTANTS
    Arity,           \* 0 Points, 2 Curve, 3 Surface
    NVs,             \* set of initial vertex counts
    MinCells, MaxCells,
    AnyOrientation,  \* FALSE: initial cells list their vertices in increasing order only
    InitData,        \* subset of {"none", "full"}: initial objects without data / with one full data set per association
    MaxData,         \* data names 1..MaxData
    MaxIx,           \* removal index sequences have length 1..MaxIx
    MaxDepth,        \* number of operations per behaviour
    Valueless,       \* TRUE: AddData may create a child without values
    CellMask,        \* TRUE: cell objects also offer copy(cell_mask=...)
    CopyClear,       \* TRUE: copy(clear_cache=True) and (curves) reading Curve.parts are offered
    Grow,            \* GrowVertices appends 1..Grow vertices (0: not offered), in states first reached after < GrowDepth operations
    GrowDepth,
    DataCopyDepth,   \* Data.copy(parent=twin, mask=...) is offered in states first reached after < DataCopyDepth operations
    Deviations       \* {} = the specification ; a subset of AsBuilt = geoh5py as built (negative controls)

VARIABLES obj, expect, cexpect, ccoords, cached, partsRead, twin, depth, last

NDV == 0 - 1
AsBuilt == {"NoTouchRaises", "ValuelessChildBreaksRemoval", "RefusedAddLeavesChild", "EmptyValuesUnreadable",
            "GrowKeepsCachedLength", "ShrinkAcceptedWhenNotLoaded"}

MaxNV == CHOOSE m \in NVs : \A x \in NVs : x <= m
Toks == 1..(MaxNV + Grow)      \* coordinate tokens; a token freed by a removal may be used again by a new vertex
CIds == 1..MaxCells
Names == 1..MaxData
Assocs == IF Arity = 0 THEN {"VERTEX"} ELSE {"VERTEX", "CELL"}

\* ---------------------------------------------------------------- sequences with 0-based indices
IxSet(ix) == {ix[i] : i \in DOMAIN ix}
\* np.delete(seq, R, axis=0) / seq[mask] with mask[R] = False : drop the 0-based positions in R
DeleteIdx(seq, R) ==
    LET F[i \in 0..Len(seq)] ==
            IF i = 0 THEN <<>> ELSE IF (i - 1) \in R THEN F[i-1] ELSE Append(F[i-1], seq[i])
    IN F[Len(seq)]
MinOf(S) == CHOOSE p \in S : \A q \in S : p <= q
N(S, assoc) == IF assoc = "VERTEX" THEN Len(S.verts) ELSE Len(S.cells)
Res(out, st) == [out |-> out, st |-> st]

\* ---------------------------------------------------------------- values
NewVals(name, gen, k) == [i \in 1..k |-> name * 100 + gen * 10 + i]
\* numeric_data.py:74-98 format_length: shorter arrays are completed with the no-data value
Pad(vals, n) == vals \o [i \in 1..(n - Len(vals)) |-> NDV]
DataRec(name, assoc, has, vals) == [name |-> name, assoc |-> assoc, has |-> has, vals |-> vals, rd |-> TRUE]

\* object_base.py:124-183 add_data -> workspace.create_entity -> NumericData.values setter -> format_length.
\* k = -1: no 'values' key.  A longer array is refused (numeric_data.py:88-95); as built the refused
\* child stays in parent.children without values (deviation RefusedAddLeavesChild, name 0).
AddData(S, name, assoc, k, D) ==
    LET n == N(S, assoc) IN
    IF k > n
    THEN Res("refused", IF "RefusedAddLeavesChild" \in D
                        THEN [S EXCEPT !.data = Append(@, DataRec(0, assoc, FALSE, <<>>))] ELSE S)
    ELSE Res("ok", [S EXCEPT !.data = Append(@, IF k < 0 THEN DataRec(name, assoc, FALSE, <<>>)
                                                ELSE DataRec(name, assoc, TRUE, Pad(NewVals(name, 0, k), n)))])

\* numeric_data.py:62-72 values setter (format_values -> format_length)
SetValues(S, p, k, D) ==
    LET n == N(S, S.data[p].assoc) IN
    IF k > n THEN Res("refused", S)
    ELSE Res("ok", [S EXCEPT !.data[p] = DataRec(S.data[p].name, S.data[p].assoc, TRUE,
                                                 Pad(NewVals(S.data[p].name, 1, k), n))])

\* object_base.py:525-549 remove_children_values: every child of the association, in children order,
\* gets values = np.delete(values, indices).  As built a child without values makes np.delete(None, ...)
\* raise in the middle of the loop (deviation ValuelessChildBreaksRemoval): children after it keep
\* their old arrays.  Specified: children without values are skipped.
\* clear = the clear_cache argument (:547-548 clear_array_attributes): the child forgets its array and
\* reads it back from the file on the next access - which as built fails for a zero-length array
\* (deviation EmptyValuesUnreadable, see Reopen).
TrimChildren(data, assoc, R, D, clear) ==
    LET ch == IF "ValuelessChildBreaksRemoval" \in D
              THEN {p \in DOMAIN data : data[p].assoc = assoc /\ ~data[p].has} ELSE {}
        stop == IF ch = {} THEN Len(data) + 1 ELSE MinOf(ch)
    IN [err |-> ch # {},
        data |-> [p \in DOMAIN data |->
                    IF p < stop /\ data[p].assoc = assoc /\ data[p].has
                    THEN [data[p] EXCEPT !.vals = DeleteIdx(@, R),
                                         !.rd = ~(clear /\ "EmptyValuesUnreadable" \in D /\ DeleteIdx(data[p].vals, R) = <<>>)]
                    ELSE data[p]]]

\* points.py:104-133 Points.remove_vertices
RemoveVerticesPoints(S, ix, clear, D) ==
    LET n == Len(S.verts)
        R == IxSet(ix) IN
    IF \E i \in R : i > n - 1 THEN Res("refused", S)                      \* points.py:124-128
    ELSE LET S1 == [S EXCEPT !.verts = DeleteIdx(@, R)]                     \* points.py:130-132
             t == TrimChildren(S.data, "VERTEX", R, D, clear)               \* points.py:133
         IN Res(IF t.err THEN "error" ELSE "ok", [S1 EXCEPT !.data = t.data])

\* cell_object.py:79-107 CellObject.remove_cells, R = set of 0-based cell indices (already range-checked)
DropCells(S, R, clear, D) ==
    LET S1 == [S EXCEPT !.cells = DeleteIdx(@, R), !.cids = DeleteIdx(@, R)] \* cell_object.py:103-105
        t == TrimChildren(S.data, "CELL", R, D, clear)                       \* cell_object.py:107
    IN Res(IF t.err THEN "error" ELSE "ok", [S1 EXCEPT !.data = t.data])

RemoveCells(S, ix, clear, D) ==
    LET R == IxSet(ix) IN
    IF \E i \in R : i > Len(S.cells) - 1 THEN Res("refused", S)             \* cell_object.py:97-101
    ELSE DropCells(S, R, clear, D)

\* cell_object.py:109-146 CellObject.remove_vertices
RemoveVerticesCells(S, ix, clear, D) ==
    LET n == Len(S.verts)
        R == IxSet(ix) IN
    IF \E i \in R : i > n - 1 THEN Res("refused", S)                        \* cell_object.py:129-133
    ELSE
    LET kept == (0..(n-1)) \ R                                               \* vert_index, :135-136
        S1 == [S EXCEPT !.verts = DeleteIdx(@, R)]                           \* :137-140
        t == TrimChildren(S.data, "VERTEX", R, D, clear)                     \* :141
        S2 == [S1 EXCEPT !.data = t.data]
        \* :143-144 new_index = ones ; new_index[vert_index] = arange(n_kept)
        newIndex == [i \in 0..(n-1) |-> IF i \in R THEN 1 ELSE Cardinality({j \in kept : j < i})]
        \* :145 cells with a removed vertex
        touched == {c \in 0..(Len(S.cells)-1) : \E a \in 1..Arity : S.cells[c+1][a] \in R}
    IN  IF t.err THEN Res("error", S2)
        ELSE IF touched = {} /\ "NoTouchRaises" \in D
        \* as built: remove_cells(np.where(...)) gets an empty index array, np.max([]) raises
        \* (cell_object.py:97-99) and line :146 (renumbering) is never reached
        THEN Res("error", S2)
        ELSE LET r == DropCells(S2, touched, FALSE, D) IN                    \* :145 (clear_cache is not passed on)
             IF r.out # "ok" THEN r                                          \* cells dropped, not renumbered
             ELSE Res("ok", [r.st EXCEPT !.cells =                          \* :146 cells = new_index[cells]
                                [c \in DOMAIN r.st.cells |-> [a \in 1..Arity |-> newIndex[r.st.cells[c][a]]]]])

RemoveVertices(S, ix, clear, D) ==
    IF Arity = 0 THEN RemoveVerticesPoints(S, ix, clear, D) ELSE RemoveVerticesCells(S, ix, clear, D)

\* points.py:135-163 / cell_object.py:148-231 copy(mask=...) and data.py:66-117 Data.copy.
\* The copy becomes the object under observation (the harness also checks the source is untouched).
MaskedCopy(S, mask, D) ==
    LET n == Len(S.verts) IN
    IF Len(mask) # n THEN Res("refused", S)                                  \* points.py:148-152, cell_object.py:163-167
    ELSE
    LET R == {i \in 0..(n-1) : ~mask[i+1]}
        kept == (0..(n-1)) \ R
        newId == [i \in 0..(n-1) |-> IF i \in R THEN 1 ELSE Cardinality({j \in kept : j < i})]  \* cell_object.py:173-174
        CR == {c \in 0..(Len(S.cells)-1) : \E a \in 1..Arity : S.cells[c+1][a] \in R}            \* ~cell_mask, :176-177
        kc == DeleteIdx(S.cells, CR)                                                             \* :179-182
    IN Res("ok", [verts |-> DeleteIdx(S.verts, R),
                  cells |-> [c \in DOMAIN kc |-> [a \in 1..Arity |-> newId[kc[c][a]]]],
                  cids  |-> DeleteIdx(S.cids, CR),
                  data  |-> [p \in DOMAIN S.data |->                                             \* data.py:87-108
                               IF ~S.data[p].has THEN S.data[p]
                               ELSE [S.data[p] EXCEPT !.vals = DeleteIdx(@, IF S.data[p].assoc = "VERTEX" THEN R ELSE CR)]]])

\* cell_object.py:148-231 copy(cell_mask=...) without a vertex mask: every vertex is kept, the cells and
\* the CELL data are sub-sampled (:181-182, :206-211), VERTEX data are copied whole (child_mask = mask = None)
CellMaskedCopy(S, cmask, D) ==
    \* (cell_mask is not validated by geoh5py; masks of another length are left to numpy and not offered here)
    LET CR == {c \in 0..(Len(S.cells)-1) : ~cmask[c+1]} IN
    Res("ok", [S EXCEPT !.cells = DeleteIdx(@, CR), !.cids = DeleteIdx(@, CR),
                        !.data = [p \in DOMAIN S.data |->
                                    IF S.data[p].has /\ S.data[p].assoc = "CELL"
                                    THEN [S.data[p] EXCEPT !.vals = DeleteIdx(@, CR)] ELSE S.data[p]]])

\* A curve whose segments join consecutive vertices, in increasing order.  For such a curve the parts
\* inferred from the cells (curve.py:137-155) give back exactly these cells (curve.py:58-66).
ChainLike(S) ==
    /\ Len(S.verts) > 0
    /\ \A c \in DOMAIN S.cells : S.cells[c][2] = S.cells[c][1] + 1
    /\ \A c, e \in DOMAIN S.cells : c < e => S.cells[c][1] < S.cells[e][1]

\* close the workspace, open the file again, read everything back.  As built h5_reader.fetch_values
\* indexes values[0] and raises on a zero-length array (deviation EmptyValuesUnreadable).
Reopen(S, D) ==
    Res("ok", IF "EmptyValuesUnreadable" \in D
              THEN [S EXCEPT !.data = [p \in DOMAIN S.data |->
                        IF S.data[p].has /\ Len(S.data[p].vals) = 0 THEN [S.data[p] EXCEPT !.rd = FALSE] ELSE S.data[p]]]
              ELSE S)

\* points.py:87-102 vertices setter with a LONGER array whose first rows are the existing vertices
\* (k > 0 new rows; an array with fewer rows is refused, :93-97, modelled as k = -1).
\* Specified: existing values stay on their vertices, the new vertices carry the no-data value, every
\* VERTEX array has one entry per vertex (live = stored = re-opened); cells keep their indices and therefore
\* the coordinates they join.  As built (deviation GrowKeepsCachedLength) the setter does not touch the
\* children: an array that is cached in memory keeps its old length (numeric_data.py:51-60 only pads when it
\* fetches from the file), so only children that were not loaded yet (~wasCached) come out padded.
NewToks(S, k) == LET F[i \in 0..k] == IF i = 0 THEN <<>>
                                       ELSE Append(F[i-1], MinOf((Toks \ IxSet(S.verts)) \ IxSet(F[i-1])))
                 IN F[k]
\* As built the refusal of a shorter array compares with the cached `_vertices` only (:93): on an object
\* whose vertices were not loaded yet it is skipped, the last vertex disappears and nothing else is adjusted
\* (deviation ShrinkAcceptedWhenNotLoaded).
GrowVertices(S, k, wasCached, D) ==
    IF k < 0 THEN (IF "ShrinkAcceptedWhenNotLoaded" \in D /\ ~wasCached
                   THEN Res("ok", [S EXCEPT !.verts = SubSeq(@, 1, Len(@) - 1)]) ELSE Res("refused", S))
    ELSE LET n == Len(S.verts) + k IN
         Res("ok", [S EXCEPT !.verts = @ \o NewToks(S, k),
                             !.data = [p \in DOMAIN S.data |->
                                         IF S.data[p].has /\ S.data[p].assoc = "VERTEX"
                                            /\ ~("GrowKeepsCachedLength" \in D /\ wasCached)
                                         THEN [S.data[p] EXCEPT !.vals = Pad(@, n)] ELSE S.data[p]]])

\* data.py:66-117 Data.copy(parent=twin, mask=...) of ONE child onto another object with the same geometry
\* (twin = object.copy(copy_children=False)): the target has as many elements as the source array, so the
\* array keeps its length and what the mask leaves out becomes no-data (:104-108) - it is not sub-sampled
\* (:102-103 applies only when the target is smaller).  A mask of another shape is refused (:91-94).
\* The twin, carrying that single child, becomes the object under observation.
DataMaskedCopy(S, p, mask, D) ==
    LET d == S.data[p] IN
    IF Len(mask) # Len(d.vals) THEN Res("refused", S)
    ELSE Res("ok", [S EXCEPT !.data = <<DataRec(d.name, d.assoc, TRUE,
                                               [i \in DOMAIN d.vals |-> IF mask[i] THEN d.vals[i] ELSE NDV])>>])

\* object.copy(clear_cache=True) (workspace.py:306-308 clear_array_attributes on the source, its children
\* and the copy): the duplicate must equal the source, and the source - which stays the object under
\* observation - must read everything back from the file (which the observation after the action does).
\* Offered on curves only when ChainLike: copy() reads Curve.parts, and once the cell cache is dropped
\* the cells getter rebuilds the cells from the cached parts (curve.py:56-66), which is the identity for
\* chains only (see notes/C07.md "observed, not modelled").
CopyClearCache(S, D) == Reopen(S, D)

\* ---------------------------------------------------------------- the operations offered in a state
Act(nm) == [act |-> nm, name |-> 0, assoc |-> "", k |-> 0, ix |-> <<>>, mask |-> <<>>, clear |-> FALSE]
\* clear_cache = TRUE is offered with the single-index removals only (keeps the graph small)
Clears(ix) == IF Len(ix) = 1 THEN BOOLEAN ELSE {FALSE}
Lens(n) == {n, n + 1} \cup (IF n > 0 THEN {n - 1} ELSE {})
IxSeqs(n) == UNION {[1..l -> 0..(n-1)] : l \in 1..MaxIx}           \* repeated, unsorted, first/last/all
             \cup {<<n>>} \cup (IF n > 0 THEN {<<0, n>>} ELSE {})  \* out of range: refused
Masks(n) == [1..n -> BOOLEAN] \cup {[i \in 1..(n+1) |-> TRUE]} \cup (IF n > 0 THEN {[i \in 1..(n-1) |-> TRUE]} ELSE {})
\* one element left out / one element kept (never all TRUE: that is a plain copy), plus one wrong length
DataMasks(k) == {m \in [1..k -> BOOLEAN] : Cardinality({i \in 1..k : m[i]}) \in {1, k - 1} \ {k}}
                \cup {[i \in 1..(k+1) |-> i # 1]}
UsedNames(S) == {S.data[p].name : p \in DOMAIN S.data}
PosOf(S, name) == CHOOSE p \in DOMAIN S.data : S.data[p].name = name

FileActs(S) ==
     (IF cached THEN {Act("Reopen")} ELSE {})
  \cup (IF CopyClear /\ cached /\ (Arity # 2 \/ ChainLike(S)) THEN {Act("CopyClearCache")} ELSE {})

Acts(S) ==
    IF twin THEN FileActs(S) ELSE       \* the target of a data copy is only read back
    LET free == Names \ UsedNames(S) IN
       (IF free = {} THEN {}
        ELSE UNION {{[Act("AddData") EXCEPT !.name = MinOf(free), !.assoc = a, !.k = k] :
                        k \in Lens(N(S, a)) \cup (IF Valueless THEN {0 - 1} ELSE {})} : a \in Assocs})
  \cup UNION {{[Act("SetValues") EXCEPT !.name = S.data[p].name, !.assoc = S.data[p].assoc, !.k = k] :
                        k \in Lens(N(S, S.data[p].assoc))} : p \in {q \in DOMAIN S.data : S.data[q].name # 0}}
  \cup UNION {{[Act("RemoveVertices") EXCEPT !.ix = ix, !.clear = c] : c \in Clears(ix)} : ix \in IxSeqs(Len(S.verts))}
  \cup (IF Arity = 0 THEN {}
        ELSE UNION {{[Act("RemoveCells") EXCEPT !.ix = ix, !.clear = c] : c \in Clears(ix)} : ix \in IxSeqs(Len(S.cells))})
  \cup {[Act("MaskedCopy") EXCEPT !.mask = m] : m \in Masks(Len(S.verts))}
  \cup (IF Arity = 0 \/ ~CellMask THEN {} ELSE {[Act("CellMaskedCopy") EXCEPT !.mask = m] : m \in [1..Len(S.cells) -> BOOLEAN]})
  \cup FileActs(S)
  \cup (IF depth >= DataCopyDepth THEN {}
        ELSE UNION {{[Act("DataMaskedCopy") EXCEPT !.name = S.data[p].name, !.assoc = S.data[p].assoc, !.mask = m] :
                        m \in DataMasks(Len(S.data[p].vals))} :
                    p \in {q \in DOMAIN S.data : S.data[q].has /\ S.data[q].name # 0 /\ Len(S.data[q].vals) > 0}})
  \cup (IF CopyClear /\ Arity = 2 /\ ~partsRead THEN {Act("ReadParts")} ELSE {})
  \cup (IF Grow = 0 \/ depth >= GrowDepth THEN {}
        ELSE {[Act("GrowVertices") EXCEPT !.k = k] :
                 k \in {j \in 1..Grow : Len(S.verts) + j <= MaxNV + Grow} \cup (IF Len(S.verts) > 0 THEN {0 - 1} ELSE {})})

Step(S, a, D) ==
    CASE a.act = "AddData"        -> AddData(S, a.name, a.assoc, a.k, D)
      [] a.act = "SetValues"      -> SetValues(S, PosOf(S, a.name), a.k, D)
      [] a.act = "RemoveVertices" -> RemoveVertices(S, a.ix, a.clear, D)
      [] a.act = "RemoveCells"    -> RemoveCells(S, a.ix, a.clear, D)
      [] a.act = "MaskedCopy"     -> MaskedCopy(S, a.mask, D)
      [] a.act = "CellMaskedCopy" -> CellMaskedCopy(S, a.mask, D)
      [] a.act = "Reopen"         -> Reopen(S, D)
      [] a.act = "CopyClearCache" -> CopyClearCache(S, D)
      [] a.act = "DataMaskedCopy" -> DataMaskedCopy(S, PosOf(S, a.name), a.mask, D)
      [] a.act = "GrowVertices"   -> GrowVertices(S, a.k, cached, D)
      [] a.act = "ReadParts"      -> Res("ok", S)          \* curve.py:128-157: computes and caches, changes nothing

\* ---------------------------------------------------------------- what the harness sees
View(S) == [verts |-> S.verts, cells |-> S.cells, data |-> S.data]
Obs(r) == [out |-> r.out, st |-> View(r.st)]
PermData(S, f) == [S EXCEPT !.data = [p \in DOMAIN S.data |-> S.data[f[p]]]]

\* Predictions of the known as-built deviations for this transition, when they differ from the
\* specified result.  remove_children_values depends on the order of parent.children, which after a
\* re-open is the order of the file, so that deviation is predicted for every order of the children.
\* When the operation started from a freshly opened file (~cached) a child that the interrupted loop
\* did not reach is still only on file; its array is now longer than the element count and the lazy
\* fetch refuses it (numeric_data.py:51-60 -> format_length :88-95): reading it raises (rd = FALSE).
DevView(st) ==
    [View(st) EXCEPT !.data = [p \in DOMAIN st.data |->
        IF ~cached /\ st.data[p].has /\ Len(st.data[p].vals) > N(st, st.data[p].assoc)
        THEN [st.data[p] EXCEPT !.rd = FALSE] ELSE st.data[p]]]
Devs(S, a) ==
    LET ideal == Obs(Step(S, a, {}))
        VB == "ValuelessChildBreaksRemoval"
        \* one deviation at a time, then pairs (a pair is reported only if no single deviation explains it),
        \* then all of them; name = the set of deviations in force
        subsets == {P \in SUBSET AsBuilt : Cardinality(P) \in {1, 2, Cardinality(AsBuilt)}}
        pred == UNION {{[name |-> P, out |-> Step(PermData(S, f), a, P).out,
                         st |-> DevView(Step(PermData(S, f), a, P).st),
                         same |-> Obs(Step(PermData(S, f), a, P)) = Obs(Step(PermData(S, f), a, {}))] :
                            f \in IF VB \in P THEN Permutations(DOMAIN S.data) ELSE {[p \in DOMAIN S.data |-> p]}} :
                       P \in subsets}
        diff == {x \in pred : ~x.same}
        explained(x) == \E y \in diff : y.name # x.name /\ y.name \subseteq x.name /\ y.out = x.out /\ y.st = x.st
    IN {[name |-> x.name, out |-> x.out, st |-> x.st] : x \in {y \in diff : ~explained(y)}}

\* ---------------------------------------------------------------- initial objects
Tuples(S, n) == [1..n -> S]
Injective(t) == \A i, j \in DOMAIN t : i # j => t[i] # t[j]
Increasing(t) == \A i, j \in DOMAIN t : i < j => t[i] < t[j]
CellsOver(nv) == IF Arity = 0 THEN {}
                 ELSE {t \in Tuples(0..(nv-1), Arity) : Injective(t) /\ (AnyOrientation \/ Increasing(t))}
CellSeqs(nv) == IF Arity = 0 THEN {<<>>}
                ELSE UNION {{s \in Tuples(CellsOver(nv), n) : Injective(s)} : n \in MinCells..MaxCells}

InitObj(nv, cs, withData) ==
    [verts |-> [i \in 1..nv |-> i],
     cells |-> cs,
     cids  |-> [c \in 1..Len(cs) |-> c],
     data  |-> IF ~withData THEN <<>>
               ELSE IF Arity = 0 \/ MaxData < 2 THEN <<DataRec(1, "VERTEX", TRUE, NewVals(1, 0, nv))>>
               ELSE <<DataRec(1, "VERTEX", TRUE, NewVals(1, 0, nv)), DataRec(2, "CELL", TRUE, NewVals(2, 0, Len(cs)))>>]

\* expect[name][token] / cexpect[name][cell id]: the value the element must carry (token-keyed ghosts)
ExpectOf(S, p, old) ==
    LET d == S.data[p] IN
    IF d.assoc = "VERTEX"
    THEN [t \in Toks |-> IF \E i \in DOMAIN S.verts : S.verts[i] = t
                         THEN d.vals[CHOOSE i \in DOMAIN S.verts : S.verts[i] = t] ELSE NDV]
    ELSE old
CExpectOf(S, p, old) ==
    LET d == S.data[p] IN
    IF d.assoc = "CELL"
    THEN [c \in CIds |-> IF \E i \in DOMAIN S.cids : S.cids[i] = c
                         THEN d.vals[CHOOSE i \in DOMAIN S.cids : S.cids[i] = c] ELSE NDV]
    ELSE old

NoExpect == [d \in Names |-> [t \in Toks |-> NDV]]
NoCExpect == [d \in Names |-> [c \in CIds |-> NDV]]

Init ==
    \E nv \in NVs : \E cs \in CellSeqs(nv) : \E w \in InitData :
        /\ obj = InitObj(nv, cs, w = "full")
        /\ expect = [d \in Names |-> IF \E p \in DOMAIN obj.data : obj.data[p].name = d
                                     THEN ExpectOf(obj, PosOf(obj, d), NoExpect[d]) ELSE NoExpect[d]]
        /\ cexpect = [d \in Names |-> IF \E p \in DOMAIN obj.data : obj.data[p].name = d
                                      THEN CExpectOf(obj, PosOf(obj, d), NoCExpect[d]) ELSE NoCExpect[d]]
        /\ ccoords = [c \in CIds |-> IF c <= Len(cs) THEN [a \in 1..Arity |-> cs[c][a] + 1] ELSE <<>>]
        /\ cached = TRUE
        /\ partsRead = FALSE
        /\ twin = FALSE
        /\ depth = 0
        /\ last = [act |-> "Init", out |-> "ok"]

Do(a) ==
    LET r == Step(obj, a, Deviations) IN
    /\ obj' = r.st
    /\ IF a.act \in {"AddData", "SetValues", "DataMaskedCopy"} /\ r.out = "ok" /\ r.st.data[PosOf(r.st, a.name)].has
       THEN /\ expect' = [expect EXCEPT ![a.name] = ExpectOf(r.st, PosOf(r.st, a.name), @)]
            /\ cexpect' = [cexpect EXCEPT ![a.name] = CExpectOf(r.st, PosOf(r.st, a.name), @)]
       ELSE IF a.act = "GrowVertices" /\ r.out = "ok"
       \* the new vertices (possibly on coordinates freed earlier) are expected to carry no-data
       THEN /\ expect' = [d \in Names |-> [t \in Toks |-> IF t \in IxSet(r.st.verts) \ IxSet(obj.verts) THEN NDV ELSE expect[d][t]]]
            /\ UNCHANGED cexpect
       ELSE UNCHANGED <<expect, cexpect>>
    /\ UNCHANGED ccoords
    \* after Reopen the next operation gets a handle on which nothing was read; after every other action
    \* (CopyClearCache included) the harness has read the whole object again
    /\ cached' = (a.act # "Reopen")
    /\ twin' = (twin \/ (a.act = "DataMaskedCopy" /\ r.out = "ok"))
    \* a re-opened object and a fresh (masked) copy have no parts cached; copy() reads the parts of its source
    /\ partsRead' = IF Arity # 2 THEN FALSE
                    ELSE IF a.act = "Reopen" \/ (a.act \in {"MaskedCopy", "CellMaskedCopy", "DataMaskedCopy"} /\ r.out = "ok") THEN FALSE
                    ELSE IF a.act \in {"ReadParts", "CopyClearCache"} THEN TRUE
                    ELSE partsRead
    /\ depth' = depth + 1
    /\ last' = [act |-> a.act, name |-> a.name, assoc |-> a.assoc, k |-> a.k, ix |-> a.ix, mask |-> a.mask, clear |-> a.clear,
                \* the value tokens handed to add_data / the values setter (before padding)
                verts |-> IF a.act = "GrowVertices" THEN r.st.verts ELSE <<>>,   \* the coordinate tokens assigned
                vals |-> IF a.act = "AddData" /\ a.k >= 0 THEN NewVals(a.name, 0, a.k)
                         ELSE IF a.act = "SetValues" THEN NewVals(a.name, 1, a.k) ELSE <<>>,
                out |-> r.out, devs |-> Devs(obj, a)]

\* MaxDepth operations, then one more Reopen so that every explored state is also read back from the file
Next == \E a \in Acts(obj) :
            (depth < MaxDepth \/ (depth = MaxDepth /\ a.act \in {"Reopen", "CopyClearCache"})) /\ Do(a)

vars == <<obj, expect, cexpect, ccoords, cached, partsRead, twin, depth, last>>
Spec == Init /\ [][Next]_vars

\* ---------------------------------------------------------------- the property (C07)
Valued == {p \in DOMAIN obj.data : obj.data[p].has}
\* one entry per vertex / per cell, and every array can be read
LengthsAgree == \A p \in Valued : obj.data[p].rd /\ Len(obj.data[p].vals) = N(obj, obj.data[p].assoc)
\* cells reference existing vertices
CellsReferenceVertices ==
    \A c \in DOMAIN obj.cells : \A a \in 1..Arity : obj.cells[c][a] \in 0..(Len(obj.verts) - 1)
\* a surviving cell joins the coordinate tokens it joined when it was created
CellsJoinSameCoords ==
    \A c \in DOMAIN obj.cells :
        \A a \in 1..Arity : obj.cells[c][a] \in 0..(Len(obj.verts) - 1) => obj.verts[obj.cells[c][a] + 1] = ccoords[obj.cids[c]][a]
\* the value attached to a surviving vertex token / cell is the one it was given
VertexValuesFollow ==
    \A p \in Valued : (obj.data[p].assoc = "VERTEX" /\ obj.data[p].name # 0) =>
        \A i \in DOMAIN obj.verts : i <= Len(obj.data[p].vals) => obj.data[p].vals[i] = expect[obj.data[p].name][obj.verts[i]]
CellValuesFollow ==
    \A p \in Valued : (obj.data[p].assoc = "CELL" /\ obj.data[p].name # 0) =>
        \A i \in DOMAIN obj.cids : i <= Len(obj.data[p].vals) => obj.data[p].vals[i] = cexpect[obj.data[p].name][obj.cids[i]]
VertsDistinct == Injective(obj.verts) /\ Injective(obj.cids) /\ Len(obj.cids) = Len(obj.cells)
\* no operation invents vertices or cells
OnlySurvivors == [][/\ (last'.act = "GrowVertices" \/ IxSet(obj'.verts) \subseteq IxSet(obj.verts))
                    /\ IxSet(obj'.cids) \subseteq IxSet(obj.cids)]_vars

\* ---------------------------------------------------------------- export (harness/README.md)
vw == <<View(obj), cached, partsRead, twin>>
ExportState == PrintT(<<"ST", TLCFP(vw), TLCFP(<<vw, 1>>),
                        ToJson([verts |-> obj.verts, cells |-> obj.cells, data |-> obj.data, cached |-> cached,
                                partsRead |-> partsRead, twin |-> twin])>>)
ExportTrans == PrintT(<<"TR", TLCFP(vw), TLCFP(<<vw, 1>>), TLCFP(vw'), TLCFP(<<vw', 1>>), ToJson(last')>>)
=============================================================================
