SPECIFICATION Spec
CONSTANTS
  Arity = 0
  NVs = {2}
  MinCells = 0
  MaxCells = 0
  AnyOrientation = FALSE
  InitData = {"full"}
  MaxData = 2
  MaxIx = 1
  MaxDepth = 1
  CellMask = FALSE
  CopyClear = FALSE
  Grow = 1
  GrowDepth = 1
  DataCopyDepth = 0
  Valueless = TRUE
  Deviations = {"GrowKeepsCachedLength"}
INVARIANT LengthsAgree
CHECK_DEADLOCK FALSE
