SPECIFICATION Spec
CONSTANTS
  Arity = 2
  NVs = {3}
  MinCells = 0
  MaxCells = 2
  AnyOrientation = FALSE
  InitData = {"none", "full"}
  MaxData = 2
  MaxIx = 2
  MaxDepth = 3
  CellMask = TRUE
  CopyClear = FALSE
  Grow = 0
  GrowDepth = 1
  DataCopyDepth = 0
  Valueless = TRUE
  Deviations = {"EmptyValuesUnreadable"}
INVARIANT LengthsAgree
CHECK_DEADLOCK FALSE
