SPECIFICATION Spec
CONSTANTS
  Arity = 0
  NVs = {2}
  MinCells = 0
  MaxCells = 0
  AnyOrientation = FALSE
  InitData = {"none"}
  MaxData = 2
  MaxIx = 1
  MaxDepth = 3
  CellMask = FALSE
  CopyClear = FALSE
  Grow = 0
  GrowDepth = 1
  DataCopyDepth = 0
  Valueless = TRUE
  Deviations = {"ValuelessChildBreaksRemoval"}
INVARIANT LengthsAgree
CHECK_DEADLOCK FALSE
