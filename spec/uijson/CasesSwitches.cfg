\* (a) every switch combination x every classic form kind x {None, a good value, a bad value} x entry points
SPECIFICATION Spec
CONSTANTS
  Target = "classic"
  Kinds = {"string", "integer", "float", "bool", "choice", "file", "object", "group", "data", "pgroup", "datavalue", "gdata", "objectmulti"}
  VaryGroup = TRUE
  VaryDep = TRUE
  ValueSet = "probe"
  Entries = {"Load", "SetKey", "SetAll", "Check", "CheckOne"}
  MaxDepth = 1
  Deviations = {"StaleRuleTable", "PgTypeNeedsEntity"}
PROPERTY VerdictIsAccepts
PROPERTY RejectedLeavesUnchanged
INVARIANT HierarchyLaws
INVARIANT CodeIsHierarchy
INVARIANT TableIsCurrent
ACTION_CONSTRAINT ExportCase
CHECK_DEADLOCK FALSE
