\* C14 ideal specification (no deviation): every C14 invariant must hold
SPECIFICATION Spec
CONSTANTS
  N = 1
  Catalogue = "domain"
  Relations = {"none"}
  MaxSet = 1
  MaxWrite = 1
  Validates = {FALSE}
  SetClass = "all"
  MaxEdit = 0
  MaxAssign = 0
  UpdEnabled = {FALSE}
  Deviations = {}
VIEW vw
INVARIANT NoViolation
INVARIANT PromoteDemote
INVARIANT TypeOK
PROPERTY WriteKeepsData
CHECK_DEADLOCK FALSE
