\* (b) new API: one Parameter / FormParameter / EnforcerPool, sequences of <= 3 calls
SPECIFICATION Spec
CONSTANTS
  Target = "param"
  Kinds = {"String", "Integer", "Value", "TypeR", "TypeUID", "Two", "TypeUuid"}
  VaryGroup = FALSE
  VaryDep = FALSE
  ValueSet = "machine"
  Entries = {"parameter", "form", "pool"}
  MaxDepth = 3
  Deviations = {"StoreBeforeValidate", "PoolKeepsErrors"}
PROPERTY VerdictIsAccepts
PROPERTY RejectedLeavesUnchanged
VIEW vw
INVARIANT ExportState
ACTION_CONSTRAINT ExportTrans
CHECK_DEADLOCK FALSE
