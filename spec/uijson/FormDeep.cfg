\* (b) new API: members of one StringFormParameter, sequences of <= 4 calls
SPECIFICATION Spec
CONSTANTS
  Target = "form"
  Kinds = {}
  VaryGroup = FALSE
  VaryDep = FALSE
  ValueSet = "machine"
  Entries = {}
  MaxDepth = 4
  Deviations = {}
PROPERTY VerdictIsAccepts
PROPERTY RejectedLeavesUnchanged
VIEW vw
INVARIANT ExportState
ACTION_CONSTRAINT ExportTrans
CHECK_DEADLOCK FALSE
