\* (b) one InputValidation with a one_of pair, sequences of <= 3 validate_data calls
SPECIFICATION Spec
CONSTANTS
  Target = "oneof"
  Kinds = {}
  VaryGroup = FALSE
  VaryDep = FALSE
  ValueSet = "machine"
  Entries = {}
  MaxDepth = 3
  Deviations = {"OneOfPopped"}
PROPERTY VerdictIsAccepts
PROPERTY RejectedLeavesUnchanged
VIEW vw
INVARIANT ExportState
ACTION_CONSTRAINT ExportTrans
CHECK_DEADLOCK FALSE
