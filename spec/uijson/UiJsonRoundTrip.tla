--------------------------- MODULE UiJsonRoundTrip ---------------------------
(* C14 - ui.json files round-trip.                                                              *)
(*                                                                                              *)
(* One behaviour = one ui.json dictionary `raw` assembled from the template forms               *)
(* (geoh5py/ui_json/templates.py on top of constants.default_ui_json) and one `validate` flag,  *)
(* then the life of an InputFile object:                                                        *)
(*   Load      InputFile(ui_json=raw, validate=..) + first access of .data                      *)
(*             (input_file.py:91-150 ctor/data, 221-243 ui_json setter, 468-498 numify)         *)
(*   SetValue  InputFile.set_data_value(name, value)            (input_file.py:426-452)         *)
(*   Write     InputFile.write_ui_json(name, path)              (input_file.py:390-424)         *)
(*   Read      InputFile.read_ui_json(path) + .data, the new object replaces the old one        *)
(*             (input_file.py:192-212)                                                          *)
(*   Assign    in_file.data = {identifiers of the current data}: the data setter promotes,     *)
(*             validates and updates ui_json                          (input_file.py:121-150)         *)
(*   Edit      environment: the project file is edited through another handle (every entity     *)
(*             renamed); entities promoted afterwards are those of the edited project (EntB),   *)
(*             objects promoted before stay what they were (Ent)                                *)
(*   Demote    InputFile.demote(data)      (observation)        (input_file.py:500-518)         *)
(*   Promote   InputFile.promote(identifiers of data) (observation) (input_file.py:520-545)     *)
(*                                                                                              *)
(* Values are sequences of *tokens* (a scalar is a one-element sequence with l = FALSE): the    *)
(* harness maps every token to concrete Python values, the mappers of geoh5py act element-wise  *)
(* (shared/utils.py:459-490 dict_mapper).  A token is a record [c |-> class, x |-> entity].     *)
(*   in memory : None True False Int Int2 Float Float2 PInf NInf Str Str2 EmptyStr StrInf       *)
(*               StrNInf StrUuid StrG5 Id:x (uuid.UUID) Ent:x (entity) Ws WsNew (Workspace)      *)
(*               IdText:x ("{uuid}" text) WsPath (path text of the fixture workspace)            *)
(*   on disk   : NoneText ("" written for None) InfText NInfText ("inf"/"-inf" written for the  *)
(*               floats) IdText:x WsPath StrG5 + the literal ones                               *)
(* EmptyStr/StrInf/StrNInf/StrUuid are *genuine strings* held by a parameter; they have the     *)
(* same JSON text as NoneText/InfText/NInfText/IdText:unk - that ambiguity is what the named    *)
(* deviations below are about.                                                                  *)
(*                                                                                              *)
(* Deviations (constant): the as-built behaviours of geoh5py that break the C14 invariants.     *)
(* With Deviations = {} (Ideal*.cfg) TLC proves NoViolation; with the as-built set the spec     *)
(* mirrors the code step by step, every state carries Viol = the invariants it breaks with the  *)
(* mechanism that explains it, and Explained says that nothing else breaks.                     *)
(*   EmptyStrAsNone     str2none turns a parameter's own "" into None     (shared/utils.py:725) *)
(*   InfTextAsFloat     str2inf turns a parameter's own "inf" into float  (ui_json/utils.py:268)*)
(*   UuidTextAsId       str2uuid turns uuid-looking text into UUID -> promoted (utils.py:411)   *)
(*   NoneMemberAsText   a None `optional` member (templates.py:445 drillhole_group_data) is     *)
(*                      written as "" which ui_validation refuses on read  (input_file.py:490)  *)
(*   IsValueFlipOnNone  update_ui_values sets isValue = True for a None value                   *)
(*                      (input_file.py:269-275)                                                 *)
(*   FileFormRejectsWorkspace  validate=True: a file form whose text ends in .geoh5 becomes a   *)
(*                      Workspace that the form's own type validation [str] refuses             *)
(*                      (ui_json/utils.py:282 path2workspace + validation.py:160-163)           *)
(*   GroupPropagation   set_enabled on the groupOptional holder overwrites `enabled` of every   *)
(*                      member of the group (ui_json/utils.py:186-194)                          *)
EXTENDS Naturals, Sequences, FiniteSets, TLC, TLCExt, Json

CONSTANTS
    N,            \* number of parameters in the file (1..3)
    Catalogue,    \* "cross" | "domain" | "small" | "tiny" : which forms the files are assembled from
    Relations,    \* subset of {"none","parent","dep","group"} : how parameter k>1 relates to parameter 1
    MaxSet,       \* SetValue budget per behaviour
    MaxWrite,     \* Write budget per behaviour
    Validates,    \* subset of BOOLEAN
    SetClass,     \* "all" | "plain" | "none": which values SetValue may use
    MaxEdit,      \* 0 | 1 : Edit budget
    MaxAssign,    \* Assign budget
    UpdEnabled,   \* subset of BOOLEAN: validation_options["update_enabled"] of the InputFile (default TRUE;
                  \* FALSE = InputFile(..., validation_options={"update_enabled": False}), input_file.py:308-313)
    Deviations

VARIABLES raw, validate, upden, loaded, dead, forms, data, req, disk, wdata, wen, fresh, rfail, nset, nwrite, wsgen, nassign, last

vw == <<raw, validate, upden, loaded, dead, forms, data, req, disk, wdata, wen, fresh, rfail, nset, nwrite, wsgen, nassign>>
vars == <<vw, last>>

Dev(d) == d \in Deviations
P == 1..N

\* ------------------------------------------------------------------ tokens and values
T(c) == [c |-> c, x |-> ""]
I(c, x) == [c |-> c, x |-> x]
S(t) == [l |-> FALSE, e |-> <<t>>]
Lst(s) == [l |-> TRUE, e |-> s]
NoneV == S(T("None"))
Absent == S(T("Absent"))
MapV(F(_), v) == [l |-> v.l, e |-> [i \in DOMAIN v.e |-> F(v.e[i])]]
HasC(v, c) == \E i \in DOMAIN v.e : v.e[i].c = c
HasT(v, t) == \E i \in DOMAIN v.e : v.e[i] = t
MinOf(s) == CHOOSE m \in s : \A y \in s : m <= y

\* numify (input_file.py:495): mappers str2none, str2inf, str2uuid, path2workspace, element-wise
NumifyE(t) ==
    CASE t.c = "NoneText" -> T("None")
      [] t.c = "InfText"  -> T("PInf")
      [] t.c = "NInfText" -> T("NInf")
      [] t.c = "IdText"   -> I("Id", t.x)
      [] t.c = "WsPath"   -> T("Ws")
      [] t.c = "StrG5"    -> T("WsNew")          \* path2workspace: any "*.geoh5" text (creates the file)
      [] t.c = "EmptyStr" -> IF Dev("EmptyStrAsNone") THEN T("None") ELSE t
      [] t.c = "StrInf"   -> IF Dev("InfTextAsFloat") THEN T("PInf") ELSE t
      [] t.c = "StrNInf"  -> IF Dev("InfTextAsFloat") THEN T("NInf") ELSE t
      [] t.c = "StrUuid"  -> IF Dev("UuidTextAsId") THEN I("Id", "unk") ELSE t
      [] OTHER -> t
\* promote (input_file.py:536-545 _uid_promotion, shared/utils.py:388-409 uuid2entity: unknown uid -> None)
\* the entity handed out is the one of the project as it is *now* (Ent before, EntB after the Edit): every
\* Workspace.open rebuilds the registry from the file
PromoteE(t) == IF t.c = "Id" THEN (IF t.x = "unk" THEN T("None") ELSE I(IF wsgen = 0 THEN "Ent" ELSE "EntB", t.x)) ELSE t
\* demote (input_file.py:507): entity2uuid, as_str_if_uuid, workspace2path
DemoteE(t) ==
    CASE t.c \in {"Ent", "EntB", "Id"} -> I("IdText", t.x)
      [] t.c = "Ws"    -> T("WsPath")
      [] t.c = "WsNew" -> T("StrG5")
      [] OTHER -> t
\* stringify (shared/utils.py:646-657): nan2str, inf2str, as_str_if_uuid, none2str
StringifyE(t) ==
    CASE t.c = "None" -> T("NoneText")
      [] t.c = "PInf" -> T("InfText")
      [] t.c = "NInf" -> T("NInfText")
      [] t.c = "Id"   -> I("IdText", t.x)
      [] OTHER -> t
ToDiskE(t) == StringifyE(DemoteE(t))
\* entity2uuid (shared/utils.py:381): the identifier of a promoted value
IdOfE(t) == IF t.c \in {"Ent", "EntB"} THEN I("Id", t.x) ELSE t
\* the identifications the property allows: "identifiers promoted to the same workspace entities,
\* workspace paths re-opened as workspaces"
CanonE(t) ==
    CASE t.c \in {"Id", "IdText", "EntB"} /\ t.x # "unk" -> I("Ent", t.x)
      [] t.c = "WsPath" -> T("Ws")
      [] t.c = "StrG5"  -> T("WsNew")
      [] OTHER -> t
Canon(v) == MapV(CanonE, v)

\* ------------------------------------------------------------------ forms
FormKinds == {"bool", "integer", "float", "string", "choice", "multichoice", "file", "object",
              "data", "datavalue", "group", "dhgroupdata", "range"}
Base(kind, v) == [kind |-> kind, value |-> v, opt |-> "absent", en |-> "absent", isv |-> "absent",
                  prop |-> Absent, grp |-> "none", gopt |-> "absent", dep |-> 0, dept |-> "enabled",
                  parent |-> 0]
\* kind specific members of the templates (templates.py:394-408 data_value_parameter)
Tmpl(kind, v) == IF kind = "datavalue" THEN [Base(kind, v) EXCEPT !.isv = "T", !.prop = NoneV]
                 ELSE Base(kind, v)
\* optional state: "req" = template without `optional=`, "on"/"off" = optional_parameter(enabled/disabled)
\* (templates.py:43-60); drillhole_group_data always has optional (None by default) and enabled
\* (templates.py:438-452), range_label_template always has enabled (templates.py:491-507)
WithOpt(f, o) ==
    CASE o = "on"  -> [f EXCEPT !.opt = "T", !.en = "T"]
      [] o = "off" -> [f EXCEPT !.opt = "T", !.en = "F"]
      [] OTHER -> IF f.kind = "dhgroupdata" THEN [f EXCEPT !.opt = "None", !.en = "T"]
                  ELSE IF f.kind = "range" THEN [f EXCEPT !.en = "T"]
                  ELSE f
OptStates == {"req", "on", "off"}

Scalars == {"None", "NoneText", "True", "False", "Int", "Float", "InfText", "NInfText", "Str", "StrG5", "WsPath"}
\* pg, pg2, pg3 = property groups of three different objects of the workspace (uuid2entity scans the objects,
\* shared/utils.py:395-406); obj is the first of them
PGs == {"pg", "pg2", "pg3"}
KnownIds == {"obj", "data", "data2", "grp", "dh"} \cup PGs
RawVals ==
    {S(T(c)) : c \in Scalars}
    \cup {S(I("IdText", x)) : x \in KnownIds \cup {"unk"}}
    \cup {S(I("Id", "obj")), S(I("Ent", "data")), S(T("PInf"))}
    \cup {Lst(<<>>), Lst(<<T("Str")>>), Lst(<<T("Str"), T("Str2")>>), Lst(<<T("Float"), T("Float2")>>),
          Lst(<<T("NInfText"), T("InfText")>>), Lst(<<T("Int"), T("Int2")>>),
          Lst(<<I("IdText", "obj")>>), Lst(<<I("IdText", "data"), I("IdText", "data2")>>)}
\* (an Entity in `property` is refused by ui_validations "property": constants.py:60 - not a C14 matter)
PropVals == {NoneV, S(T("NoneText")), S(I("IdText", "data")), S(I("Id", "data"))}

CrossForms ==
    {WithOpt(Tmpl(k, v), o) : k \in FormKinds, v \in RawVals, o \in OptStates}
    \cup {WithOpt([Tmpl("datavalue", S(T("Float"))) EXCEPT !.isv = i, !.prop = p], o) :
             i \in {"T", "F"}, p \in PropVals, o \in OptStates}
    \cup {Base("plain", v) : v \in RawVals}

F1(k, t, o) == WithOpt(Tmpl(k, S(t)), o)
DV(i, p, o) == WithOpt([Tmpl("datavalue", S(T("Float"))) EXCEPT !.isv = i, !.prop = S(p)], o)
SmallForms ==
    {F1("bool", T("True"), "req"), F1("bool", T("False"), "req"),
     F1("float", T("Float"), "on"), F1("float", T("InfText"), "off"), F1("integer", T("Int"), "req"),
     F1("string", T("Str"), "on"), F1("string", T("Str"), "req"),
     F1("object", I("IdText", "obj"), "req"), F1("object", T("None"), "off"),
     F1("data", I("IdText", "data"), "on"), F1("data", I("IdText", "data"), "off"),
     DV("T", T("None"), "req"), DV("F", I("IdText", "data"), "req"), DV("F", T("None"), "req"),
     WithOpt(Tmpl("range", Lst(<<T("Float"), T("Float2")>>)), "req"),
     WithOpt(Tmpl("multichoice", Lst(<<T("Str"), T("Str2")>>)), "on")}
TinyForms ==
    {F1("bool", T("True"), "req"), F1("float", T("Float"), "on"), F1("float", T("InfText"), "off"),
     F1("string", T("Str"), "req"), F1("file", T("Str"), "on"), F1("object", I("IdText", "obj"), "req"),
     F1("data", I("IdText", "data"), "on"), DV("T", T("None"), "req"), DV("F", T("None"), "req"),
     WithOpt(Tmpl("dhgroupdata", Lst(<<T("Str")>>)), "req"),
     WithOpt(Tmpl("range", Lst(<<T("Float"), T("Float2")>>)), "req")}
DomainForms ==
    SmallForms \cup
    {F1("integer", T("Int"), "on"), F1("integer", T("Int"), "off"), F1("float", T("Float"), "req"),
     F1("float", T("NInfText"), "on"), F1("string", T("Str"), "off"), F1("choice", T("Str"), "on"),
     F1("choice", T("Str"), "req"), F1("file", T("Str"), "req"), F1("file", T("NoneText"), "req"),
     F1("file", T("StrG5"), "on"), F1("object", I("IdText", "obj"), "on"), F1("object", I("Id", "obj"), "off"),
     F1("object", T("None"), "req"), F1("data", I("IdText", "data"), "req"), F1("data", I("IdText", "pg"), "req"),
     F1("data", T("NoneText"), "req"), F1("data", I("IdText", "pg2"), "req"), F1("data", I("IdText", "pg3"), "on"), DV("T", T("None"), "on"), DV("F", I("IdText", "data"), "off"),
     DV("F", T("None"), "on"), F1("group", I("IdText", "grp"), "req"), F1("group", I("IdText", "dh"), "on"),
     WithOpt(Tmpl("dhgroupdata", Lst(<<T("Str")>>)), "req"), WithOpt(Tmpl("dhgroupdata", Lst(<<T("Str"), T("Str2")>>)), "on"),
     WithOpt(Tmpl("dhgroupdata", NoneV), "off"),
     WithOpt(Tmpl("range", Lst(<<T("NInfText"), T("InfText")>>)), "on"),
     WithOpt(Tmpl("range", Lst(<<T("Float"), T("Float2")>>)), "off"),
     WithOpt(Tmpl("multichoice", Lst(<<>>)), "req"), WithOpt(Tmpl("object", Lst(<<I("IdText", "obj")>>)), "req"),
     Base("plain", S(T("Str"))), Base("plain", NoneV), Base("plain", S(T("False")))}

Forms == CASE Catalogue = "cross" -> CrossForms [] Catalogue = "small" -> SmallForms
           [] Catalogue = "tiny" -> TinyForms [] OTHER -> DomainForms

\* relation of parameter k > 1 to parameter 1
Related(f1, f, r) ==
    CASE r = "parent" -> IF f1.kind = "object" /\ f.kind \in {"data", "datavalue", "range"}
                            /\ (\A i \in DOMAIN f.value.e : f.value.e[i].x \notin {"pg2", "pg3"})   \* not children of obj
                         THEN {[f EXCEPT !.parent = 1]} ELSE {}
      [] r = "dep"    -> IF f.kind # "plain" /\ (f1.opt = "T" \/ f1.kind = "bool")
                         THEN {[f EXCEPT !.dep = 1, !.dept = t] : t \in {"enabled", "disabled"}} ELSE {}
      [] r = "group"  -> IF f.kind # "plain" /\ f1.kind # "plain" THEN {[f EXCEPT !.grp = "g"]} ELSE {}
      \* group member that also has a dependency (here on the groupOptional holder itself): requires_value
      \* lets the switched-off group win over the dependency (ui_json/utils.py:139-152)
      [] r = "gd"     -> IF f.kind # "plain" /\ f1.opt = "T"
                         THEN {[f EXCEPT !.grp = "g", !.dep = 1, !.dept = t] : t \in {"enabled", "disabled"}} ELSE {}
      [] OTHER -> {f}
Lead(f1, rs) == IF "group" \in rs \/ "gd" \in rs THEN [f1 EXCEPT !.grp = "g", !.gopt = "T"] ELSE f1
\* driver p1 outside of the group, p2 holds groupOptional, p3 is a member that depends on p1
Files3gd == IF "gd3" \notin Relations THEN {} ELSE
    UNION {{<<f1, [f2 EXCEPT !.grp = "g", !.gopt = "T"], [f3 EXCEPT !.grp = "g", !.dep = 1, !.dept = t]>> :
               t \in {"enabled", "disabled"}} :
           f1 \in {f \in Forms : f.opt = "T" \/ f.kind = "bool"}, f2 \in {f \in Forms : f.opt = "T"},
           f3 \in {f \in Forms : f.kind # "plain"}}
Files ==
    IF N = 1 THEN {<<f>> : f \in Forms}
    ELSE IF N = 2 THEN UNION {{<<Lead(f1, {r}), g>> : g \in Related(f1, f2, r)} : f1 \in Forms, f2 \in Forms, r \in Relations}
    ELSE Files3gd \cup
         UNION {{<<Lead(f1, {r2, r3}), g2, g3>> : g2 \in Related(f1, f2, r2), g3 \in Related(f1, f3, r3)} :
                  f1 \in Forms, f2 \in Forms, f3 \in Forms, r2 \in Relations \ {"gd3"}, r3 \in Relations \ {"gd3"}}

\* ------------------------------------------------------------------ typed domain of a form (used for validate = TRUE
\* and for the values SetValue may use); validation proper is C15's subject
ElemsIn(v, cs) == \A i \in DOMAIN v.e : v.e[i].c \in cs
IdsIn(v, xs) == \A i \in DOMAIN v.e : v.e[i].c \in {"IdText", "Id", "Ent"} /\ v.e[i].x \in xs
IsNoneLike(v) == v = NoneV \/ v = S(T("NoneText"))
PlainValue(kind, v) ==
    CASE kind = "bool"    -> ~v.l /\ ElemsIn(v, {"True", "False"})
      [] kind = "integer" -> ~v.l /\ ElemsIn(v, {"Int", "Int2"})
      [] kind = "float"   -> ~v.l /\ ElemsIn(v, {"Float", "Float2", "PInf", "NInf", "InfText", "NInfText"})
      [] kind \in {"string", "choice"} -> ~v.l /\ ElemsIn(v, {"Str", "Str2"})
      [] kind = "multichoice" -> v.l /\ ElemsIn(v, {"Str", "Str2"})
      [] kind = "file"    -> IsNoneLike(v) \/ (~v.l /\ ElemsIn(v, {"Str", "Str2", "StrG5"}))
      [] kind = "object"  -> IsNoneLike(v) \/ IdsIn(v, {"obj"})
      [] kind = "data"    -> IsNoneLike(v) \/ (~v.l /\ IdsIn(v, {"data", "data2"} \cup PGs))
      [] kind = "datavalue" -> ~v.l /\ ElemsIn(v, {"Float", "Float2"})
      [] kind = "group"   -> IsNoneLike(v) \/ (~v.l /\ IdsIn(v, {"grp", "dh"}))
      [] kind = "dhgroupdata" -> IsNoneLike(v) \/ (v.l /\ ElemsIn(v, {"Str", "Str2"}))
      [] kind = "range"   -> IsNoneLike(v) \/ (v.l /\ Len(v.e) = 2 /\ ElemsIn(v, {"Float", "Float2", "Int", "Int2", "InfText", "NInfText", "PInf", "NInf"}))
      [] OTHER -> ~v.l /\ ElemsIn(v, {"Str", "True", "False", "Int", "Float", "None", "NoneText"})     \* plain
StrictForm(f) == /\ PlainValue(f.kind, f.value)
                 /\ f.isv = "F" => (IsNoneLike(f.prop) \/ (~f.prop.l /\ IdsIn(f.prop, {"data", "data2"})))
StrictFile(r) == \A k \in DOMAIN r : StrictForm(r[k])

\* ------------------------------------------------------------------ flatten / requires_value / update_ui_values
\* ui_json/utils.py:33-47 flatten + :207-225 truth (enabled defaults to True, isValue defaults to True)
Flat(F, k) == LET f == F[k] IN
    IF f.kind = "plain" THEN f.value
    ELSE IF f.en = "F" THEN NoneV
    ELSE IF f.isv = "F" THEN f.prop ELSE f.value

GroupOf(F, g) == {j \in DOMAIN F : F[j].kind # "plain" /\ F[j].grp # "none" /\ F[j].grp = g}   \* utils.py:50 collect
LeadersOf(F, g) == {j \in GroupOf(F, g) : F[j].gopt # "absent"}
EnabledOr(f, dflt) == IF f.en = "absent" THEN dflt ELSE f.en = "T"
Truthy(v) == ~(v = NoneV \/ v = S(T("False")) \/ v = Lst(<<>>))
\* ui_json/utils.py:85-106 dependency_requires_value
DepReq(F, k) ==
    LET f == F[k]
        d == F[f.dep]
        key == IF d.opt = "T" THEN EnabledOr(d, TRUE) ELSE Truthy(d.value)
        r0 == IF f.dept = "enabled" THEN key ELSE ~key
    IN IF f.opt # "absent" /\ r0 THEN f.en = "T" ELSE r0
\* ui_json/utils.py:109-158 group_requires_value / requires_value
Requires(F, k) ==
    LET f == F[k]
        own == IF f.dep # 0 THEN DepReq(F, k) ELSE IF f.opt # "absent" THEN EnabledOr(f, TRUE) ELSE TRUE
        ls == LeadersOf(F, f.grp)
        gopt == IF ls = {} THEN FALSE ELSE F[MinOf(ls)].gopt = "T"
        greq == IF gopt THEN EnabledOr(F[MinOf(ls)], TRUE) ELSE TRUE
    IN IF f.kind = "plain" THEN FALSE
       ELSE IF f.grp # "none" THEN (IF greq THEN own ELSE FALSE)
       ELSE own

\* ui_json/utils.py:174-204 set_enabled(ui_json, parameter, value)
SetEnabled(F, k, b) ==
    LET f == F[k]
        G == IF f.opt = "T" THEN [F EXCEPT ![k].en = b] ELSE F
        ls == LeadersOf(G, f.grp)
    IN IF Dev("GroupPropagation") /\ f.grp # "none" /\ ls # {} /\ MinOf(ls) = k
       THEN [j \in DOMAIN G |-> IF j \in GroupOf(G, f.grp) THEN [G[j] EXCEPT !.en = b] ELSE G[j]]
       ELSE G

\* PropertyGroup is not an Entity (groups/property_group.py:33)
IsEntOrId(v) == ~v.l /\ (v.e[1].c = "Id" \/ (v.e[1].c \in {"Ent", "EntB"} /\ v.e[1].x \notin PGs))
\* input_file.py:249-284 update_ui_values, one (key, value) pair
UpdOne(F, k, v, upd) ==
    LET f == F[k] IN
    IF f.kind = "plain" THEN [F EXCEPT ![k].value = v]
    ELSE
    LET isNone == v = NoneV
        b == IF upd THEN (IF isNone THEN "F" ELSE "T") ELSE f.en
        G == IF f.en = "absent" THEN F ELSE SetEnabled(F, k, b)
        g == G[k]
        keep == isNone /\ ~Dev("IsValueFlipOnNone")          \* ideal: a None value says nothing about isValue
        g2 == IF g.isv = "absent" \/ keep THEN g ELSE [g EXCEPT !.isv = IF IsEntOrId(v) THEN "F" ELSE "T"]
        member == IF g.isv = "absent" THEN "value"
                  ELSE IF IsEntOrId(v) THEN "prop"
                  ELSE IF keep /\ g.isv = "F" THEN "prop" ELSE "value"
        skip == isNone /\ g2.en # "T"                         \* not form.get("enabled", False)
        g3 == IF skip THEN g2 ELSE IF member = "prop" THEN [g2 EXCEPT !.prop = v] ELSE [g2 EXCEPT !.value = v]
    IN [G EXCEPT ![k] = g3]
RECURSIVE UpdAll(_, _, _, _)
UpdAll(F, D, upd, k) == IF k > Len(F) THEN F ELSE UpdAll(UpdOne(F, k, D[k], upd), D, upd, k + 1)

NumifyForm(f) == [f EXCEPT !.value = MapV(NumifyE, @), !.prop = IF @ = Absent THEN @ ELSE MapV(NumifyE, @)]
DiskForm(f) == [f EXCEPT !.value = MapV(ToDiskE, @), !.prop = IF @ = Absent THEN @ ELSE MapV(ToDiskE, @),
                         !.opt = IF @ = "None" /\ Dev("NoneMemberAsText") THEN "Text" ELSE @]

\* why a parameter may legitimately(as built) come back differently
StrCause(v) == IF HasC(v, "EmptyStr") THEN "str-empty-read-as-none"
               ELSE IF HasC(v, "StrInf") \/ HasC(v, "StrNInf") THEN "str-inf-read-as-float"
               ELSE IF HasC(v, "StrUuid") THEN "str-uuid-read-as-identifier"
               ELSE ""
FormCause(f) == IF f.grp # "none" THEN "group-enabled-propagation"
                ELSE IF f.isv # "absent" THEN "datavalue-isvalue-flip-on-none"
                ELSE "unexplained"

\* ------------------------------------------------------------------ InputFile(ui_json=R, validate=val).data
LoadResult(R, val, W) ==
    LET memberBad == \E k \in DOMAIN R : R[k].opt = "Text"     \* ui_validation before numify (input_file.py:488-492)
        F0 == [k \in DOMAIN R |-> NumifyForm(R[k])]
        D0 == [k \in DOMAIN R |-> Flat(F0, k)]
        badId == {k \in DOMAIN R : HasT(D0[k], I("Id", "unk"))}   \* association_validator in _uid_promotion
        D1 == [k \in DOMAIN R |-> MapV(PromoteE, D0[k])]
        badNone == {k \in DOMAIN R : D1[k] = NoneV /\ Requires(F0, k)}   \* OptionalValidator
        \* a file form has the fixed validation types [str] (validation.py:160-163)
        badType == {k \in DOMAIN R : /\ R[k].kind = "file" /\ ~D1[k].l
                                     /\ D1[k].e[1].c \notin {"None", "Str", "Str2", "EmptyStr", "StrInf", "StrNInf", "StrUuid", "StrG5", "IdText", "WsPath"}
                                     /\ (D1[k].e[1].c \in {"Ws", "WsNew"} => Dev("FileFormRejectsWorkspace"))}
        why == IF memberBad THEN "none-member-written-as-text"
               ELSE IF val /\ badId # {} THEN StrCause(R[MinOf(badId)].value)
               ELSE IF val /\ badNone # {} /\ W # <<>> /\ (\A k \in badNone : W[k] = NoneV)
                    THEN "legit"      \* the file was written from data the validation refuses anyway (write does not validate)
               ELSE IF val /\ badNone # {} THEN
                    (LET k == MinOf(badNone) IN IF StrCause(R[k].value) # "" THEN StrCause(R[k].value) ELSE FormCause(R[k]))
               ELSE IF val /\ badType # {} THEN
                    (LET k == MinOf(badType) IN IF StrCause(R[k].value) # "" THEN StrCause(R[k].value)
                                               ELSE IF HasC(D1[k], "Ws") \/ HasC(D1[k], "WsNew") THEN "geoh5-path-in-file-form-refused"
                                               ELSE "unexplained")
               ELSE ""
    IN [ok |-> ~memberBad /\ (val => (badId = {} /\ badNone = {} /\ badType = {})),
        why |-> IF why = "" /\ (memberBad \/ (val /\ (badId # {} \/ badNone # {} \/ badType # {}))) THEN "unexplained" ELSE why,
        forms |-> UpdAll(F0, D1, FALSE, 1), data |-> D1,
        req |-> [k \in DOMAIN R |-> Requires(F0, k)]]

\* ------------------------------------------------------------------ values SetValue may use
Sc(cs) == {S(T(c)) : c \in cs}
SetDomain(f) ==
    LET kind == f.kind
        typed == CASE kind = "bool" -> Sc({"True", "False"})
                   [] kind = "integer" -> Sc({"Int2"})
                   [] kind = "float" -> Sc({"Float2", "PInf", "NInf"})
                   [] kind = "string" -> Sc({"Str2"})
                   [] kind = "choice" -> Sc({"Str2"})
                   [] kind = "multichoice" -> {Lst(<<T("Str2")>>), Lst(<<>>)}
                   [] kind = "file" -> Sc({"Str2"})
                   [] kind = "object" -> IF f.value.l THEN {Lst(<<I("Ent", "obj")>>)}
                                         ELSE {S(I("Id", "obj")), S(I("Ent", "obj")), S(I("IdText", "obj"))}
                   [] kind = "data" -> IF \E i \in DOMAIN f.value.e : f.value.e[i].x \in PGs THEN {}
                                       ELSE {S(I("Ent", "data2")), S(I("Id", "data2"))}
                   [] kind = "datavalue" -> {S(T("Float2")), S(I("Ent", "data2")), S(I("Id", "data"))}
                   [] kind = "group" -> {S(I("Ent", "dh")), S(I("Id", "grp"))}
                   [] kind = "dhgroupdata" -> {Lst(<<T("Str2")>>)}
                   [] kind = "range" -> {Lst(<<T("NInf"), T("Float2")>>), Lst(<<T("Int"), T("Int2")>>)}
                   [] OTHER -> Sc({"Str2", "True", "Float2"})
        strlike == IF kind \in {"string", "file", "plain"} THEN Sc({"EmptyStr", "StrInf", "StrNInf", "StrUuid"}) ELSE {}
        g5 == IF kind \in {"string", "file"} THEN Sc({"StrG5"}) ELSE {}
        none == IF f.kind # "plain" /\ f.en # "absent" THEN {NoneV} ELSE {}   \* None is the value of a *disabled* parameter
    IN CASE SetClass = "none" -> {}
         [] SetClass = "plain" -> typed \cup none
         [] OTHER -> typed \cup none \cup strlike \cup g5

\* ------------------------------------------------------------------ behaviour
NoLast == [act |-> "Init", k |-> 0, v |-> NoneV, out |-> "ok", obs |-> <<>>]
Init ==
    /\ raw \in Files
    /\ validate \in Validates
    /\ upden \in UpdEnabled
    /\ validate => StrictFile(raw)
    /\ loaded = FALSE /\ dead = FALSE
    /\ forms = raw /\ data = <<>> /\ req = <<>> /\ disk = <<>> /\ wdata = <<>> /\ wen = <<>>
    /\ fresh = FALSE /\ rfail = "" /\ nset = 0 /\ nwrite = 0 /\ wsgen = 0 /\ nassign = 0
    /\ last = NoLast

Load ==
    /\ ~loaded /\ ~dead
    /\ LET R == LoadResult(raw, validate, <<>>) IN
       IF R.ok
       THEN /\ loaded' = TRUE /\ forms' = R.forms /\ data' = R.data /\ req' = R.req /\ dead' = dead
            /\ last' = [NoLast EXCEPT !.act = "Load"]
       ELSE /\ dead' = TRUE /\ UNCHANGED <<loaded, forms, data, req>>
            /\ last' = [NoLast EXCEPT !.act = "Load", !.out = "refused"]
    /\ UNCHANGED <<wsgen, nassign, raw, validate, upden, disk, wdata, wen, fresh, rfail, nset, nwrite>>

\* set_data_value validates first (input_file.py:433-446) then data[key] = value, update_ui_values({key: value})
SetValue(k, v) ==
    /\ loaded /\ nset < MaxSet
    /\ validate => (nwrite = 0 /\ forms[k].kind # "plain")   \* validations inferred after a re-read / from a plain entry's own type are C15's subject
    /\ v \in SetDomain(forms[k])
    /\ ~upden => (v = NoneV \/ forms[k].en # "F")     \* without update_enabled a disabled parameter stays disabled:
                                                      \* a value for it is outside "None for disabled parameters"
    /\ IF validate /\ ((v = NoneV /\ req[k]) \/ (forms[k].kind \in {"data", "datavalue"} /\ forms[k].parent = 0))
            \* OptionalValidator ; a data form without parent parameter: validations["association"] is None and
            \* self.data[None] raises KeyError (input_file.py:437) - a refusal, the state is unchanged
       THEN /\ UNCHANGED <<forms, data, fresh>>
            /\ last' = [NoLast EXCEPT !.act = "SetValue", !.k = k, !.v = v, !.out = "refused"]
       ELSE /\ data' = [data EXCEPT ![k] = v]
            /\ forms' = UpdOne(forms, k, v, upden)
            /\ fresh' = FALSE
            /\ last' = [NoLast EXCEPT !.act = "SetValue", !.k = k, !.v = v]
    /\ nset' = nset + 1 /\ rfail' = ""
    /\ UNCHANGED <<wsgen, nassign, raw, validate, upden, loaded, dead, req, disk, wdata, wen, nwrite>>

\* write_ui_json: update_ui_values(data) with update_enabled, then json.dump(stringify(demote(ui_json)))
Write ==
    /\ loaded /\ nwrite < MaxWrite
    /\ LET F == UpdAll(forms, data, upden, 1) IN
       /\ forms' = F
       /\ disk' = [k \in P |-> DiskForm(F[k])]
       /\ wdata' = data
       /\ wen' = [k \in P |-> F[k].en]
    /\ nwrite' = nwrite + 1 /\ fresh' = FALSE /\ rfail' = ""
    /\ last' = [NoLast EXCEPT !.act = "Write", !.obs = disk']
    /\ UNCHANGED <<wsgen, nassign, raw, validate, upden, loaded, dead, data, req, nset>>

\* read_ui_json(path, validate=validate) + .data ; a refused read leaves the caller with the old object
Read ==
    /\ loaded /\ disk # <<>>
    /\ LET R == LoadResult(disk, validate, wdata) IN
       IF R.ok
       THEN /\ forms' = R.forms /\ data' = R.data /\ req' = R.req /\ fresh' = TRUE /\ rfail' = ""
            /\ last' = [NoLast EXCEPT !.act = "Read"]
       ELSE /\ rfail' = (IF R.why = "legit" THEN "" ELSE R.why) /\ fresh' = FALSE /\ UNCHANGED <<forms, data, req>>
            /\ last' = [NoLast EXCEPT !.act = "Read", !.out = "refused"]
    /\ UNCHANGED <<wsgen, nassign, raw, validate, upden, loaded, dead, disk, wdata, wen, nset, nwrite>>

\* in_file.data = value (input_file.py:121-150): promote, validate_data, update_ui_values(value); value = the
\* identifiers of the current data (what a caller holding uuids assigns)
Assign ==
    /\ loaded /\ nassign < MaxAssign
    /\ \A k \in P : ~HasT(data[k], I("Id", "unk"))
    /\ LET D == [k \in P |-> MapV(PromoteE, MapV(IdOfE, data[k]))] IN
       IF validate /\ (\E k \in P : forms[k].kind # "plain" /\ D[k] = NoneV /\ req[k])
       THEN /\ UNCHANGED <<forms, data, fresh>>
            /\ last' = [NoLast EXCEPT !.act = "Assign", !.out = "refused"]
       ELSE /\ data' = D
            /\ forms' = UpdAll(forms, D, upden, 1)
            /\ fresh' = FALSE
            /\ last' = [NoLast EXCEPT !.act = "Assign"]
    /\ nassign' = nassign + 1 /\ rfail' = ""
    /\ UNCHANGED <<wsgen, raw, validate, upden, loaded, dead, req, disk, wdata, wen, nset, nwrite>>

Edit ==
    /\ loaded /\ wsgen < MaxEdit
    /\ wsgen' = wsgen + 1
    /\ last' = [NoLast EXCEPT !.act = "Edit"]
    /\ UNCHANGED <<nassign, raw, validate, upden, loaded, dead, forms, data, req, disk, wdata, wen, fresh, rfail, nset, nwrite>>

\* observations (no state change)
DemoteMap(D) == [k \in DOMAIN D |-> MapV(DemoteE, D[k])]
IdsMap(D) == [k \in DOMAIN D |-> MapV(IdOfE, D[k])]
PromoteMap(D) == [k \in DOMAIN D |-> MapV(PromoteE, D[k])]
\* (observed before the first write and right after a read: the other states hold the same kinds of values)
ObsHere == loaded /\ (nwrite = 0 \/ fresh)
Demote == /\ ObsHere
          /\ last' = [NoLast EXCEPT !.act = "Demote", !.obs = DemoteMap(data)]
          /\ UNCHANGED vw
NoUnknownId == \A k \in P : ~HasT(data[k], I("Id", "unk"))
Promote == /\ ObsHere /\ NoUnknownId
           /\ last' = [NoLast EXCEPT !.act = "Promote", !.obs = PromoteMap(IdsMap(data))]
           /\ UNCHANGED vw

Next == Load \/ Write \/ Read \/ Assign \/ Edit \/ Demote \/ Promote \/ \E k \in P : \E v \in SetDomain(forms[k]) : SetValue(k, v)
Spec == Init /\ [][Next]_vars

\* ------------------------------------------------------------------ properties (C14)
\* Read(Write(f)).data = f.data (up to the identifications the property allows) and the same enabled states
RTData(k) == Canon(data[k]) = Canon(wdata[k])
RTEn(k) == forms[k].en = wen[k]
\* data and ui_json stay in step (anchors.state)
InStepAt(k) == MapV(PromoteE, Flat(forms, k)) = MapV(PromoteE, data[k])     \* the flat view is the promoted one
Viol ==
    (IF loaded /\ fresh
     THEN {[inv |-> "RoundTripData", k |-> k,
            cause |-> IF StrCause(wdata[k]) # "" THEN StrCause(wdata[k]) ELSE FormCause(forms[k])] : k \in {j \in P : ~RTData(j)}}
          \cup {[inv |-> "RoundTripEnabled", k |-> k, cause |-> FormCause(forms[k])] : k \in {j \in P : ~RTEn(j)}}
     ELSE {})
    \cup (IF loaded THEN {[inv |-> "InStep", k |-> k, cause |-> FormCause(forms[k])] : k \in {j \in P : ~InStepAt(j)}} ELSE {})
    \cup (IF rfail # "" THEN {[inv |-> "ReadRefused", k |-> 0, cause |-> rfail]} ELSE {})
NoViolation == Viol = {}
RoundTrip == \A v \in Viol : v.inv \notin {"RoundTripData", "RoundTripEnabled", "ReadRefused"}
InStep == \A v \in Viol : v.inv # "InStep"
Explained == \A v \in Viol : v.cause # "unexplained"
\* Demote(Promote(x)) = x for identifiers of workspace entities, Promote(identifiers of a promoted value) = the value
PromoteDemote ==
    loaded => \A k \in P : \A i \in DOMAIN data[k].e :
        LET t == data[k].e[i] IN
        /\ t.c \in {"Ent", "EntB"} => (CanonE(PromoteE(IdOfE(t))) = CanonE(t) /\ NumifyE(DemoteE(PromoteE(IdOfE(t)))) = IdOfE(t))
        /\ (t.c = "Id" /\ t.x # "unk") => NumifyE(DemoteE(PromoteE(t))) = t
\* writing never changes the flat view; a refused action changes nothing
WriteKeepsData == [][last'.act = "Write" => data' = data]_vars
TypeOK == /\ loaded => (Len(forms) = N /\ Len(data) = N)
          /\ \A k \in DOMAIN disk : \A i \in DOMAIN disk[k].value.e :
                disk[k].value.e[i].c \notin {"None", "PInf", "NInf", "Id", "Ent", "EntB", "Ws", "WsNew"}   \* only JSON-able text on disk

\* ------------------------------------------------------------------ export
Header == [title |-> S(T("Str")), geoh5 |-> S(T("Ws")), run_command |-> NoneV, run_command_boolean |-> S(T("False")),
           monitoring_directory |-> NoneV, conda_environment |-> NoneV, conda_environment_boolean |-> S(T("False")),
           workspace |-> NoneV]
\* raw is printed with the initial states only, the JSON text with the Write transition only (last.obs)
StateJson == [raw |-> IF ~loaded /\ ~dead THEN raw ELSE <<>>, validate |-> validate, upden |-> upden, wsgen |-> wsgen, loaded |-> loaded,
              forms |-> IF loaded THEN forms ELSE <<>>, data |-> data,
              viol |-> Viol, init |-> (~loaded /\ ~dead)]
ASSUME PrintT(<<"HDR", ToJson(Header)>>)
ExportState == PrintT(<<"ST", TLCFP(vw), TLCFP(<<vw, 1>>), ToJson(StateJson)>>)
ExportTrans == PrintT(<<"TR", TLCFP(vw), TLCFP(<<vw, 1>>), TLCFP(vw'), TLCFP(<<vw', 1>>), ToJson(last')>>)
=============================================================================
