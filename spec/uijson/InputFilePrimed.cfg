\* (b) another ui.json with multiSelect forms is loaded in the same process, then one call on every form kind x every value kind
SPECIFICATION Spec
CONSTANTS
  Target = "classic"
  Kinds = {"string", "integer", "float", "bool", "choice", "file", "object", "group", "data", "pgroup", "datavalue", "gdata", "objectmulti"}
  VaryGroup = FALSE
  VaryDep = FALSE
  ValueSet = "all"
  Entries = {"Prime", "SetKey", "SetAll", "Check", "CheckOne"}
  MaxDepth = 2
  Deviations = {"StaleRuleTable", "PgTypeNeedsEntity", "MultiItemsUnchecked"}
PROPERTY VerdictIsAccepts
PROPERTY RejectedLeavesUnchanged
INVARIANT HierarchyLaws
INVARIANT CodeIsHierarchy
INVARIANT TableIsCurrent
VIEW vw
INVARIANT ExportState
ACTION_CONSTRAINT ExportTrans
CHECK_DEADLOCK FALSE
