\* C14 ideal specification (no deviation): every C14 invariant must hold
SPECIFICATION Spec
CONSTANTS
  N = 1
  Catalogue = "small"
  Relations = {"none"}
  MaxSet = 0
  MaxWrite = 1
  Validates = {FALSE, TRUE}
  SetClass = "none"
  MaxEdit = 1
  MaxAssign = 1
  UpdEnabled = {TRUE}
  Deviations = {}
VIEW vw
INVARIANT NoViolation
INVARIANT PromoteDemote
INVARIANT TypeOK
PROPERTY WriteKeepsData
CHECK_DEADLOCK FALSE
