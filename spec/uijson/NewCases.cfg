\* (a) new API: every parameter kind x wrapper x value kind, one call
SPECIFICATION Spec
CONSTANTS
  Target = "param"
  Kinds = {"String", "Integer", "Float", "Numeric", "Bool", "StringList", "Value", "TypeR", "TypeUID", "Workspace", "PropertyGroup", "Uu", "Two", "TypeUuid"}
  VaryGroup = FALSE
  VaryDep = FALSE
  ValueSet = "all"
  Entries = {"parameter", "form", "pool"}
  MaxDepth = 1
  Deviations = {"StoreBeforeValidate"}
PROPERTY VerdictIsAccepts
PROPERTY RejectedLeavesUnchanged
ACTION_CONSTRAINT ExportCase
CHECK_DEADLOCK FALSE
