\* C14 as-built specification, state graph exported for replay
SPECIFICATION Spec
CONSTANTS
  N = 1
  Catalogue = "cross"
  Relations = {"none"}
  MaxSet = 1
  MaxWrite = 2
  Validates = {FALSE, TRUE}
  SetClass = "all"
  MaxEdit = 0
  MaxAssign = 0
  UpdEnabled = {TRUE}
  Deviations = {"EmptyStrAsNone", "InfTextAsFloat", "UuidTextAsId", "NoneMemberAsText", "IsValueFlipOnNone", "FileFormRejectsWorkspace", "GroupPropagation"}
VIEW vw
INVARIANT Explained
INVARIANT PromoteDemote
INVARIANT TypeOK
INVARIANT ExportState
ACTION_CONSTRAINT ExportTrans
PROPERTY WriteKeepsData
CHECK_DEADLOCK FALSE
