\* negative control: a list accepted as a whole by a multiSelect form breaks VerdictIsAccepts
SPECIFICATION Spec
CONSTANTS
  Target = "classic"
  Kinds = {"objectmulti"}
  VaryGroup = FALSE
  VaryDep = FALSE
  ValueSet = "all"
  Entries = {"SetKey"}
  MaxDepth = 1
  Deviations = {"MultiItemsUnchecked"}
PROPERTY VerdictIsAcceptsStrict
CHECK_DEADLOCK FALSE
