\* (b) one InputFile on a multiSelect object form / a data form whose parent is a group: sequences of <= 2 calls, every value kind
SPECIFICATION Spec
CONSTANTS
  Target = "classic"
  Kinds = {"gdata", "objectmulti"}
  VaryGroup = FALSE
  VaryDep = FALSE
  ValueSet = "all"
  Entries = {"SetKey", "SetAll", "Check"}
  MaxDepth = 2
  Deviations = {"StaleRuleTable", "MultiItemsUnchecked"}
PROPERTY VerdictIsAccepts
PROPERTY RejectedLeavesUnchanged
INVARIANT HierarchyLaws
INVARIANT CodeIsHierarchy
INVARIANT TableIsCurrent
VIEW vw
INVARIANT ExportState
ACTION_CONSTRAINT ExportTrans
CHECK_DEADLOCK FALSE
