\* C14 negative control: this deviation alone must break NoViolation
SPECIFICATION Spec
CONSTANTS
  N = 1
  Catalogue = "domain"
  Relations = {"none"}
  MaxSet = 1
  MaxWrite = 1
  Validates = {FALSE, TRUE}
  SetClass = "all"
  MaxEdit = 0
  MaxAssign = 0
  UpdEnabled = {TRUE}
  Deviations = {"EmptyStrAsNone"}
VIEW vw
INVARIANT NoViolation
INVARIANT PromoteDemote
INVARIANT TypeOK
PROPERTY WriteKeepsData
CHECK_DEADLOCK FALSE
