\* negative control: a rule table that is not rebuilt breaks VerdictIsAccepts
SPECIFICATION Spec
CONSTANTS
  Target = "classic"
  Kinds = {"integer"}
  VaryGroup = FALSE
  VaryDep = FALSE
  ValueSet = "probe"
  Entries = {"SetKey"}
  MaxDepth = 2
  Deviations = {"StaleRuleTable"}
PROPERTY VerdictIsAcceptsStrict
CHECK_DEADLOCK FALSE
