\* negative control: popping one_of from the shared table breaks VerdictIsAccepts
SPECIFICATION Spec
CONSTANTS
  Target = "oneof"
  Kinds = {}
  VaryGroup = FALSE
  VaryDep = FALSE
  ValueSet = "machine"
  Entries = {}
  MaxDepth = 2
  Deviations = {"OneOfPopped"}
PROPERTY VerdictIsAcceptsStrict
CHECK_DEADLOCK FALSE
