\* (b) another ui.json with multiSelect forms is loaded in the same process, then sequences of <= 2 calls on every form kind
SPECIFICATION Spec
CONSTANTS
  Target = "classic"
  Kinds = {"string", "integer", "float", "bool", "choice", "file", "object", "group", "data", "pgroup", "datavalue", "gdata", "objectmulti"}
  VaryGroup = FALSE
  VaryDep = FALSE
  ValueSet = "machine"
  Entries = {"Prime", "SetKey", "SetAll", "Check", "CheckOne"}
  MaxDepth = 3
  Deviations = {"StaleRuleTable", "StrIdSkipsMembership", "PgTypeNeedsEntity"}
PROPERTY VerdictIsAccepts
PROPERTY RejectedLeavesUnchanged
INVARIANT HierarchyLaws
INVARIANT CodeIsHierarchy
INVARIANT TableIsCurrent
VIEW vw
INVARIANT ExportState
ACTION_CONSTRAINT ExportTrans
CHECK_DEADLOCK FALSE
