\* negative control: a UIJson pool that keeps its errors breaks VerdictIsAccepts
SPECIFICATION Spec
CONSTANTS
  Target = "uijson"
  Kinds = {}
  VaryGroup = FALSE
  VaryDep = FALSE
  ValueSet = "machine"
  Entries = {}
  MaxDepth = 4
  Deviations = {"PoolKeepsErrors"}
PROPERTY VerdictIsAcceptsStrict
CHECK_DEADLOCK FALSE
