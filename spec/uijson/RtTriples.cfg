\* C14 as-built specification, state graph exported for replay
SPECIFICATION Spec
CONSTANTS
  N = 3
  Catalogue = "tiny"
  Relations = {"none", "parent", "dep", "group", "gd3"}
  MaxSet = 0
  MaxWrite = 1
  Validates = {FALSE}
  SetClass = "none"
  MaxEdit = 0
  MaxAssign = 0
  UpdEnabled = {TRUE}
  Deviations = {"EmptyStrAsNone", "InfTextAsFloat", "UuidTextAsId", "NoneMemberAsText", "IsValueFlipOnNone", "FileFormRejectsWorkspace", "GroupPropagation"}
VIEW vw
INVARIANT Explained
INVARIANT PromoteDemote
INVARIANT TypeOK
INVARIANT ExportState
ACTION_CONSTRAINT ExportTrans
PROPERTY WriteKeepsData
CHECK_DEADLOCK FALSE
