\* C14 ideal specification (no deviation): every C14 invariant must hold
SPECIFICATION Spec
CONSTANTS
  N = 2
  Catalogue = "small"
  Relations = {"none", "parent", "dep", "group"}
  MaxSet = 1
  MaxWrite = 2
  Validates = {FALSE, TRUE}
  SetClass = "all"
  UpdEnabled = {TRUE}
  Deviations = {}
VIEW vw
INVARIANT NoViolation
INVARIANT PromoteDemote
INVARIANT TypeOK
PROPERTY WriteKeepsData
CHECK_DEADLOCK FALSE
