\* (b) one InputFile, sequences of <= 3 calls, every form kind, dependency switches
SPECIFICATION Spec
CONSTANTS
  Target = "classic"
  Kinds = {"string", "integer", "float", "bool", "choice", "file", "object", "group", "data", "pgroup", "datavalue", "gdata", "objectmulti"}
  VaryGroup = FALSE
  VaryDep = TRUE
  ValueSet = "machine"
  Entries = {"SetKey", "SetAll", "Check", "CheckOne"}
  MaxDepth = 3
  Deviations = {"StaleRuleTable", "StrIdSkipsMembership", "PgTypeNeedsEntity"}
PROPERTY VerdictIsAccepts
PROPERTY RejectedLeavesUnchanged
INVARIANT HierarchyLaws
INVARIANT CodeIsHierarchy
INVARIANT TableIsCurrent
VIEW vw
INVARIANT ExportState
ACTION_CONSTRAINT ExportTrans
CHECK_DEADLOCK FALSE
