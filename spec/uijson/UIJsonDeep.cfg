\* (b) new API: one UIJson, sequences of <= 5 calls
SPECIFICATION Spec
CONSTANTS
  Target = "uijson"
  Kinds = {}
  VaryGroup = FALSE
  VaryDep = FALSE
  ValueSet = "machine"
  Entries = {}
  MaxDepth = 5
  Deviations = {"PoolKeepsErrors"}
PROPERTY VerdictIsAccepts
PROPERTY RejectedLeavesUnchanged
VIEW vw
INVARIANT ExportState
ACTION_CONSTRAINT ExportTrans
CHECK_DEADLOCK FALSE
