\* (b) one_of pair, sequences of <= 4 calls
SPECIFICATION Spec
CONSTANTS
  Target = "oneof"
  Kinds = {}
  VaryGroup = FALSE
  VaryDep = FALSE
  ValueSet = "machine"
  Entries = {}
  MaxDepth = 4
  Deviations = {"OneOfPopped"}
PROPERTY VerdictIsAccepts
PROPERTY RejectedLeavesUnchanged
VIEW vw
INVARIANT ExportState
ACTION_CONSTRAINT ExportTrans
CHECK_DEADLOCK FALSE
