\* negative control: a property-group check that needs the entity breaks VerdictIsAccepts
SPECIFICATION Spec
CONSTANTS
  Target = "classic"
  Kinds = {"pgroup"}
  VaryGroup = FALSE
  VaryDep = FALSE
  ValueSet = "all"
  Entries = {"SetKey"}
  MaxDepth = 1
  Deviations = {"PgTypeNeedsEntity"}
PROPERTY VerdictIsAcceptsStrict
CHECK_DEADLOCK FALSE
