\* (b) new API: members of one StringFormParameter (descriptor / register), value, validate(); sequences of <= 3 calls
SPECIFICATION Spec
CONSTANTS
  Target = "form"
  Kinds = {}
  VaryGroup = FALSE
  VaryDep = FALSE
  ValueSet = "machine"
  Entries = {}
  MaxDepth = 3
  Deviations = {}
PROPERTY VerdictIsAccepts
PROPERTY RejectedLeavesUnchanged
VIEW vw
INVARIANT ExportState
ACTION_CONSTRAINT ExportTrans
CHECK_DEADLOCK FALSE
