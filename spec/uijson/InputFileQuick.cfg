\* (b) one InputFile, sequences of <= 3 calls, three form kinds
SPECIFICATION Spec
CONSTANTS
  Target = "classic"
  Kinds = {"integer", "choice", "data"}
  VaryGroup = FALSE
  VaryDep = FALSE
  ValueSet = "machine"
  Entries = {"SetKey", "SetAll", "Check", "CheckOne"}
  MaxDepth = 3
  Deviations = {"StaleRuleTable", "StrIdSkipsMembership"}
PROPERTY VerdictIsAccepts
PROPERTY RejectedLeavesUnchanged
INVARIANT HierarchyLaws
INVARIANT CodeIsHierarchy
INVARIANT TableIsCurrent
VIEW vw
INVARIANT ExportState
ACTION_CONSTRAINT ExportTrans
CHECK_DEADLOCK FALSE
