\* (b) one InputFile, sequences of <= 4 calls on optional forms
SPECIFICATION Spec
CONSTANTS
  Target = "classic"
  Kinds = {"integer", "data", "pgroup"}
  VaryGroup = FALSE
  VaryDep = FALSE
  ValueSet = "machine"
  Entries = {"SetKey", "SetAll"}
  MaxDepth = 4
  Deviations = {"StaleRuleTable", "StrIdSkipsMembership", "PgTypeNeedsEntity"}
PROPERTY VerdictIsAccepts
PROPERTY RejectedLeavesUnchanged
INVARIANT HierarchyLaws
INVARIANT CodeIsHierarchy
INVARIANT TableIsCurrent
VIEW vw
INVARIANT ExportState
ACTION_CONSTRAINT ExportTrans
CHECK_DEADLOCK FALSE
