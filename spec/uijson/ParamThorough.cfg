\* (b) new API: every parameter kind, sequences of <= 4 calls
SPECIFICATION Spec
CONSTANTS
  Target = "param"
  Kinds = {"String", "Integer", "Float", "Numeric", "Bool", "StringList", "Value", "TypeR", "TypeUID", "Workspace", "PropertyGroup", "Uu", "Two", "TypeUuid"}
  VaryGroup = FALSE
  VaryDep = FALSE
  ValueSet = "machine"
  Entries = {"parameter", "form", "pool"}
  MaxDepth = 4
  Deviations = {"StoreBeforeValidate", "PoolKeepsErrors"}
PROPERTY VerdictIsAccepts
PROPERTY RejectedLeavesUnchanged
VIEW vw
INVARIANT ExportState
ACTION_CONSTRAINT ExportTrans
CHECK_DEADLOCK FALSE
