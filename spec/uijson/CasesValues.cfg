\* (a) every classic form kind x every value kind x optional/enabled x entry points; deviations may be present
SPECIFICATION Spec
CONSTANTS
  Target = "classic"
  Kinds = {"string", "integer", "float", "bool", "choice", "file", "object", "group", "data", "pgroup", "datavalue", "gdata", "objectmulti"}
  VaryGroup = FALSE
  VaryDep = FALSE
  ValueSet = "all"
  Entries = {"Load", "SetKey", "SetAll", "Check", "CheckOne"}
  MaxDepth = 1
  Deviations = {"StrIdSkipsMembership", "PgTypeNeedsEntity", "MultiItemsUnchecked"}
PROPERTY VerdictIsAccepts
PROPERTY RejectedLeavesUnchanged
INVARIANT HierarchyLaws
INVARIANT CodeIsHierarchy
INVARIANT TableIsCurrent
ACTION_CONSTRAINT ExportCase
CHECK_DEADLOCK FALSE
