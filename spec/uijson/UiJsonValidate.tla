--------------------------- MODULE UiJsonValidate ---------------------------
(* C15 - ui.json validation accepts exactly the valid values, statelessly.                         *)
(*                                                                                                 *)
(* Two layers are kept apart on purpose:                                                           *)
(*   DECLARED  : RequiresValue / Accepts / AcceptsNew ... = what the form (or parameter) declares, *)
(*               written from the format documentation (docs/content/uijson_format/params.rst,     *)
(*               the docstrings of ui_json/utils.py:124-137 and :85-95) and the property text.     *)
(*               It has no history.                                                                *)
(*   OPERATIONAL: the mechanisms of the code - the rule table inferred from the form              *)
(*               (validation.py:122-199), the validator chain (validation.py:249-267,              *)
(*               shared/validators.py:141-352), promotion (input_file.py:520-545), the one_of      *)
(*               bookkeeping (validation.py:269-303), the enforcer pool (enforcers.py:336-356),    *)
(*               Parameter.value (parameters.py:61-64), UIJson.validate (ui_json.py:122-126).      *)
(* The C15 properties say: on every transition the OPERATIONAL verdict equals the DECLARED one for *)
(* the current form, and a rejected call leaves the visible state unchanged.                       *)
(*                                                                                                 *)
(* Named deviations (constant Deviations).  Init chooses devOn \in SUBSET Deviations once per      *)
(* behaviour: devOn = {} is the ideal machine (the properties are checked there), every other      *)
(* choice is "as built with these defects".  The harness follows the implementation through the    *)
(* exported graph and reports a deviation only when no behaviour with fewer deviations explains    *)
(* what geoh5py answered.                                                                          *)
(*   StaleRuleTable       InputFile infers its rule table once (input_file.py:227-236, :355-363);  *)
(*                        update_ui_values flips "enabled" (:262-267) but the table is not rebuilt *)
(*   StrIdSkipsMembership AssociationValidator returns early for str values (validators.py:195-200)*)
(*   PgTypeNeedsEntity    PropertyGroupValidator dereferences value.property_group_type on a raw   *)
(*                        uuid / str (validators.py:221-223)                                       *)
(*   MultiItemsUnchecked  a list given to a multiSelect form is accepted as a whole: TypeValidator wraps it *)
(*                        (validators.py:299-300), UUIDValidator and AssociationValidator only look at     *)
(*                        scalars (:195-200, :323); only the data setter's promotion checks uuid items     *)
(*   OneOfPopped          validate_data pops "one_of" from the shared rule table (validation.py:288)*)
(*   PoolKeepsErrors      EnforcerPool._raise_errors leaves _errors filled after an aggregate      *)
(*                        error (enforcers.py:351-356)                                             *)
(*   StoreBeforeValidate  Parameter.value stores and then validates (parameters.py:61-64)          *)
EXTENDS Naturals, FiniteSets, Sequences, TLC, TLCExt, Json

CONSTANTS
    Target,       \* "classic" | "oneof" | "param" | "form" | "uijson"
    Kinds,        \* form kinds (classic) or parameter kinds (param) explored
    VaryGroup,    \* classic: enumerate the group / groupOptional / group-enabled switches
    VaryDep,      \* classic: enumerate the dependency / dependencyType / state / kind switches
    ValueSet,     \* "probe" | "machine" | "all"
    Entries,      \* classic: subset of {"Load", "Prime", "SetKey", "SetAll", "Check", "CheckOne"} ;
                  \* param: subset of {"parameter", "form", "pool"}
    MaxDepth,
    Deviations

VARIABLES cfg, st, depth, last
vw == <<cfg, st, depth>>
vars == <<cfg, st, depth, last>>
B == BOOLEAN

\* ============================================================== value tokens
\* The harness maps every token to a Python value built on a real workspace:
\*   object A (Points, in a ContainerGroup) with data "data" and property groups pg3d ("3D vector"),
\*   pgmulti ("Multi-element"); object B with data "other" and property group pgother ("3D vector");
\*   a second workspace with object "foreignobj" and data "foreign"; "bogus" is a fresh uuid.
Class(v) ==
    CASE v = "None" -> "None"
      [] v \in {"True", "False"} -> "Bool"
      [] v = "Int" -> "Int"
      [] v = "Float" -> "Float"
      [] v \in {"Str", "EmptyStr", "Choice", "SidData", "SidOther", "SidObj", "SidBogus"} -> "Str"
      [] v \in {"UidData", "UidOther", "UidObj", "UidGroup", "UidBogus", "UidPg3D", "UidPgMulti"} -> "Uuid"
      [] v \in {"EntData", "EntOther", "EntObj", "EntObjB", "EntGroup", "EntForeign", "EntForeignObj",
                "EntInt", "EntCurve"} -> "Entity"
      [] v \in {"Pg3D", "PgMulti", "PgOther"} -> "PGroup"
      [] v \in {"ListStr", "ListInt", "LUidObj", "LEntObj", "LUidObjBogus", "LEntForeign"} -> "List"
      [] v = "Ws" -> "Workspace"

\* what an identifier-like value designates
Ref(v) ==
    CASE v \in {"SidData", "UidData", "EntData"} -> "data"
      [] v \in {"SidOther", "UidOther", "EntOther"} -> "other"
      [] v \in {"SidObj", "UidObj", "EntObj"} -> "obj"
      [] v = "EntObjB" -> "objb"
      [] v \in {"UidGroup", "EntGroup"} -> "group"
      [] v \in {"SidBogus", "UidBogus"} -> "bogus"
      [] v = "EntForeign" -> "foreign"
      [] v = "EntForeignObj" -> "foreignobj"
      [] v \in {"UidPg3D", "Pg3D"} -> "pg3d"
      [] v \in {"UidPgMulti", "PgMulti"} -> "pgmulti"
      [] v = "PgOther" -> "pgother"
      [] v = "EntInt" -> "intdata"
      [] v = "EntCurve" -> "curve"
      [] OTHER -> "none"

WellFormedId(v) == Class(v) \in {"Uuid", "Entity", "PGroup"} \/ (Class(v) = "Str" /\ Ref(v) # "none")
InWorkspace(r) == r \in {"data", "other", "obj", "objb", "group", "pg3d", "pgmulti", "pgother", "intdata", "curve"}
InParentA(r) == r \in {"data", "pg3d", "pgmulti", "intdata"}      \* descendants of object A
InGroupG(r) == r \in {"obj", "data", "pg3d", "pgmulti", "intdata"}       \* descendants of the container group of A
Member(scope, r) == CASE scope = "workspace" -> InWorkspace(r) [] scope = "group" -> InGroupG(r)
                      [] OTHER -> InParentA(r)
PgTypeOf(r) == CASE r \in {"pg3d", "pgother"} -> "3D vector" [] r = "pgmulti" -> "Multi-element" [] OTHER -> "none"

\* Python's isinstance: bool is a subclass of int
TypeNames(v) == IF Class(v) = "Bool" THEN {"Bool", "Int"} ELSE {Class(v)}
\* items of a list value: ListInt = [42], ListStr = ["a", "b"], LUidObj = [uuid of A], LEntObj = [A],
\* LUidObjBogus = [uuid of A, unknown uuid], LEntForeign = [object of another workspace]
Items(v) == CASE v = "ListInt" -> {"Int"} [] v = "ListStr" -> {"Str"} [] v = "LUidObj" -> {"UidObj"}
              [] v = "LEntObj" -> {"EntObj"} [] v = "LUidObjBogus" -> {"UidObj", "UidBogus"}
              [] v = "LEntForeign" -> {"EntForeignObj"} [] OTHER -> {}
ElemTypeNames(v) == UNION {TypeNames(i) : i \in Items(v)}

\* ============================================================== DECLARED: classic forms
\* ---- which forms need a value (docstring of requires_value, ui_json/utils.py:124-137; params.rst:13-24)
\* "At the top is the groupOptional switch, below that is the dependency switch, and on the bottom is
\*  the optional switch.  When group optional is disabled all parameters in the group are not required.
\*  When the groupOptional is enabled the required status of a parameter depends first [on] any
\*  dependencies and lastly on its optional status."  (utils.py:128-133)
\* "If dependency doesn't require a value then the function returns False. But if the dependency does
\*  require a value, the return value is either True, or will take on the enabled state if the dependent
\*  parameter is optional."  (utils.py:89-91)
\* depState = the dependency is checked (value true of a boolean form / enabled of an optional form,
\* params.rst:21-24).  A boolean form that is not optional is a plain checkbox: its state is its value,
\* whatever "enabled" member it carries (Geoscience ANALYST writes "enabled": true on plain forms, set_enabled
\* stamps the group's state on every member of an optional group, utils.py:185-194); the switch "den"
\* (absent / on / off) enumerates that member and RequiresValue does not depend on it.
DependencyRequires(dependencyType, depState) ==
    IF dependencyType = "enabled" THEN depState ELSE ~depState
RequiresValue(group, groupOptional, groupEnabled, dependency, dependencyType, depState, optional, enabled) ==
    IF group /\ groupOptional /\ ~groupEnabled THEN FALSE
    ELSE IF dependency /\ ~DependencyRequires(dependencyType, depState) THEN FALSE
    ELSE IF optional THEN enabled
    ELSE TRUE
Req(f, en) == RequiresValue(f.group, f.gopt, f.gen, f.dep, f.dtype, f.dstate, f.opt, en)

\* ---- the same decision with the branch structure of the code (utils.py:138-157, :96-106, :116-121);
\* TLC checks that it is the documented hierarchy on every switch combination (CodeIsHierarchy)
CodeDependencyRequires(f, en) ==
    LET isReq == IF f.dtype = "enabled" THEN f.dstate ELSE ~f.dstate      \* :98-101
    IN IF f.opt /\ isReq THEN en ELSE isReq                                  \* :103-106
CodeRequiresValue(f, en) ==
    IF f.group                                                               \* :141
    THEN IF (IF f.gopt THEN f.gen ELSE TRUE)                                 \* group_requires_value :116-121
         THEN IF f.dep THEN CodeDependencyRequires(f, en)                    \* :144-145
              ELSE IF f.opt THEN en ELSE TRUE                                \* :146-147
         ELSE FALSE                                                          \* :148-149
    ELSE IF f.dep THEN CodeDependencyRequires(f, en)                         \* :151-152
    ELSE IF f.opt THEN en                                                    \* :154-155
    ELSE TRUE

\* ---- form kinds (docs/content/uijson_format/json_objects.rst; templates.py)
\* "gdata" = data form whose parent names a GROUP selector (members = everything below the group, i.e. data of
\* the objects inside it); "objectmulti" = object form with multiSelect: true (a list of identifiers)
ClassicKinds == {"string", "integer", "float", "bool", "choice", "file",
                 "object", "group", "data", "pgroup", "datavalue", "gdata", "objectmulti"}
IdKind(k) == k \in {"object", "group", "data", "pgroup", "datavalue", "gdata", "objectmulti"}
Scope(k) == CASE k \in {"object", "group", "objectmulti"} -> "workspace" [] k = "gdata" -> "group" [] OTHER -> "parent"
MultiSelect(k) == k = "objectmulti"
DeclaredTypes(k) ==
    CASE k \in {"string", "file", "choice"} -> {"Str"}
      [] k = "integer" -> {"Int"}
      [] k = "float" -> {"Float"}
      [] k = "bool" -> {"Bool"}
      [] k \in {"object", "group", "data", "gdata", "objectmulti"} -> {"Str", "Uuid", "Entity"}  \* uuid text, uuid, entity
      [] k = "pgroup" -> {"Str", "Uuid", "PGroup"}
      [] k = "datavalue" -> {"Str", "Uuid", "Entity", "Int", "Float"}          \* isValue: number or data
InChoiceList(v) == v = "Choice"

\* The property, clause by clause: type, choice list, well-formed identifier, membership of the
\* referenced parent object or workspace, property-group type, None allowed iff no value is required.
\* a multiSelect form takes one such value or a list of them; any other form takes no list
AcceptsOne(f, v) ==
         /\ TypeNames(v) \cap DeclaredTypes(f.kind) # {}
         /\ (f.kind = "choice" => InChoiceList(v))
         /\ (IdKind(f.kind) /\ Class(v) \in {"Str", "Uuid", "Entity", "PGroup"}) =>
                /\ WellFormedId(v)
                /\ Member(Scope(f.kind), Ref(v))
                /\ (f.kind = "pgroup" => PgTypeOf(Ref(v)) = "3D vector")
Accepts(f, en, v) ==
    IF v = "None" THEN ~Req(f, en)
    ELSE IF Class(v) = "List" THEN MultiSelect(f.kind) /\ \A i \in Items(v) : AcceptsOne(f, i)
    ELSE AcceptsOne(f, v)

\* ============================================================== OPERATIONAL: classic path
\* rule table of one parameter: _validations_from_uijson (validation.py:136-197)
Table(k, req) ==
    [types    |-> DeclaredTypes(k) \cup (IF req THEN {} ELSE {"None"})        \* :192-194
                  \cup (IF MultiSelect(k) THEN {"List"} ELSE {}),             \* :196-197
     optional |-> ~req,                                                        \* :190
     values   |-> k = "choice",                                                \* :155-159
     uuid     |-> IdKind(k),                                                   \* :142, :168, :174
     assoc    |-> IF IdKind(k) THEN Scope(k) ELSE "none",                      \* :141, :167, :173
     pgtype   |-> k = "pgroup"]                                                \* :176-178

\* promotion of uuids to entities in the data setter (input_file.py:140-141, :520-545, utils uuid2entity)
Promote(v) ==
    CASE v = "UidData" -> "EntData" [] v = "UidOther" -> "EntOther" [] v = "UidObj" -> "EntObj"
      [] v = "UidGroup" -> "EntGroup" [] v = "UidPg3D" -> "Pg3D" [] v = "UidPgMulti" -> "PgMulti"
      [] v = "LUidObj" -> "LEntObj"                                             \* lists item by item :529-530
      [] OTHER -> v
\* _uid_promotion: association_validator(key, value, geoh5) :541-542, for every uuid item of a list as well
PromoteFails(v) == v = "UidBogus" \/ "UidBogus" \in Items(v)

\* validator chain (validation.py:249-267); each conjunct is one validator class of shared/validators.py
RunScalar(t, v, dv) ==
    /\ ~(v = "None" /\ ~t.optional)                                            \* OptionalValidator :158
    /\ IF Class(v) = "List" /\ "List" \notin t.types                          \* TypeValidator :299-307: a list is
       THEN ElemTypeNames(v) \cap t.types # {}                                \* checked item by item unless list is
       ELSE TypeNames(v) \cap t.types # {}                                    \* itself a declared type
    /\ (t.uuid /\ Class(v) = "Str") => Ref(v) # "none"                         \* UUIDValidator :323-327
    /\ (t.assoc # "none") =>                                                   \* AssociationValidator :195-212
          CASE Class(v) \in {"Uuid", "Entity", "PGroup"} -> Member(t.assoc, Ref(v))
            [] Class(v) = "Str" -> ("StrIdSkipsMembership" \in dv) \/ Member(t.assoc, Ref(v))
            [] OTHER -> TRUE
    /\ (t.pgtype /\ v # "None") =>                                             \* PropertyGroupValidator :222
          IF Class(v) \in {"Str", "Uuid"}
          THEN "PgTypeNeedsEntity" \notin dv /\ PgTypeOf(Ref(v)) = "3D vector"
          ELSE PgTypeOf(Ref(v)) = "3D vector"
    /\ (t.values /\ v # "None") => InChoiceList(v)                             \* ValueValidator :344-352
\* a list handed to a form whose table lists "List" (multiSelect): every item has to pass the chain; as built
\* the list passes as a whole (deviation MultiItemsUnchecked)
RunChain(t, v, dv) ==
    IF Class(v) = "List" /\ "List" \in t.types
    THEN "MultiItemsUnchecked" \in dv \/ \A i \in Items(v) : RunScalar([t EXCEPT !.types = @ \ {"List"}], i, dv)
    ELSE RunScalar(t, v, dv)

\* raw initial value written in the form by the harness, and what InputFile.data holds after loading
DefaultRaw(k) ==
    CASE k \in {"string", "file"} -> "Str" [] k = "integer" -> "Int" [] k = "float" -> "Float"
      [] k = "bool" -> "True" [] k = "choice" -> "Choice" [] k = "object" -> "UidObj"
      [] k = "group" -> "UidGroup" [] k = "data" -> "UidData" [] k = "pgroup" -> "UidPg3D"
      [] k = "datavalue" -> "Float" [] k = "gdata" -> "UidData" [] k = "objectmulti" -> "LUidObj"
BadValue(k) == IF k \in {"string", "file", "choice"} THEN "Int" ELSE "Str"
\* a list is never a value of a single-select form (type clause).  Enumerated where no reading of the code's
\* item-by-item rule (validators_test.py::test_type_validator) could make it acceptable: items of a type the
\* form does not declare.  ["a","b"] on string forms, [42] on integer / data-or-value forms are not enumerated.
ListBad(k) == CASE k \in {"integer", "float", "bool"} -> {"ListStr"} [] k \in {"datavalue", "objectmulti"} -> {}
                [] OTHER -> {"ListInt"}

IdValues == {"SidData", "SidOther", "SidBogus", "UidData", "UidOther", "UidObj", "UidBogus",
             "EntData", "EntOther", "EntObj", "EntForeign", "Pg3D"}
ClassicValues(k) ==
    LET common == {"None", "True", "Int", "Float", "Str", "EmptyStr", "Choice"} IN
    IF ValueSet = "probe" THEN {"None", DefaultRaw(k), BadValue(k)}
    ELSE IF ValueSet = "machine"
    THEN {"None", DefaultRaw(k), BadValue(k)} \cup ListBad(k) \cup
         (CASE k \in {"object", "group"} -> {"SidBogus", "UidBogus", "EntData"}
            [] k \in {"data", "datavalue", "gdata"} -> {"SidOther", "UidOther", "EntData"}
            [] k = "pgroup" -> {"Pg3D", "PgMulti"}
            [] k = "choice" -> {"EmptyStr"}
            [] k = "objectmulti" -> {"UidBogus", "LEntObj"}
            [] OTHER -> {})
    ELSE ListBad(k) \cup
         CASE k \in {"object", "group"} -> common \cup IdValues \cup {"SidObj", "UidGroup", "EntGroup"}
           [] k \in {"data", "datavalue", "gdata"} -> common \cup IdValues
           [] k = "objectmulti" -> common \cup {"UidObj", "UidBogus", "EntObj", "EntForeignObj", "LUidObj", "LEntObj",
                                                "LUidObjBogus", "LEntForeign", "ListInt", "ListStr"}
           [] k = "pgroup" -> common \cup {"UidPg3D", "UidPgMulti", "UidData", "UidBogus",
                                           "Pg3D", "PgMulti", "PgOther", "EntData"}
           [] OTHER -> common \cup {"SidData", "UidData", "EntData"}

GroupParts == {[group |-> FALSE, gopt |-> FALSE, gen |-> TRUE]} \cup
              (IF VaryGroup THEN [group : {TRUE}, gopt : B, gen : B] ELSE {})
DepParts == {[dep |-> FALSE, dtype |-> "enabled", dstate |-> TRUE, dkind |-> "bool", den |-> "absent"]} \cup
            (IF VaryDep THEN [dep : {TRUE}, dtype : {"enabled", "disabled"}, dstate : B,
                              dkind : {"bool"}, den : {"absent", "on", "off"}]
                             \cup [dep : {TRUE}, dtype : {"enabled", "disabled"}, dstate : B,
                                   dkind : {"optional"}, den : {"absent"}]
             ELSE {})
ClassicCfgs ==
    {[kind |-> k, group |-> g.group, gopt |-> g.gopt, gen |-> g.gen,
      dep |-> d.dep, dtype |-> d.dtype, dstate |-> d.dstate, dkind |-> d.dkind, den |-> d.den,
      opt |-> o, en0 |-> e, devOn |-> dv] :
        k \in Kinds, g \in GroupParts, d \in DepParts, o \in B, e \in B, dv \in SUBSET Deviations}

\* InputFile(ui_json=..., validate=False); .data ; .validate = True
\* flatten (utils.py:33-47) reads the file's own enabled member; the first update_ui_values then hands the
\* enabled state of the groupOptional form to every member of its group (set_enabled utils.py:185-194,
\* pinned by ui_json_utils_test.py::test_set_enabled), so inside an optional group the loaded form carries
\* the group's state.  The rule table was inferred from the file (input_file.py:227-236): an ideal
\* validator works with the table of the loaded form.
LoadedEnabled(c) == IF c.group /\ c.gopt THEN c.gen ELSE c.en0
ClassicInit(c) == [en |-> LoadedEnabled(c),
                   stored |-> IF c.en0 THEN Promote(DefaultRaw(c.kind)) ELSE "None",
                   treq |-> IF "StaleRuleTable" \in c.devOn THEN Req(c, c.en0) ELSE Req(c, LoadedEnabled(c))]

\* update_ui_values (input_file.py:260-267) + set_enabled (utils.py:182-183): only optional forms flip
EnabledAfter(c, en, v) == IF c.opt THEN v # "None" ELSE en
ClassicAccepted(c, s, stored) ==
    LET en1 == EnabledAfter(c, s.en, stored) IN
    [en |-> en1, stored |-> stored,
     treq |-> IF "StaleRuleTable" \in c.devOn THEN s.treq ELSE Req(c, en1)]

ClassicStep(entry, v) ==
    LET t  == Table(cfg.kind, st.treq)
        pv == IF entry = "SetAll" THEN Promote(v) ELSE v                      \* data setter promotes first
        ok == /\ ~(entry = "SetAll" /\ PromoteFails(v))
              /\ RunChain(t, pv, cfg.devOn)
    IN /\ st' = IF ok /\ entry \in {"SetKey", "SetAll"} THEN ClassicAccepted(cfg, st, pv) ELSE st
       /\ last' = [act |-> entry, arg |-> v, arg2 |-> "", out |-> IF ok THEN "ok" ELSE "rejected"]

\* InputFile(ui_json=...).data with validation on: flatten (utils.py:33-47) gives None for a disabled form,
\* the data setter promotes and validates (input_file.py:113-117, :139-144)
ClassicLoad ==
    LET v  == IF cfg.en0 THEN DefaultRaw(cfg.kind) ELSE "None"
        ok == ~PromoteFails(v) /\ RunChain(Table(cfg.kind, Req(cfg, cfg.en0)), Promote(v), cfg.devOn)
    IN /\ depth = 0 /\ "Load" \in Entries
       /\ st' = st
       /\ last' = [act |-> "Load", arg |-> v, arg2 |-> "", out |-> IF ok THEN "ok" ELSE "rejected"]

\* CheckOne = InputValidation.validate("p", v) on the validator of the InputFile: only meaningful for forms
\* without an association (validate_data / set_data_value substitute the parent entity first, :295-298, :435-440)
\* Prime = before anything is asked of the object under test, ANOTHER valid ui.json with a multiSelect object
\* form / multiSelect data form is loaded in the same process (InputFile(ui_json=other).data).  Validators
\* share nothing: the object under test is unaffected (statelessness across validators, not only within one).
ClassicPrime(m) ==
    /\ depth = 0 /\ "Prime" \in Entries
    /\ st' = st
    /\ last' = [act |-> "Prime", arg |-> m, arg2 |-> "", out |-> "ok"]
\* The entry points that validate the whole dictionary (Load, SetAll, Check) also judge the dependency form
\* itself; a plain checkbox with "enabled": false is flattened to None (utils.py:40-41) and refused, so for
\* den = "off" the parameter under test is judged through the per-parameter entry points only.
EntryOK(entry) == (entry = "CheckOne" => ~IdKind(cfg.kind))
                  /\ (cfg.den = "off" => entry \in {"SetKey", "CheckOne"})
\* a configuration that lists "Prime" starts every behaviour with it: everything it exports is judged primed
ClassicNext == IF "Prime" \in Entries /\ depth = 0
               THEN \E m \in {"multiObject", "multiData"} : ClassicPrime(m)
               ELSE \/ \E entry \in Entries \ {"Load", "Prime"} : \E v \in ClassicValues(cfg.kind) :
                          EntryOK(entry) /\ ClassicStep(entry, v)
                    \/ (cfg.den # "off" /\ ClassicLoad)
\* Load validates the form as written in the file
ClassicDeclared(c, s, act, v, v2) == Accepts(c, IF act = "Load" THEN c.en0 ELSE s.en, v)
\* the property does not say in which representation an accepted identifier is kept: the stored value is
\* observed up to promotion (a uuid and the entity it names are the same stored value)
ClassicVisible(c, s) == [en |-> IF c.opt THEN s.en ELSE TRUE, stored |-> Promote(s.stored)]

\* ============================================================== one_of (classic, InputValidation object)
\* two optional, disabled string forms "a" and "b" with validations {"one_of": "g"} each
\* (validators_test.py:208-240); CheckAll = validators.validate_data({... "a": va, "b": vb})
OneOfValues == {"None", "Str", "Int"}
OneOk(v) == v \in {"None", "Str"}                          \* string form that does not require a value
OneOfDeclared(c, s, act, va, vb) == OneOk(va) /\ OneOk(vb) /\ (va # "None" \/ vb # "None")
OneOfStep(va, vb) ==
    LET popped == "OneOfPopped" \in cfg.devOn
        \* validation.py:280-300 in dictionary order a, b: pop, then validate the parameter
        hasA == "a" \in st.has
        hasB == "b" \in st.has
        okA == OneOk(va)
        okB == OneOk(vb)
        grp == (IF hasA THEN {va} ELSE {}) \cup (IF hasB THEN {vb} ELSE {})   \* one_of_validations :289-293
        okG == (~hasA /\ ~hasB) \/ (\E x \in grp : x # "None")               \* :302-303 AtLeastOneValidator
        ok == okA /\ okB /\ okG
        has1 == IF ~popped THEN st.has
                ELSE IF ~okA THEN st.has \ {"a"}        \* raised while validating a: b keeps its one_of
                ELSE {}
    IN /\ st' = [has |-> has1]
       /\ last' = [act |-> "CheckAll", arg |-> va, arg2 |-> vb, out |-> IF ok THEN "ok" ELSE "rejected"]
OneOfNext == \E va \in OneOfValues, vb \in OneOfValues : OneOfStep(va, vb)
OneOfCfgs == {[devOn |-> dv] : dv \in SUBSET Deviations}
OneOfInit(c) == [has |-> {"a", "b"}]
OneOfVisible(c, s) == [none |-> TRUE]

\* ============================================================== new API: Parameter / FormParameter / EnforcerPool
\* parameter kinds = the enforcers they declare (parameters.py:117-168, forms.py:582-737)
ParamKinds == {"String", "Integer", "Float", "Numeric", "Bool", "StringList", "Value", "TypeR", "TypeUID",
               "Workspace", "PropertyGroup", "Uu", "Two", "TypeUuid"}
\* "Two"      = {"type": str, "value": choices}   (a Parameter subclass / a pool with two enforcers,
\*              as in enforcers_test.py:103-113)
\* "TypeUuid" = {"type": str, "uuid": None}
\* "Uu"       = {"uuid": None}
TypeRule(k) ==
    CASE k = "String" -> {"Str"} [] k = "Integer" -> {"Int"} [] k = "Float" -> {"Float"}
      [] k = "Numeric" -> {"Int", "Float"} [] k = "Bool" -> {"Bool"} [] k = "StringList" -> {"List", "Str"}
      [] k = "TypeR" -> {"FloatData"} [] k = "Workspace" -> {"Workspace"} [] k = "PropertyGroup" -> {"PGroup"}
      [] k \in {"Two", "TypeUuid"} -> {"Str"}
      [] OTHER -> {}
NewTypeNames(v) ==
    TypeNames(v) \cup (CASE v \in {"EntData", "EntOther", "EntForeign"} -> {"FloatData"}
                         [] v = "EntInt" -> {"IntegerData"}
                         [] v \in {"EntObj", "EntObjB", "EntForeignObj"} -> {"Points"}
                         [] v = "EntCurve" -> {"Curve"}
                         [] OTHER -> {})
HasType(k) == TypeRule(k) # {}
HasValue(k) == k \in {"Value", "Two"}
HasUuid(k) == k \in {"Uu", "TypeUuid"}
HasTypeUid(k) == k = "TypeUID"
\* each declared rule (enforcers.py): TypeEnforcer.rule :95-97 (None is always admissible,
\* parameter_test.py:39-41,65-71), ValueEnforcer.rule :120-122, UUIDEnforcer.rule :173-179,
\* TypeUIDEnforcer.rule :144-148 (the value must be an object of one of the listed types)
TypeHolds(k, v) == v = "None" \/ NewTypeNames(v) \cap TypeRule(k) # {}
ValueHolds(k, v) == InChoiceList(v)
UuidHolds(k, v) == v = "None" \/ Class(v) = "Uuid" \/ (Class(v) = "Str" /\ Ref(v) # "none")
TypeUidHolds(k, v) == "Points" \in NewTypeNames(v)
AcceptsNew(k, v) ==
    /\ HasType(k) => TypeHolds(k, v)
    /\ HasValue(k) => ValueHolds(k, v)
    /\ HasUuid(k) => UuidHolds(k, v)
    /\ HasTypeUid(k) => TypeUidHolds(k, v)
\* number of BaseValidationErrors captured by one pass over the enforcers (enforcers.py:339-349)
Failures(k, v) ==
    (IF HasType(k) /\ ~TypeHolds(k, v) THEN 1 ELSE 0) + (IF HasValue(k) /\ ~ValueHolds(k, v) THEN 1 ELSE 0)
    + (IF HasUuid(k) /\ ~UuidHolds(k, v) THEN 1 ELSE 0)
\* TypeUIDEnforcer raises AttributeError / TypeUIDValidationError: the only enforcer of its pool
Crashes(k, v) == HasTypeUid(k) /\ ~TypeUidHolds(k, v)

NewValues(k) ==
    IF ValueSet = "all"
    THEN {"None", "True", "Int", "Float", "Str", "Choice", "SidData", "UidData", "EntData", "EntInt",
          "EntObj", "EntCurve", "Ws", "Pg3D"} \cup (IF HasValue(k) THEN {} ELSE {"ListStr"})
    ELSE CASE k \in {"Two", "Value"} -> {"None", "Int", "Str", "Choice"}
           [] k \in {"TypeUuid", "Uu"} -> {"None", "Int", "Str", "SidData"}
           [] k = "TypeUID" -> {"Str", "EntObj", "EntCurve"}
           [] k = "TypeR" -> {"None", "Str", "EntData", "EntInt"}
           [] k = "Integer" -> {"None", "True", "Int", "Float"}
           [] OTHER -> {"None", "Int", "Str", "Float"}
\* which wrappers exist for a kind: a Parameter (sub)class, a FormParameter whose value is that parameter
\* (forms.py:582-737), a bare EnforcerPool
WrapOK(k, w) ==
    CASE w = "parameter" -> TRUE
      [] w = "form" -> k \in {"String", "Integer", "Float", "Bool", "Value", "TypeUID", "TypeR"}
      [] w = "pool" -> k \in {"String", "Value", "Uu", "Two", "TypeUuid"}
ParamCfgs == {[kind |-> k, wrap |-> w, devOn |-> dv] :
                 k \in Kinds, w \in Entries, dv \in SUBSET Deviations}
ParamCfgsOK == {c \in ParamCfgs : WrapOK(c.kind, c.wrap)}
ParamInit(c) == [stored |-> IF c.kind = "Bool" /\ c.wrap # "pool" THEN "False" ELSE "None", stale |-> FALSE]

\* one pass of EnforcerPool.enforce(value) (enforcers.py:336-356) on a pool that may hold stale errors
PoolPass(k, v, stale, dv) ==
    LET n == (IF stale THEN 2 ELSE 0) + Failures(k, v)
        crash == Crashes(k, v)
    IN [ok |-> ~crash /\ n = 0,
        \* :353-356 more than one error: aggregate raised, list kept ; exactly one: popped
        stale |-> IF "PoolKeepsErrors" \in dv THEN n > 1 ELSE FALSE]
ParamAssign(v) ==                                           \* Parameter.value setter parameters.py:61-64
    LET r == PoolPass(cfg.kind, v, st.stale, cfg.devOn)
        keep == IF "StoreBeforeValidate" \in cfg.devOn THEN v ELSE IF r.ok THEN v ELSE st.stored
    IN /\ cfg.wrap # "pool"
       /\ st' = [stored |-> keep, stale |-> r.stale]
       /\ last' = [act |-> "Assign", arg |-> v, arg2 |-> "", out |-> IF r.ok THEN "ok" ELSE "rejected"]
ParamValidate ==                                            \* Parameter.validate() parameters.py:66-68
    LET r == PoolPass(cfg.kind, st.stored, st.stale, cfg.devOn)
    IN /\ cfg.wrap = "parameter"
       /\ st' = [st EXCEPT !.stale = r.stale]
       /\ last' = [act |-> "Validate", arg |-> "", arg2 |-> "", out |-> IF r.ok THEN "ok" ELSE "rejected"]
ParamEnforce(v) ==                                          \* EnforcerPool.enforce(v)
    LET r == PoolPass(cfg.kind, v, st.stale, cfg.devOn)
    IN /\ cfg.wrap = "pool"
       /\ st' = [st EXCEPT !.stale = r.stale]
       /\ last' = [act |-> "Enforce", arg |-> v, arg2 |-> "", out |-> IF r.ok THEN "ok" ELSE "rejected"]
ParamNext == \/ \E v \in NewValues(cfg.kind) : ParamAssign(v) \/ ParamEnforce(v)
             \/ ParamValidate
ParamDeclared(c, s, act, v, v2) == AcceptsNew(c.kind, IF act = "Validate" THEN s.stored ELSE v)
ParamVisible(c, s) == [stored |-> s.stored]

\* ============================================================== new API: members of one FormParameter
\* StringFormParameter("p"): members label, tooltip (StringParameter), main (BoolParameter) are assigned through
\* FormValueAccess (descriptors.py:47-63) or register() (forms.py:495-516); a member is part of form() once it
\* was assigned.  ValidateForm = FormParameter.validate() (forms.py:518-520): required_form_members
\* {label, value} (forms.py:414).  A rejected member assignment leaves form() and its verdict unchanged.
FormMembers == {"label", "tooltip", "main"}
MemberValues == {"None", "Str", "Int", "True"}
MemberHolds(m, v) == v = "None" \/ (IF m = "main" THEN Class(v) = "Bool" ELSE Class(v) = "Str")
FormDeclared(c, s, act, v, v2) ==
    CASE act \in {"SetMember", "RegisterMember"} -> MemberHolds(v, v2)
      [] act = "Assign" -> v = "None" \/ Class(v) = "Str"
      [] act = "ValidateForm" -> s.label # "absent"          \* "value" is always a member of form()
FormSet(act, m, v) ==
    LET ok == MemberHolds(m, v) IN
    /\ st' = IF ok THEN [st EXCEPT ![m] = v] ELSE st
    /\ last' = [act |-> act, arg |-> m, arg2 |-> v, out |-> IF ok THEN "ok" ELSE "rejected"]
FormAssign(v) ==
    LET ok == v = "None" \/ Class(v) = "Str" IN
    /\ st' = IF ok THEN [st EXCEPT !.stored = v] ELSE st
    /\ last' = [act |-> "Assign", arg |-> v, arg2 |-> "", out |-> IF ok THEN "ok" ELSE "rejected"]
FormValidate ==
    /\ st' = st
    /\ last' = [act |-> "ValidateForm", arg |-> "", arg2 |-> "",
                out |-> IF st.label # "absent" THEN "ok" ELSE "rejected"]
FormNext == \/ \E m \in FormMembers, v \in MemberValues : FormSet("SetMember", m, v)
            \/ \E v \in MemberValues : FormSet("RegisterMember", "label", v)
            \/ \E v \in {"Str", "Int"} : FormAssign(v)
            \/ FormValidate
FormCfgs == {[kind |-> "StringForm", devOn |-> dv] : dv \in SUBSET Deviations}
FormInit(c) == [label |-> "absent", tooltip |-> "absent", main |-> "absent", stored |-> "None"]
FormVisible(c, s) == s

\* ============================================================== new API: UIJson.validate (ui_json.py:122-126)
\* parameters "obj" (ObjectFormParameter, Points) and "dat" (DataFormParameter, parent "obj"), both set at
\* construction so that the pool holds required_workspace_object {obj, dat} and required_object_data
\* {(obj, dat)} (forms.py:690-697, :739-752).  SetObj / SetDat = attribute assignment (ui_json.py:142-146).
UjObjs == {"EntObj", "EntObjB", "EntForeignObj"}
UjDats == {"EntData", "EntOther", "EntForeign"}
ChildOf(d, o) == <<d, o>> \in {<<"EntData", "EntObj">>, <<"EntOther", "EntObjB">>, <<"EntForeign", "EntForeignObj">>}
\* membership of the workspace and of the referenced parent object
UjDeclared(c, s, act, v, v2) ==
    InWorkspace(Ref(s.obj)) /\ InWorkspace(Ref(s.dat)) /\ ChildOf(s.dat, s.obj)
UjFailures(s) ==
    (IF InWorkspace(Ref(s.obj)) /\ InWorkspace(Ref(s.dat)) THEN 0 ELSE 1)     \* enforcers.py:229-235
    + (IF ChildOf(s.dat, s.obj) THEN 0 ELSE 1)                                \* enforcers.py:255-266
UjSet(which, v) ==
    /\ st' = IF which = "SetObj" THEN [st EXCEPT !.obj = v] ELSE [st EXCEPT !.dat = v]
    /\ last' = [act |-> which, arg |-> v, arg2 |-> "", out |-> "ok"]
UjValidate ==
    LET n == (IF st.stale THEN 2 ELSE 0) + UjFailures(st)
    IN /\ st' = [st EXCEPT !.stale = IF "PoolKeepsErrors" \in cfg.devOn THEN n > 1 ELSE FALSE]
       /\ last' = [act |-> "ValidateAll", arg |-> "", arg2 |-> "", out |-> IF n = 0 THEN "ok" ELSE "rejected"]
\* UIJson.update({name: value}) assigns and then recruits a fresh pool (ui_json.py:88-97)
UjUpdate(which, v) ==
    /\ st' = IF which = "UpdateObj" THEN [st EXCEPT !.obj = v, !.stale = FALSE] ELSE [st EXCEPT !.dat = v, !.stale = FALSE]
    /\ last' = [act |-> which, arg |-> v, arg2 |-> "", out |-> "ok"]
UjNext == \/ \E v \in UjObjs : UjSet("SetObj", v) \/ UjUpdate("UpdateObj", v)
          \/ \E v \in UjDats : UjSet("SetDat", v) \/ UjUpdate("UpdateDat", v)
          \/ UjValidate
UjCfgs == {[devOn |-> dv] : dv \in SUBSET Deviations}
UjInit(c) == [obj |-> "EntObj", dat |-> "EntData", stale |-> FALSE]
UjVisible(c, s) == [obj |-> s.obj, dat |-> s.dat]

\* ============================================================== behaviour
Cfgs == CASE Target = "classic" -> ClassicCfgs [] Target = "oneof" -> OneOfCfgs
          [] Target = "param" -> ParamCfgsOK [] Target = "uijson" -> UjCfgs [] Target = "form" -> FormCfgs
InitSt(c) == CASE Target = "classic" -> ClassicInit(c) [] Target = "oneof" -> OneOfInit(c)
               [] Target = "param" -> ParamInit(c) [] Target = "uijson" -> UjInit(c) [] Target = "form" -> FormInit(c)
Init == /\ cfg \in Cfgs
        /\ st = InitSt(cfg)
        /\ depth = 0
        /\ last = [act |-> "init", arg |-> "", arg2 |-> "", out |-> ""]
Next == /\ depth < MaxDepth
        /\ depth' = depth + 1
        /\ UNCHANGED cfg
        /\ CASE Target = "classic" -> ClassicNext [] Target = "oneof" -> OneOfNext
             [] Target = "param" -> ParamNext [] Target = "uijson" -> UjNext [] Target = "form" -> FormNext
Spec == Init /\ [][Next]_vars

\* ============================================================== properties (C15)
Declared(c, s, act, v, v2) ==
    CASE Target = "classic" -> ClassicDeclared(c, s, act, v, v2) [] Target = "oneof" -> OneOfDeclared(c, s, act, v, v2)
      [] Target = "param" -> ParamDeclared(c, s, act, v, v2) [] Target = "uijson" -> UjDeclared(c, s, act, v, v2)
      [] Target = "form" -> FormDeclared(c, s, act, v, v2)
Visible(c, s) ==
    CASE Target = "classic" -> ClassicVisible(c, s) [] Target = "oneof" -> OneOfVisible(c, s)
      [] Target = "param" -> ParamVisible(c, s) [] Target = "uijson" -> UjVisible(c, s) [] Target = "form" -> FormVisible(c, s)
\* actions whose answer is a verdict on a value (attribute assignment on a UIJson is not)
IsVerdict(l) == l.act \notin {"SetObj", "SetDat", "UpdateObj", "UpdateDat", "Prime"}
VerdictStep == IsVerdict(last') => ((last'.out = "ok") <=> Declared(cfg, st, last'.act, last'.arg, last'.arg2))
RejectStep == (last'.out # "ok") => Visible(cfg, st') = Visible(cfg, st)
\* the verdict is the declared one for the current form and value, whatever happened before
VerdictIsAccepts == [][cfg.devOn = {} => VerdictStep]_vars
\* a rejected call leaves the stored data and the form unchanged
RejectedLeavesUnchanged == [][cfg.devOn = {} => RejectStep]_vars
\* the same without the guard: must FAIL as soon as a deviation is switched on (negative controls)
VerdictIsAcceptsStrict == [][VerdictStep]_vars
RejectedLeavesUnchangedStrict == [][RejectStep]_vars

\* sentences of the documentation as laws of the hierarchy, and the code's branch structure against it
HierarchyLaws ==
    Target = "classic" =>
      \A en \in B :
        /\ (cfg.group /\ cfg.gopt /\ ~cfg.gen) => ~Req(cfg, en)                    \* disabled group: nothing required
        /\ (cfg.dep /\ ~DependencyRequires(cfg.dtype, cfg.dstate)) => ~Req(cfg, en) \* dependency does not require
        /\ (~cfg.group /\ ~cfg.dep /\ ~cfg.opt) => Req(cfg, en)                    \* plain form: required
        /\ (~cfg.opt /\ Req(cfg, en)) => Req(cfg, ~en)                             \* enabled only matters if optional
        /\ (cfg.opt /\ ~en) => ~Req(cfg, en)                                       \* optional and disabled: never required
CodeIsHierarchy == Target = "classic" => \A en \in B : CodeRequiresValue(cfg, en) = Req(cfg, en)
\* the table the ideal machine works with is always the table of the current form
TableIsCurrent == (Target = "classic" /\ cfg.devOn = {}) => st.treq = Req(cfg, st.en)

\* ============================================================== export
ExportState == PrintT(<<"ST", TLCFP(vw), TLCFP(<<vw, 1>>),
                        ToJson([cfg |-> cfg, st |-> st, vis |-> Visible(cfg, st), depth |-> depth])>>)
ExportTrans == PrintT(<<"TR", TLCFP(vw), TLCFP(<<vw, 1>>), TLCFP(vw'), TLCFP(<<vw', 1>>), ToJson(last')>>)
\* function-style export (depth 1): one line per form x value x entry point x deviation choice
ExportCase == PrintT(<<"CASE", ToJson([cfg |-> cfg, pre |-> Visible(cfg, st), act |-> last'.act,
                                       arg |-> last'.arg, out |-> last'.out, post |-> Visible(cfg, st'),
                                       req |-> IF Target = "classic" THEN Req(cfg, st.en) ELSE FALSE])>>)
=============================================================================
