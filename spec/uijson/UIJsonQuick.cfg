\* (b) new API: one UIJson with an object and a data parameter, sequences of <= 4 calls
SPECIFICATION Spec
CONSTANTS
  Target = "uijson"
  Kinds = {}
  VaryGroup = FALSE
  VaryDep = FALSE
  ValueSet = "machine"
  Entries = {}
  MaxDepth = 4
  Deviations = {"PoolKeepsErrors"}
PROPERTY VerdictIsAccepts
PROPERTY RejectedLeavesUnchanged
VIEW vw
INVARIANT ExportState
ACTION_CONSTRAINT ExportTrans
CHECK_DEADLOCK FALSE
