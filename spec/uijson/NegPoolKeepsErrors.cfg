\* negative control: a pool that keeps its errors breaks VerdictIsAccepts
SPECIFICATION Spec
CONSTANTS
  Target = "param"
  Kinds = {"Two"}
  VaryGroup = FALSE
  VaryDep = FALSE
  ValueSet = "machine"
  Entries = {"pool"}
  MaxDepth = 2
  Deviations = {"PoolKeepsErrors"}
PROPERTY VerdictIsAcceptsStrict
CHECK_DEADLOCK FALSE
