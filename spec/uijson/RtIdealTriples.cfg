\* C14 ideal specification (no deviation): every C14 invariant must hold
SPECIFICATION Spec
CONSTANTS
  N = 3
  Catalogue = "tiny"
  Relations = {"none", "parent", "dep", "group", "gd3"}
  MaxSet = 0
  MaxWrite = 1
  Validates = {FALSE}
  SetClass = "none"
  MaxEdit = 0
  MaxAssign = 0
  UpdEnabled = {TRUE}
  Deviations = {}
VIEW vw
INVARIANT NoViolation
INVARIANT PromoteDemote
INVARIANT TypeOK
PROPERTY WriteKeepsData
CHECK_DEADLOCK FALSE
