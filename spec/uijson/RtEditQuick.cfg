\* C14 as-built specification, state graph exported for replay
SPECIFICATION Spec
CONSTANTS
  N = 1
  Catalogue = "small"
  Relations = {"none"}
  MaxSet = 0
  MaxWrite = 1
  Validates = {FALSE, TRUE}
  SetClass = "none"
  MaxEdit = 1
  MaxAssign = 1
  UpdEnabled = {TRUE}
  Deviations = {"EmptyStrAsNone", "InfTextAsFloat", "UuidTextAsId", "NoneMemberAsText", "IsValueFlipOnNone", "FileFormRejectsWorkspace", "GroupPropagation"}
VIEW vw
INVARIANT Explained
INVARIANT PromoteDemote
INVARIANT TypeOK
INVARIANT ExportState
ACTION_CONSTRAINT ExportTrans
PROPERTY WriteKeepsData
CHECK_DEADLOCK FALSE
