\* negative control: storing before validating breaks RejectedLeavesUnchanged
SPECIFICATION Spec
CONSTANTS
  Target = "param"
  Kinds = {"String"}
  VaryGroup = FALSE
  VaryDep = FALSE
  ValueSet = "machine"
  Entries = {"parameter"}
  MaxDepth = 1
  Deviations = {"StoreBeforeValidate"}
PROPERTY RejectedLeavesUnchangedStrict
CHECK_DEADLOCK FALSE
