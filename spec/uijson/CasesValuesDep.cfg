\* (a) thorough: every value kind under every dependency switch combination
SPECIFICATION Spec
CONSTANTS
  Target = "classic"
  Kinds = {"string", "integer", "float", "bool", "choice", "file", "object", "group", "data", "pgroup", "datavalue", "gdata", "objectmulti"}
  VaryGroup = FALSE
  VaryDep = TRUE
  ValueSet = "all"
  Entries = {"SetKey", "SetAll", "Check"}
  MaxDepth = 1
  Deviations = {"StrIdSkipsMembership", "PgTypeNeedsEntity", "MultiItemsUnchecked"}
PROPERTY VerdictIsAccepts
PROPERTY RejectedLeavesUnchanged
INVARIANT HierarchyLaws
INVARIANT CodeIsHierarchy
INVARIANT TableIsCurrent
ACTION_CONSTRAINT ExportCase
CHECK_DEADLOCK FALSE
