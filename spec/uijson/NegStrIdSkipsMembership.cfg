\* negative control: uuid text that skips the membership check breaks VerdictIsAccepts
SPECIFICATION Spec
CONSTANTS
  Target = "classic"
  Kinds = {"data"}
  VaryGroup = FALSE
  VaryDep = FALSE
  ValueSet = "all"
  Entries = {"SetKey"}
  MaxDepth = 1
  Deviations = {"StrIdSkipsMembership"}
PROPERTY VerdictIsAcceptsStrict
CHECK_DEADLOCK FALSE
