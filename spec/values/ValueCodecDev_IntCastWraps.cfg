SPECIFICATION Spec
CONSTANTS
  Families = {"Numeric"}
  MaxLen = 1
  PairOps = {"add", "infer"}
  AllPairs = FALSE
  Deviations = {"IntCastWraps"}
INVARIANT UnrepresentableRejected
CHECK_DEADLOCK FALSE
