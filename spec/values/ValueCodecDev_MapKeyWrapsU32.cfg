SPECIFICATION Spec
CONSTANTS
  Families = {"Map"}
  MaxLen = 1
  PairOps = {"add", "infer"}
  AllPairs = FALSE
  Deviations = {"MapKeyWrapsU32"}
INVARIANT UnrepresentableRejected
CHECK_DEADLOCK FALSE
