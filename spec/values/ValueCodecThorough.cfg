SPECIFICATION Spec
CONSTANTS
  Families = {"Numeric", "Text", "Json", "Blob", "Map", "Host", "Concat"}
  MaxLen = 2
  PairOps = {"add", "set", "infer"}
  AllPairs = TRUE
  Deviations = {}
INVARIANT RoundTrip
INVARIANT CanonIsIdentityButGaps
INVARIANT UnrepresentableRejected
INVARIANT UnsupportedTypeRejected
INVARIANT NoAlteredCode
INVARIANT NaNIsFloatNDV
INVARIANT IntGapIsIntNDV
INVARIANT BooleansAreBits
INVARIANT KeyZeroIsUnknown
INVARIANT LengthRule
INVARIANT TooLongRejected
INVARIANT ConcatGapsStayGaps
INVARIANT MapWritten
INVARIANT ExportCase
PROPERTY RequestUnchanged
CHECK_DEADLOCK FALSE
