SPECIFICATION Spec
CONSTANTS
  Families = {"Numeric"}
  MaxLen = 1
  PairOps = {"add", "infer"}
  AllPairs = FALSE
  Deviations = {"FloatCastUnchecked"}
INVARIANT UnrepresentableRejected
CHECK_DEADLOCK FALSE
