----------------------------- MODULE ValueCodec -----------------------------
(* C08 - values survive storage unchanged; gaps use the format's no-data codes.                  *)
(*                                                                                                *)
(* TLA+ cannot quantify over IEEE-754 or Unicode, so this module specifies the *decision          *)
(* structure* of the codec over finite value classes.  One behaviour = choose a write request     *)
(* (Init: family, data kind, operation, source dtype/form, a sequence of <= MaxLen element        *)
(* classes, length relation to the geometry), then the single action Store computes what the      *)
(* codec must do with it: verdict, the stored codes, the live value and the value read back       *)
(* after re-opening the file.  A "code" is either the name of the element's own class ("this      *)
(* very value, exactly, in the stored type") or a sentinel of the format (FNDV, INDV, B0, B1).    *)
(* The harness (harness/checks/C08.py) instantiates every class with concrete representatives     *)
(* and replays each exported CASE through add_data / values setter / value_map / add_file /       *)
(* add_comment / metadata on a Points object of a real file.                                      *)
(*                                                                                                *)
(* Deviations = {}  : the property (ideal codec).                                                 *)
(* Deviations # {}  : named as-built behaviours of geoh5py that accept an unrepresentable value   *)
(*                    and alter it; they violate the invariants below (negative control) and      *)
(*                    are exported per element in `devs` so that the harness can recognise        *)
(*                    exactly that answer and nothing else.                                       *)
EXTENDS Naturals, Sequences, FiniteSets, TLC, Json

CONSTANTS
    Families,    \* subset of {"Numeric", "Text", "Json", "Blob", "Map", "Host", "Concat"}
    MaxLen,      \* 1 or 2 element classes per array
    AllPairs,    \* TRUE: every pair of classes; FALSE: pairs a=b or with an anchor ("good") class
    PairOps,     \* numeric operations for which two-class arrays are enumerated (one-class arrays: every operation)
    Deviations   \* {} or a subset of AllDeviations

VARIABLES case, out
vars == <<case, out>>

Reject == "Reject"
AllDeviations == {"IntCastWraps", "FloatCastUnchecked", "BytesNotValidated",
                  "MetadataUuidLikeText", "MapKeyWrapsU32", "TextLengthUnchecked"}

\* =====================================================================================
\* Numeric family : FloatData, IntegerData, BooleanData, ReferencedData
\*   numeric_data.py:100-129 (format_values: NaN -> nan_value, format_length 74-98, format_type)
\*   float_data.py:32-42, integer_data.py:28-38, boolean_data.py:39-51
\*   h5_writer.py:639-659 (int8/int32 casts 642/645, NaN -> ndv 651), h5_reader.py:466-494 (FLOAT_NDV -> NaN 488-489)
\* =====================================================================================
FloatDt == {"float16", "float32", "float64"}
SIntDt  == {"int8", "int16", "int32", "int64"}
UIntDt  == {"uint8", "uint16", "uint32", "uint64"}
IntDt   == SIntDt \cup UIntDt
NumDt   == FloatDt \cup IntDt \cup {"bool"}
NonNumDt == {"U", "S", "object", "list"}

Small   == {"Zero", "One", "Two", "IntSmall"}
FSpec   == {"NaN", "PosInf", "NegInf", "Subnormal", "Frac"}

\* which element classes have members in which source dtype
Inhab(dt) ==
    CASE dt \in {"int8", "int16"}   -> Small \cup {"NegSmall"}
      [] dt = "int32"               -> Small \cup {"NegSmall", "Int32Max", "Int32MinPlus1", "IntNDV"}
      [] dt = "int64"               -> Small \cup {"NegSmall", "Int32Max", "Int32MinPlus1", "IntNDV",
                                                   "Int32Over", "Int32Under", "IntHuge"}
      [] dt \in {"uint8", "uint16"} -> Small
      [] dt = "uint32"              -> Small \cup {"Int32Max", "Int32Over"}
      [] dt = "uint64"              -> Small \cup {"Int32Max", "Int32Over", "IntHuge"}
      [] dt = "float16"             -> Small \cup FSpec \cup {"NegSmall"}
      \* 2^31-1 and -(2^31-1) are not float32 values; the float32 nearest to FLOAT_NDV is 2^-126 = NearNDV
      [] dt = "float32"             -> Small \cup FSpec \cup {"NegSmall", "IntNDV", "Int32Over", "Int32Under", "NearNDV"}
      [] dt = "float64"             -> Small \cup FSpec \cup {"NegSmall", "IntNDV", "Int32Over", "Int32Under", "NearNDV",
                                                             "Int32Max", "Int32MinPlus1", "FloatNDV"}
      [] dt = "bool"                -> {"Zero", "One"}
      [] dt \in {"U", "S"}          -> {"NumText"}
      [] dt \in {"object", "list"}  -> {"One", "Frac"}
      [] OTHER                      -> {}

NumKinds == {"Float", "Integer", "Boolean", "Referenced"}
IntLike(kind) == kind \in {"Integer", "Referenced"}      \* referenced_data.py:25 ReferencedData(IntegerData)

\* data_type.py:302-352 validate_data_type: kind chosen from the dtype when no type is given
InferKind(src) ==
    CASE src \in FloatDt -> "Float"
      [] src \in IntDt -> "Integer"
      [] src = "bool" -> "Boolean"
      [] src \in {"U", "S", "str"} -> "Text"
      [] OTHER -> "None"

\* Representable(kind, dtype, cls): the stored type of `kind` holds every member of cls (coming from dtype) exactly.
\*   Float    -> float64 : everything except integers that float64 cannot hold (IntHuge: |v| > 2^53, odd)
\*   Integer  -> int32   : integral values inside the 32-bit range; NaN is the gap marker
\*   Boolean  -> 0/1     : NaN is the gap marker (boolean_data.py:57-61 ndv = 0)
RepNum(kind, dt, cls) ==
    /\ dt \in NumDt
    /\ CASE kind = "Float"   -> cls # "IntHuge"
         [] IntLike(kind)    -> cls \in Small \cup {"NegSmall", "Int32Max", "Int32MinPlus1", "IntNDV", "NaN"}
         [] kind = "Boolean" -> cls \in {"Zero", "One", "NaN"}
         [] OTHER            -> FALSE

\* the value the caller means (what must be read back): gaps and the one documented exception
CanonNum(kind, cls) ==
    CASE kind = "Float"   /\ cls = "FloatNDV" -> "NaN"       \* documented exception: equals the sentinel
      [] IntLike(kind)    /\ cls = "NaN"      -> "IntNDV"    \* integer gap = -2147483648
      [] kind = "Boolean" /\ cls = "NaN"      -> "Zero"      \* boolean gap = 0
      [] OTHER -> cls

CodeNum(kind, cls) ==
    CASE kind = "Float"   /\ cls \in {"NaN", "FloatNDV"} -> "FNDV"   \* h5_writer.py:651 out_values[isnan] = ndv
      [] IntLike(kind)    /\ cls \in {"NaN", "IntNDV"}   -> "INDV"   \* numeric_data.py:121, integer_data.py:44-48
      [] kind = "Boolean" /\ cls \in {"NaN", "Zero"}     -> "B0"     \* h5_writer.py:642 astype(int8)
      [] kind = "Boolean" /\ cls = "One"                 -> "B1"
      [] OTHER -> cls

\* as built: integer_data.py:38 `values.astype(np.int32)` has no range check.  Integer sources wrap modulo 2^32;
\* float sources take the C conversion's out-of-range value.  A *shorter* uint64 array is a float source too:
\* numeric_data.py:85 `np.ones(n, dtype=uint64) * -2147483648` promotes the padded vector to float64.
ViaFloat(dt, lenrel) == dt \in FloatDt \/ (dt = "uint64" /\ lenrel = "shorter")
DevNum(kind, dt, cls, lenrel) ==
    IF IntLike(kind) /\ dt \in IntDt /\ ~ViaFloat(dt, lenrel) /\ cls \in {"Int32Over", "Int32Under", "IntHuge"}
    THEN "IntCastWraps"
    ELSE IF IntLike(kind) /\ ViaFloat(dt, lenrel) /\ cls \in {"PosInf", "NegInf", "Int32Over", "Int32Under", "IntHuge"}
         THEN "FloatCastUnchecked"
    ELSE ""
DevCode(dev) ==
    CASE dev = "IntCastWraps" -> "Wrap32"            \* value mod 2^32 as int32
      [] dev = "FloatCastUnchecked" -> "CCast"       \* C float->int conversion out of range (INT_MIN on x86-64)
      [] dev = "BytesNotValidated" -> "RawBytes"
      [] dev = "MapKeyWrapsU32" -> "WrapU32"
      [] OTHER -> "None"

EncNum(kind, dt, cls, lenrel, devs) ==
    IF RepNum(kind, dt, cls) THEN CodeNum(kind, cls)
    ELSE IF DevNum(kind, dt, cls, lenrel) \in devs THEN DevCode(DevNum(kind, dt, cls, lenrel))
    ELSE Reject

\* Decode is a function of the data kind and the stored code only (devs: reader-side deviations)
DecodeD(kind, code, devs) ==
    CASE code = "FNDV" -> "NaN"                       \* h5_reader.py:488-489
      [] code = "INDV" -> "IntNDV"
      [] code = "B0" -> "Zero"
      [] code = "B1" -> "One"
      [] code \in {"Wrap32", "CCast", "WrapU32"} -> "Altered"
      [] code = "RawBytes" -> "Unreadable"            \* h5_reader.py:483 as_str_if_utf8_bytes raises
      \* as built: h5_reader.py:289-294 str2uuid on every metadata leaf of depth <= 2
      [] kind = "Metadata" /\ code = "LooksLikeUuid" /\ "MetadataUuidLikeText" \in devs -> "AsUuid"
      [] OTHER -> code
Decode(kind, code) == DecodeD(kind, code, Deviations)

PadCode(kind) == CASE kind = "Float" -> "FNDV" [] IntLike(kind) -> "INDV" [] OTHER -> "B0"
LiveNum(kind, cls) == IF kind = "Float" THEN cls ELSE Decode(kind, CodeNum(kind, cls))
StoredType(kind) ==
    CASE kind = "Float" -> "float" [] IntLike(kind) -> "int32" [] kind = "Boolean" -> "int8"
      [] kind \in {"Text", "Comments", "Metadata"} -> "utf8" [] kind = "Filename" -> "blob"
      [] kind = "ConcatFloat" -> "float"
      [] kind = "ValueMap" -> "u4+utf8" [] OTHER -> "none"

\* the source dtypes the code converts.  Refusing a representable value is allowed by C08 ("source-refused",
\* checked leniently: if a later version accepts, the round trip must hold).
\*   Float <- integer arrays: numeric_data.py:121 `values[np.isnan(values)] = nan` raises on integer arrays;
\*   Float <- bool: float_data.py:38 np.issubdtype(bool, np.number) is False - except for a shorter array, which
\*   numeric_data.py:85 `np.ones(n, dtype=bool) * nan` has already turned into float64
ConvNum(kind, dt, lenrel) ==
    dt \in NumDt /\ (kind = "Float" => (dt \in FloatDt \/ (dt = "bool" /\ lenrel = "shorter")))

\* =====================================================================================
\* Host cases (family "Numeric" with a host): the length rule is a statement about *the geometry the data hangs on*
\*   (data.py:151-168 n_values: VERTEX/DEPTH -> parent.n_vertices, CELL -> parent.n_cells, per object class:
\*   points.py, curve.py / cell_object.py, surface.py, grid2d.py, block_model.py, octree.py:171-177) and about the
\*   session: the object may have been created in this session or loaded from a re-opened file whose geometry
\*   arrays have not been touched yet (lazy attributes).  aux = <<host, session>>.
\* =====================================================================================
Hosts == {"Points.VERTEX", "Curve.VERTEX", "Curve.CELL", "Surface.CELL", "Grid2D.CELL", "BlockModel.CELL", "Octree.CELL"}
Sessions == {"creating", "reopened"}

\* =====================================================================================
\* Concat family : float data of drillholes held in a DrillholeGroup ("concatenated" storage: one float32 channel
\*   per data name shared by all the holes, sliced by an index table).
\*   concatenator.py (data / index, update_array_attribute), concatenated data.py, h5_writer.py:262-300
\*   update_concatenated_field (astype(float32), NaN -> FLOAT_NDV), concatenator.py fetch_values (FLOAT_NDV -> NaN).
\*   A request = hole B's values + a scenario: what happens to the *other* holes of the channel between the write and
\*   the first read of B in a session.  The gaps of B must be NaN in every session; the stored precision is float32,
\*   so the documented exception is the float32 sentinel 2^-126 (class F32NDV).  Source values are float32 numbers
\*   (held in float32 or float64 arrays); rounding of other float64 values by the 32-bit storage is not judged.
\* =====================================================================================
ConcatOps == {"write_read", "reopen_read", "reopen_remove_other", "reopen_append_other", "reopen_overwrite_other",
              "reopen_remove_hole"}
ConcatClasses == {"NaN", "Zero", "One", "Frac", "Subnormal", "PosInf", "NegInf", "F32NDV", "NearNDV32"}
ConcatGap(cls) == cls \in {"NaN", "F32NDV"}

\* =====================================================================================
\* Text family : TextData.  text_data.py:59-77 (setter), h5_writer.py:630-648, h5_reader.py:481-485
\* =====================================================================================
TextForms  == {"str", "bytes", "U", "S", "object", "list", "int64"}
ArrayForms == {"U", "S", "object", "list", "int64"}
StrClasses == {"Ascii", "Latin1", "BMP", "Astral", "Empty", "LooksLikeUuid", "NumLike", "EmbeddedNul", "Surrogate"}
ByteClasses == (StrClasses \ {"Surrogate"}) \cup {"NonUtf8"}
InhabT(form) ==
    CASE form \in {"str", "U", "object", "list"} -> StrClasses
      [] form \in {"bytes", "S"} -> ByteClasses
      [] OTHER -> {"IntSmall"}
TypedText(form) == form \in {"str", "bytes", "U", "S", "object"}
\* UTF-8 holds every Unicode scalar value; a lone surrogate and non-UTF-8 bytes are not text;
\* HDF5 variable-length strings end at the first NUL (fixed-length 'S' arrays keep it).
RepText(form, cls) ==
    /\ TypedText(form)
    /\ cls \notin {"Surrogate", "NonUtf8"}
    /\ (cls = "EmbeddedNul" => form = "S")
ConvText(op, form) == IF op = "infer" THEN form \in {"str", "U", "S"}      \* data_type.py:332-337
                      ELSE TypedText(form)
DevText(form, cls) == IF form = "S" /\ cls = "NonUtf8" THEN "BytesNotValidated" ELSE ""   \* h5_writer.py:647
EncText(form, cls, devs) ==
    IF RepText(form, cls) THEN cls
    ELSE IF DevText(form, cls) \in devs /\ DevText(form, cls) # "" THEN "RawBytes" ELSE Reject

\* =====================================================================================
\* Json family : CommentsData (text_data.py:79-128) and Entity.metadata (entity.py:218-242,
\*   h5_writer.py:610-626 json.dumps, h5_reader.py:260-296 json.loads + str2uuid)
\* =====================================================================================
JsonStr == StrClasses \cup {"Quote"}
CommentClasses == JsonStr \cup {"Bytes", "IntSmall"}
MetaClasses == JsonStr \cup {"IntSmall", "IntHuge", "Frac", "NaN", "PosInf", "NegInf", "Uuid", "Bytes", "NpInt"}
TypedJson(cls) == cls # "Bytes"
RepJson(cls) == TypedJson(cls)                        \* JSON text (ASCII-escaped) holds all of these
ConvJson(cls) == cls # "NpInt"                        \* json.dumps refuses numpy integers

\* =====================================================================================
\* Blob family : FilenameData.  filename_data.py:78-104, entity_container.py:54-94, h5_writer.py:809-837
\* =====================================================================================
BlobClasses == {"BlobText", "BlobBinary", "BlobTrailingNul", "BlobLarge", "BlobEmpty", "StrNotBytes", "ByteArray"}
NameClasses == {"Ascii", "Latin1", "BMP", "Astral"}
TypedBlob(cls) == cls \notin {"StrNotBytes", "ByteArray"}
ConvBlob(cls) == cls # "BlobEmpty"                    \* h5py cannot create a zero-size opaque dataset

\* =====================================================================================
\* Map family : ReferenceValueMap.  reference_value_map.py:51-88, h5_writer.py:451-482, h5_reader.py:419-437
\* =====================================================================================
KeyClasses == {"Key0", "Key1", "KeySmall", "KeyMaxU32", "KeyOverU32", "KeyNeg", "KeyFrac", "KeyFloatInt",
               "KeyNpInt", "KeyStr"}
LabelClasses == {"Unknown", "FalseLbl", "TrueLbl", "Ascii", "Latin1", "BMP", "Astral", "Empty", "LooksLikeUuid",
                 "EmbeddedNul", "Surrogate", "BytesLbl", "IntLbl"}
MultiKeys == {"KeySmall"}                              \* classes used twice in one map (distinct members)
RepKey(k) == k \in {"Key0", "Key1", "KeySmall", "KeyMaxU32", "KeyNpInt", "KeyFloatInt"}   \* fits the u4 key column
ConvKey(k) == k # "KeyFloatInt"                        \* reference_value_map.py:60 isinstance(key, int)
RepLabel(l) == l \notin {"EmbeddedNul", "Surrogate", "BytesLbl", "IntLbl"}
\* Operations on the map of an existing ReferencedData (data_type.py:357-381 value_map getter/setter):
\*   add                 add_data(..., value_map = dict)
\*   assign              entity_type.value_map = dict                      (replaces the stored map)
\*   assign_equal        the same, followed by assigning an equal but new dict (nothing may change)
\*   equal_then_assign   first assign an equal-but-new copy of the held map, then the changed dict
\*   edit_assign         data.value_map[k] = label for every entry (reference_value_map.py:37-44 __setitem__ edits the
\*                       held dict in place), then entity_type.value_map = data.value_map  (the object already held)
\*   editdict_assign     data.value_map.map[k] = label (the dict the getter returned), then entity_type.value_map = that dict
\* The two edit operations keep the entries the map already had (the harness's base entry); the others replace them.
\* After every operation the live map, the 'Value map' dataset and the map read back after re-open are the same map.
ReplaceOps == {"add", "assign", "assign_equal", "equal_then_assign"}
EditOps    == {"edit_assign", "editdict_assign"}
MapOps     == ReplaceOps \cup EditOps
\* reference_value_map.py:81: the boolean map is exempt from the key-0 rule - only when it is the whole map, hence
\* never for an edit of an existing map
IsBoolMap(ks, ls) == Len(ks) = 2 /\ {<<ks[i], ls[i]>> : i \in 1..2} = {<<"Key0", "FalseLbl">>, <<"Key1", "TrueLbl">>}
BoolExempt(op, ks, ls) == op \in ReplaceOps /\ IsBoolMap(ks, ls)
EntryOK(op, ks, ls, i) == /\ RepKey(ks[i]) /\ RepLabel(ls[i])
                          /\ (ks[i] = "Key0" => (ls[i] = "Unknown" \/ BoolExempt(op, ks, ls)))    \* key 0 is "Unknown"
\* (a wrapped key may land on another key of the map, in particular on key 0: the harness derives that consequence
\*  - a stored map the reader refuses - from the concrete keys, see _wrapped_map_invalid in harness/checks/C08.py)
DevKey(k) == IF k = "KeyOverU32" THEN "MapKeyWrapsU32" ELSE ""      \* h5_writer.py:466,481 np.array(..., dtype "<u4")
EncKey(op, ks, ls, i, devs) ==
    IF EntryOK(op, ks, ls, i) THEN ks[i]
    ELSE IF DevKey(ks[i]) \in devs /\ DevKey(ks[i]) # "" /\ RepLabel(ls[i]) THEN "WrapU32" ELSE Reject

\* =====================================================================================
\* input space
\* =====================================================================================
Anchors == {"One", "Frac", "Ascii", "KeySmall", "NumText"}
Seq1(S) == {<<a>> : a \in S}
Seq2(S) == {s \in {<<a, b>> : a \in S, b \in S} : AllPairs \/ s[1] = s[2] \/ s[1] \in Anchors \/ s[2] \in Anchors}
SeqsUpTo(S) == Seq1(S) \cup (IF MaxLen >= 2 THEN Seq2(S) ELSE {})
LenRels(n) == {"shorter", "equal"} \cup (IF n >= 2 THEN {"longer"} ELSE {})

Mk(fam, kind, op, src, elems, aux, lenrel) ==
    [fam |-> fam, kind |-> kind, op |-> op, src |-> src, elems |-> elems, aux |-> aux, lenrel |-> lenrel]

\* <<kind, op, source dtype>>; without a type the kind is inferred from the dtype (U/S go to the Text family)
NumReq == (NumKinds \X {"add", "set"} \X (NumDt \cup NonNumDt))
          \cup {<<InferKind(dt), "infer", dt>> : dt \in NumDt \cup {"object", "list"}}
NumCases ==
    UNION {UNION {{Mk("Numeric", r[1], r[2], r[3], es, <<>>, lr) : lr \in LenRels(Len(es))}
                    : es \in {e \in SeqsUpTo(Inhab(r[3])) : Len(e) = 1 \/ r[2] \in PairOps}}
             : r \in NumReq}

\* host cases: two values of an ordinary class (the harness repeats them up to the size of the geometry)
HostCases ==
    {Mk("Numeric", r[1], op, r[2], es, <<h, se>>, lr) :
        r \in {<<"Float", "float64">>, <<"Integer", "int32">>}, op \in {"add", "set"}, es \in {<<"One", "Two">>},
        h \in Hosts, se \in Sessions, lr \in {"shorter", "equal", "longer"}}
    \cup {Mk("Numeric", "Float", op, "float64", <<"NaN", "One">>, <<h, se>>, "equal") :
              op \in {"add", "set"}, h \in Hosts, se \in Sessions}

ConcatCases ==
    {Mk("Concat", "ConcatFloat", op, dt, es, <<>>, "scalar") :
        op \in ConcatOps, dt \in {"float32", "float64"},
        es \in Seq1(ConcatClasses) \cup {<<"NaN", "One">>, <<"One", "NaN">>, <<"F32NDV", "Frac">>, <<"NaN", "NaN">>}}

TextCases ==
    UNION {UNION {
        IF form \in ArrayForms
        THEN UNION {{Mk("Text", "Text", op, form, es, <<>>, lr) : lr \in LenRels(Len(es))} : es \in SeqsUpTo(InhabT(form))}
        ELSE {Mk("Text", "Text", op, form, es, <<>>, "scalar") : es \in Seq1(InhabT(form))}
          : form \in {f \in TextForms : op = "infer" => f # "int64"}}
          : op \in {"add", "set", "infer"}}

JsonCases ==
    {Mk("Json", "Comments", op, "str", <<t>>, <<a>>, "scalar") :
        op \in {"first", "append"}, t \in CommentClasses, a \in {x \in CommentClasses : AllPairs \/ x \in {"Ascii", "Astral"}}}
    \cup {Mk("Json", "Metadata", op, "dict", <<c>>, <<>>, "scalar") : op \in {"top", "nested"}, c \in MetaClasses}

BlobCases ==
    {Mk("Blob", "Filename", op, "bytes", <<b>>, <<n>>, "scalar") : op \in {"add_file", "set"}, b \in BlobClasses, n \in NameClasses}

MapEntries == KeyClasses \X LabelClasses
MapSeqs ==
    {<<e>> : e \in MapEntries}
    \cup (IF MaxLen >= 2
          THEN {s \in {<<e, f>> : e \in MapEntries, f \in MapEntries} :
                   /\ (s[1][1] # s[2][1] \/ s[1][1] \in MultiKeys)
                   /\ \/ AllPairs
                      \/ s[1] = <<"KeySmall", "Ascii">> \/ s[2] = <<"KeySmall", "Ascii">>
                      \/ {s[1], s[2]} = {<<"Key0", "FalseLbl">>, <<"Key1", "TrueLbl">>}
                      \/ {s[1], s[2]} = {<<"Key0", "Unknown">>, <<"Key1", "TrueLbl">>}}
          ELSE {})
\* every pair of entries for add / assign; one entry or a pair with the anchor entry for the other operations
MapSeqsFor(op) ==
    IF op \in {"add", "assign"} THEN MapSeqs
    ELSE {s \in MapSeqs : Len(s) = 1 \/ s[1] = <<"KeySmall", "Ascii">> \/ s[2] = <<"KeySmall", "Ascii">>
                           \/ {s[1], s[2]} = {<<"Key0", "FalseLbl">>, <<"Key1", "TrueLbl">>}}
MapCases ==
    UNION {{Mk("Map", "ValueMap", op, "dict", [i \in 1..Len(s) |-> s[i][1]], [i \in 1..Len(s) |-> s[i][2]], "scalar") :
               s \in MapSeqsFor(op)} : op \in MapOps}

Cases == (IF "Numeric" \in Families THEN NumCases ELSE {})
         \cup (IF "Text" \in Families THEN TextCases ELSE {})
         \cup (IF "Json" \in Families THEN JsonCases ELSE {})
         \cup (IF "Blob" \in Families THEN BlobCases ELSE {})
         \cup (IF "Map" \in Families THEN MapCases ELSE {})
         \cup (IF "Host" \in Families THEN HostCases ELSE {})
         \cup (IF "Concat" \in Families THEN ConcatCases ELSE {})

\* =====================================================================================
\* the codec, per element  (Representable / Encode / Canon / Dev of element i of case c)
\* =====================================================================================
N(c) == Len(c.elems)
Typed(c) ==
    CASE c.fam = "Numeric" -> c.src \in NumDt /\ c.kind \in NumKinds
      [] c.fam = "Text"    -> TypedText(c.src)
      [] c.fam = "Concat"  -> TRUE
      [] c.fam = "Json"    -> TypedJson(c.elems[1]) /\ (c.kind = "Comments" => TypedJson(c.aux[1]))
      [] c.fam = "Blob"    -> TypedBlob(c.elems[1])
      [] OTHER             -> \A i \in 1..N(c) : c.elems[i] # "KeyStr" /\ c.aux[i] \notin {"BytesLbl", "IntLbl"}
Converted(c) ==
    CASE c.fam = "Numeric" -> ConvNum(c.kind, c.src, c.lenrel)
      [] c.fam = "Text"    -> ConvText(c.op, c.src)
      [] c.fam = "Concat"  -> TRUE
      [] c.fam = "Json"    -> ConvJson(c.elems[1])
      [] c.fam = "Blob"    -> ConvBlob(c.elems[1])
      [] OTHER             -> \A i \in 1..N(c) : ConvKey(c.elems[i])
Representable(c, i) ==
    CASE c.fam = "Numeric" -> RepNum(c.kind, c.src, c.elems[i])
      [] c.fam = "Text"    -> RepText(c.src, c.elems[i])
      [] c.fam = "Concat"  -> TRUE                       \* every float32 number fits the float32 channel
      [] c.fam = "Json"    -> RepJson(c.elems[i]) /\ (c.kind = "Comments" => RepJson(c.aux[i]))
      [] c.fam = "Blob"    -> TypedBlob(c.elems[i])
      [] OTHER             -> EntryOK(c.op, c.elems, c.aux, i)
EncodeD(c, i, devs) ==
    CASE c.fam = "Numeric" -> EncNum(c.kind, c.src, c.elems[i], c.lenrel, devs)
      [] c.fam = "Text"    -> EncText(c.src, c.elems[i], devs)
      [] c.fam = "Map"     -> EncKey(c.op, c.elems, c.aux, i, devs)
      [] c.fam = "Concat"  -> IF ConcatGap(c.elems[i]) THEN "FNDV" ELSE c.elems[i]     \* h5_writer.py:290-291
      [] OTHER             -> IF Representable(c, i) THEN c.elems[i] ELSE Reject
Encode(c, i) == EncodeD(c, i, Deviations)
Canon(c, i) == IF c.fam = "Numeric" THEN CanonNum(c.kind, c.elems[i])
               ELSE IF c.fam = "Concat" /\ c.elems[i] = "F32NDV" THEN "NaN"    \* documented exception at float32
               ELSE c.elems[i]
\* the value seen in the session of the operation: the creating session holds what was given, every later session
\* reads the channel (whatever happened to the other holes in between)
Live(c, i)  == IF c.fam = "Numeric" THEN LiveNum(c.kind, c.elems[i])
               ELSE IF c.fam = "Concat" /\ c.op # "write_read" THEN Canon(c, i)
               ELSE c.elems[i]
DevOf(c, i) ==
    CASE c.fam = "Numeric" -> DevNum(c.kind, c.src, c.elems[i], c.lenrel)
      [] c.fam = "Text"    -> DevText(c.src, c.elems[i])
      [] c.fam = "Map"     -> IF RepLabel(c.aux[i]) THEN DevKey(c.elems[i]) ELSE ""
      [] c.kind = "Metadata" /\ c.elems[i] = "LooksLikeUuid" -> "MetadataUuidLikeText"
      [] OTHER -> ""
LengthChecked(c) == c.fam = "Numeric"      \* numeric_data.py:74-98 format_length (padding + refusal)
\* "more entries than the geometry has" are refused for text arrays as well; as built TextData has no length check at
\* all (text_data.py:59-77): deviation TextLengthUnchecked stores the longer array verbatim.  (A shorter text array is
\* stored verbatim too; nothing is altered and text has no no-data code, so that is not judged.)
TextArray(c) == c.fam = "Text" /\ c.src \in {"U", "S", "object"}
CaseDev(c) == IF TextArray(c) /\ c.lenrel = "longer" THEN "TextLengthUnchecked" ELSE ""
TooLongD(c, dv) == c.lenrel = "longer" /\ (LengthChecked(c) \/ (TextArray(c) /\ "TextLengthUnchecked" \notin dv))
TooLong(c) == TooLongD(c, {})
Padded(c)  == LengthChecked(c) /\ c.lenrel = "shorter"

LiveD(c, i, code) == IF code \in {"Wrap32", "CCast"} THEN "Altered" ELSE Live(c, i)

\* Requests on which C08 does not decide between "accept" and "reject": representable values the code happens to
\* refuse (Converted = FALSE) and NUL characters in fixed-length 'S' arrays (stored as HDF5 fixed-length strings
\* today; the documented stored type, a variable-length UTF-8 string, cannot hold NUL).  Either verdict is fine; if the
\* write is accepted the round trip must hold.
NulInBytesArray(c) == c.fam = "Text" /\ c.src = "S" /\ \E i \in 1..N(c) : c.elems[i] = "EmbeddedNul"

NoOut == [done |-> FALSE, verdict |-> "none", reason |-> "none", optional |-> FALSE, enc |-> <<>>,
          stored |-> <<>>, live |-> <<>>, back |-> <<>>, devs |-> <<>>, cdev |-> "", stype |-> "none", zero |-> "none",
          base |-> "none"]

OutcomeD(c, dv) ==
    LET n    == N(c)
        enc  == [i \in 1..n |-> EncodeD(c, i, dv)]
        bad  == \E i \in 1..n : enc[i] = Reject
        fits == Typed(c) /\ ~bad /\ ~TooLongD(c, dv)
        pad  == IF Padded(c) THEN <<PadCode(c.kind)>> ELSE <<>>
        st   == IF fits THEN enc \o pad ELSE <<>>
    IN [done    |-> TRUE,
        verdict |-> IF fits /\ Converted(c) THEN "accept" ELSE "reject",
        reason  |-> IF ~Typed(c) THEN "unsupported-type" ELSE IF bad THEN "unrepresentable"
                    ELSE IF TooLongD(c, dv) THEN "too-long" ELSE IF ~Converted(c) THEN "source-refused" ELSE "ok",
        optional |-> fits /\ (~Converted(c) \/ NulInBytesArray(c)),
        enc     |-> enc,
        stored  |-> st,
        live    |-> IF fits THEN [i \in 1..n |-> LiveD(c, i, enc[i])] \o [i \in 1..Len(pad) |-> DecodeD(c.kind, pad[i], dv)]
                    ELSE <<>>,
        back    |-> [i \in 1..Len(st) |-> DecodeD(c.kind, st[i], dv)],
        \* per element: the named as-built deviation that concerns it ("" = none)
        devs    |-> [i \in 1..n |-> IF (Typed(c) /\ EncodeD(c, i, {}) = Reject) \/ c.kind = "Metadata" THEN DevOf(c, i) ELSE ""],
        \* the named as-built deviation that concerns the request as a whole ("" = none)
        cdev    |-> CaseDev(c),
        stype   |-> StoredType(c.kind),
        \* label of key 0 in the stored value map
        zero    |-> IF c.fam = "Map" /\ fits THEN (IF BoolExempt(c.op, c.elems, c.aux) THEN "FalseLbl" ELSE "Unknown")
                    ELSE IF fits /\ c.kind = "Referenced" THEN "Unknown"
                    ELSE IF fits /\ c.kind = "Boolean" THEN "FalseLbl" ELSE "none",
        \* entries the map held before the operation: kept by in-place edits, dropped by a replacement
        base    |-> IF c.fam = "Map" /\ fits THEN (IF c.op \in EditOps THEN "kept" ELSE "dropped") ELSE "none"]
Outcome(c) == OutcomeD(c, Deviations)

\* =====================================================================================
\* behaviour
\* =====================================================================================
Init == case \in Cases /\ out = NoOut
Store == ~out.done /\ out' = Outcome(case) /\ UNCHANGED case
Next == Store
Spec == Init /\ [][Next]_vars

\* =====================================================================================
\* properties (C08)
\* =====================================================================================
Accepted == out.done /\ out.verdict = "accept"
Stored   == out.done /\ out.stored # <<>>       \* what must hold whenever the write is (or were) accepted

\* values read back equal to what was written (modulo gap markers and the one documented exception)
RoundTrip ==
    Stored => \A i \in 1..N(case) : out.back[i] = Canon(case, i)
CanonIsIdentityButGaps ==
    out.done => \A i \in 1..N(case) : Canon(case, i) # case.elems[i] => case.elems[i] \in {"NaN", "FloatNDV", "F32NDV"}
\* a value that cannot be represented is rejected, never altered
UnrepresentableRejected ==
    out.done => ((\E i \in 1..N(case) : ~Representable(case, i)) => (out.verdict = "reject" /\ out.stored = <<>>))
UnsupportedTypeRejected == out.done /\ ~Typed(case) => out.verdict = "reject" /\ out.stored = <<>>
NoAlteredCode ==
    out.done => \A i \in 1..Len(out.stored) : out.stored[i] \notin {"Wrap32", "CCast", "RawBytes", "WrapU32"}
\* NaN <-> float no-data code
NaNIsFloatNDV ==
    Stored /\ case.kind \in {"Float", "ConcatFloat"} =>
        \A i \in 1..N(case) : (out.stored[i] = "FNDV") <=> (case.elems[i] \in {"NaN", "FloatNDV", "F32NDV"})
\* the gaps of a hole are gaps in every session, whatever was done to the other holes of the channel
ConcatGapsStayGaps ==
    Stored /\ case.fam = "Concat" =>
        \A i \in 1..N(case) : /\ (case.elems[i] = "NaN" => out.live[i] = "NaN" /\ out.back[i] = "NaN")
                               /\ (~ConcatGap(case.elems[i]) => out.live[i] = case.elems[i] /\ out.back[i] = case.elems[i])
\* integer gap <-> -2147483648
IntGapIsIntNDV ==
    Stored /\ IntLike(case.kind) =>
        \A i \in 1..N(case) : (out.stored[i] = "INDV") <=> (case.elems[i] \in {"NaN", "IntNDV"})
\* booleans are stored as 0/1
BooleansAreBits ==
    Stored /\ case.kind = "Boolean" => \A i \in 1..Len(out.stored) : out.stored[i] \in {"B0", "B1"}
\* key 0 is "Unknown" (the boolean map is the code's documented exemption)
KeyZeroIsUnknown ==
    Stored /\ case.fam = "Map" =>
        /\ out.zero = "Unknown" \/ BoolExempt(case.op, case.elems, case.aux)
        /\ \A i \in 1..N(case) : case.elems[i] = "Key0" =>
               (case.aux[i] = "Unknown" \/ BoolExempt(case.op, case.elems, case.aux))
\* every entry written through any of the map operations is in the stored map (live = file = re-opened), and an
\* in-place edit does not lose what the map held before
MapWritten ==
    Stored /\ case.fam = "Map" =>
        /\ \A i \in 1..N(case) : out.stored[i] = case.elems[i] /\ out.back[i] = case.elems[i]
        /\ out.base = (IF case.op \in EditOps THEN "kept" ELSE "dropped")
\* shorter arrays are padded with the no-data code, longer ones rejected
TooLongRejected ==
    out.done /\ case.lenrel = "longer" /\ (LengthChecked(case) \/ TextArray(case)) => out.verdict = "reject"
LengthRule ==
    out.done /\ LengthChecked(case) =>
        /\ case.lenrel = "longer" => out.verdict = "reject"
        /\ Stored /\ case.lenrel = "shorter" =>
               Len(out.stored) = N(case) + 1 /\ out.stored[N(case) + 1] = PadCode(case.kind)
        /\ Stored /\ case.lenrel = "equal" => Len(out.stored) = N(case)
RequestUnchanged == [][case' = case]_vars

\* =====================================================================================
\* export
\* =====================================================================================
\* o = what the property demands; ab = what the named as-built deviations together would produce (the harness
\* reports a deviation's signature only if the implementation's answer equals ab and ab differs from o)
ExportCase == out.done => PrintT(<<"CASE", ToJson([c |-> case, o |-> out, ab |-> OutcomeD(case, AllDeviations)])>>)
=============================================================================
