SPECIFICATION Spec
CONSTANTS
  Families = {"Text"}
  MaxLen = 2
  PairOps = {"add", "infer"}
  AllPairs = FALSE
  Deviations = {"TextLengthUnchecked"}
INVARIANT TooLongRejected
CHECK_DEADLOCK FALSE
