SPECIFICATION Spec
CONSTANTS
  Families = {"Text"}
  MaxLen = 1
  PairOps = {"add", "infer"}
  AllPairs = FALSE
  Deviations = {"BytesNotValidated"}
INVARIANT UnrepresentableRejected
CHECK_DEADLOCK FALSE
