SPECIFICATION Spec
CONSTANTS
  Families = {"Json"}
  MaxLen = 1
  PairOps = {"add", "infer"}
  AllPairs = FALSE
  Deviations = {"MetadataUuidLikeText"}
INVARIANT RoundTrip
CHECK_DEADLOCK FALSE
