"""C03 - replay of behaviours of spec/writethrough/WriteThrough.tla on a stored instance of a real geoh5py class.

A behaviour is a sequence of action labels (act, a, t) taken from the graphs TLC exported (transition cover of the
Ideal graph, all histories of the Orders graph).  The implementation is *tracked* through the graph TLC exported for
the as-built model (every named deviation enabled as an alternative outcome): after every action the abstract state of
the implementation (one token per slot for the live getters, one per slot for what a fresh reader of the file sees)
must be the destination of one of the edges TLC printed for that action from the current state.  The edge without a
deviation tag is the specified outcome; an edge carrying a tag is a genuine defect with the signature of that tag; no
matching edge at all is a divergence (always a violation)."""
from __future__ import annotations

import copy
import os
import shutil
import traceback

import h5py

from . import writethrough_impl as W
from .pool import scratch
from .tlc import MachineryError

GRAPH = {}  # name -> {"trans": {state: {(act,a,t): [(dst, dev, b, heal)]}}}; filled by the parent before forking
_TEMPLATES = {}  # per process: target name -> Template

# a refused assignment: value the setter is documented / written to refuse  (class or "*", attr) -> value
INVALID = {
    ("Octree", "u_count"): 3, ("Octree", "v_count"): 3, ("Octree", "w_count"): 6,
    ("*", "planning"): "Bogus", ("*", "mapping"): "bogus", ("*", "hidden"): "yes", ("*", "transparent_no_data"): "yes",
    ("*", "collar"): [1.0, 2.0], ("Grid2D", "origin"): [1.0, 2.0], ("BlockModel", "origin"): [1.0, 2.0],
    ("Octree", "origin"): [1.0, 2.0], ("*", "number_of_bins"): 0, ("*", "units"): 3, ("PropertyGroup", "name"): 3,
    ("*", "association"): "nowhere", ("*", "unit"): "furlongs", ("*", "loop_radius"): "wide",
    ("*", "coordinate_reference_system"): {"Code": "x"}, ("Grid2D", "u_cell_size"): "big",
    ("Grid2D", "v_cell_size"): "big", ("Octree", "u_cell_size"): "big", ("*", "colour"): [1, 2],
    ("Grid2D", "vertical"): "up", ("*", "channels"): ["a"], ("*", "relative_to_bearing"): "nan",
    ("FloatData", "values"): "text", ("IntegerData", "values"): "text", ("TextData", "values"): 3.5,
    ("*", "color_map"): "rainbow", ("*", "value_map"): "map",
}


class Template:  # pylint: disable=too-few-public-methods
    """A stored instance of one target: file + fixture + the three values of every exercisable attribute."""

    def __init__(self):
        self.path = None
        self.fx = None
        self.values = {}  # attr -> [v0, v1, v2]
        self.skipped = {}  # attr -> reason
        self.error = None  # class-level reason
        self.type_uid = None
        self.notes = {}
        self.pre = {}  # attr -> canonical value shown by the getter just before the first close
        self.given = {}  # attr -> initial value assigned to a None attribute before the first close
        self.unreadable_after = {}  # attr -> text: assigning the initial value made the file unreadable
        self.reopen_differs = {}  # attr -> text: the value before the first close is not what the re-opened entity shows


def _try_get(ent, attr):
    try:
        return True, getattr(ent, attr)
    except Exception as exc:  # pylint: disable=broad-except
        return False, exc


def build_template(target, directory, slim=False) -> Template:
    """Two passes: an initial value given to a None attribute before the first close must read back after re-opening;
    where it does not (the attribute is not stored, or stored where the reader does not look) the template is rebuilt
    without it, so that token 0 (None) is what both the reader and the raw file show."""
    tpl = _build_template(target, directory, frozenset(), slim)
    if tpl.error and tpl.error.startswith("the fixture file cannot be re-opened"):
        # an initial value given to a None attribute made the file unreadable: build the fixture without any of them
        # (the attribute is then exercised from None and the replay shows which assignment does it)
        why = tpl.error
        given = sorted(tpl.given)
        culprits = {}
        for attr in given:
            one = _build_template(target, directory, frozenset(set(target["attrs"]) - {attr}), slim)
            if one.error and one.error.startswith("the fixture file cannot be re-opened"):
                culprits[attr] = (f"after {W.target_name(target)}.{attr} = {W.short(one.given.get(attr), 60)} on the stored entity "
                                  f"(before the first close) " + one.error)
        tpl = _build_template(target, directory, frozenset(target["attrs"]), slim)
        tpl.notes["*"] = "fixture built without initial values for None attributes: with them " + why
        tpl.unreadable_after = culprits
        return tpl
    lost = frozenset(a for a, n in tpl.notes.items() if n.startswith("the initial value assigned"))
    if lost and not tpl.error:
        notes = dict(tpl.notes)
        tpl = _build_template(target, directory, lost, slim)
        for a in lost:
            tpl.notes[a] = notes[a] + "; fixture rebuilt without it"
    return tpl


def _build_template(target, directory, no_base, slim=False) -> Template:  # pylint: disable=too-many-branches,too-many-statements
    """Create the file with ONE stored instance (create, close), re-open it, derive the domains from the values the
    getters of the re-opened entity return, and check on a scratch copy that each domain value is accepted."""
    from geoh5py import Workspace
    tpl = Template()
    name = W.target_name(target) + ("~slim" if slim else "")
    fx = W.Fixture(target, slim=slim)
    tpl.fx = fx
    path = os.path.join(directory, f"tpl_{name}.geoh5")
    for p in (path,):
        if os.path.exists(p):
            os.remove(p)
    cwd = os.getcwd()
    os.chdir(directory)
    try:
        ws = Workspace.create(path)
        try:
            fx.build(ws)
            ent = fx.fetch(ws)
            if ent is None:
                raise W.Skip("the created entity cannot be fetched back")
            # attributes whose value is still None get a concrete initial value now (still before the first close)
            for attr in target["attrs"]:
                ok, cur = _try_get(ent, attr)
                if not ok or cur is not None or attr in no_base:
                    continue
                try:
                    _, base = W.domain(fx, ent, attr, cur)
                except W.Skip:
                    continue
                except Exception:  # pylint: disable=broad-except
                    continue
                if base is not None:
                    try:
                        setattr(ent, attr, W.materialise(base, ws))
                        tpl.given[attr] = base
                    except Exception as exc:  # pylint: disable=broad-except
                        tpl.notes[attr] = f"initial value refused: {type(exc).__name__}: {exc}"
            for attr in target["attrs"]:
                ok, cur = _try_get(ent, attr)
                if ok:
                    tpl.pre[attr] = W.canon(W.normalise(target["cls"], attr, cur))
        except W.Skip as exc:
            tpl.error = str(exc)
        except Exception as exc:  # pylint: disable=broad-except
            tpl.error = f"fixture raises {type(exc).__name__}: {exc}"
        finally:
            ws.close()
        if tpl.error:
            return tpl
        # ---- the stored entity: fresh workspace
        try:
            ws = Workspace(path, mode="r+")
        except Exception as exc:  # pylint: disable=broad-except
            tpl.error = f"the fixture file cannot be re-opened: {type(exc).__name__}: {exc}"
            return tpl
        try:
            ent = fx.fetch(ws)
            if ent is None:
                tpl.error = "the stored entity cannot be fetched after re-opening"
                return tpl
            if fx.kind in ("otype", "gtype", "dtype"):
                tpl.type_uid = ent.uid
            for attr in target["attrs"]:
                ok, cur = _try_get(ent, attr)
                if not ok:
                    tpl.skipped[attr] = f"getter raises {type(cur).__name__}: {cur}"
                    continue
                post = W.canon(W.normalise(target["cls"], attr, cur))
                if attr in tpl.pre and not W.same(tpl.pre[attr], post):
                    tpl.reopen_differs[attr] = (f"before the first close the getter shows {W.short(tpl.pre[attr], 70)}, the "
                                                f"re-opened entity shows {W.short(post, 70)}")
                try:
                    vals, base = W.domain(fx, ent, attr, cur)
                except W.Skip as exc:
                    tpl.skipped[attr] = str(exc)
                    continue
                if W._is_entity(cur):  # pylint: disable=protected-access
                    v0 = W.Ref(cur.uid)
                elif hasattr(cur, "getpixel"):
                    v0 = cur.copy()  # PIL image opened lazily on a buffer
                elif type(cur).__name__ == "ColorMap":
                    v0 = {"name": cur.name, "values": cur._values.copy()}  # pylint: disable=protected-access
                else:
                    v0 = copy.deepcopy(cur)
                if cur is None and base is not None and attr not in no_base:
                    tpl.notes[attr] = "the initial value assigned before the first close reads back as None"
                tpl.values[attr] = [v0, vals[0], vals[1]]
        finally:
            ws.close()
        # ---- every domain value must be accepted by the setter on a (scratch copy of the) stored entity
        for attr in list(tpl.values):
            probe = os.path.join(directory, f"probe_{os.getpid()}.geoh5")
            shutil.copyfile(path, probe)
            ws = Workspace(probe, mode="r+")
            try:
                ent = fx.fetch(ws)
                for tok in (1, 2, 0):
                    try:
                        W.assign(target["cls"], ent, attr, W.materialise(tpl.values[attr][tok], ws))
                    except Exception as exc:  # pylint: disable=broad-except
                        tpl.skipped[attr] = (f"the setter refuses the domain value {W.short(tpl.values[attr][tok], 60)} "
                                             f"(token {tok}): {type(exc).__name__}: {str(exc)[:120]}")
                        del tpl.values[attr]
                        break
            finally:
                try:
                    ws.close()
                except Exception:  # pylint: disable=broad-except
                    pass
                os.remove(probe)
    finally:
        os.chdir(cwd)
    tpl.path = path
    return tpl


PARTNER_ATTRS = {"receivers", "transmitters", "base_stations", "current_electrodes", "potential_electrodes"}


SHARED = {"dir": None}  # directory in which the census workers leave the templates for the replay workers


def template(target, slim=False) -> Template:
    import pickle
    name = W.target_name(target) + ("~slim" if slim else "")
    tpl = _TEMPLATES.get(name)
    if tpl is not None and (tpl.path is None or os.path.exists(tpl.path)):
        return tpl
    shared = SHARED["dir"]
    pick = os.path.join(shared, f"tpl_{name}.pickle") if shared else None
    if pick and os.path.exists(pick):
        with open(pick, "rb") as fh:
            tpl = pickle.load(fh)
        if tpl.path is None or os.path.exists(tpl.path):
            _TEMPLATES[name] = tpl
            return tpl
    tpl = build_template(target, shared or scratch(), slim)
    if pick:
        tmp = pick + f".{os.getpid()}"
        with open(tmp, "wb") as fh:
            pickle.dump(tpl, fh)
        os.replace(tmp, pick)
    _TEMPLATES[name] = tpl
    return tpl


def census(target):
    """json-able summary of one target (run in a worker)."""
    try:
        tpl = template(target)
        if tpl.fx is not None and (tpl.fx.aux.get("rx1") or tpl.fx.aux.get("cur1")):
            template(target, slim=True)
    except Exception as exc:  # pylint: disable=broad-except
        return {"target": W.target_name(target), "error": f"harness: {type(exc).__name__}: {exc}\n{traceback.format_exc()}",
                "attrs": [], "skipped": {}, "notes": {}, "reopen_differs": {}, "unreadable_after": {}}
    return {"scratch": scratch(), "target": W.target_name(target), "error": tpl.error, "attrs": sorted(tpl.values),
            "skipped": tpl.skipped, "notes": tpl.notes, "reopen_differs": tpl.reopen_differs,
            "unreadable_after": tpl.unreadable_after,
            "values": {a: [W.short(x, 60) for x in v] for a, v in tpl.values.items()},
            "two_valued": sorted(a for a, v in tpl.values.items() if W.same(W.canon(v[0]), W.canon(v[2])))}


# ----------------------------------------------------------------------------------------------------------------------
class Run:  # pylint: disable=too-many-instance-attributes
    """One behaviour on one binding."""

    def __init__(self, item):
        from geoh5py import Workspace
        self.Workspace = Workspace
        self.item = item
        self.target = item["target"]
        self.tname = W.target_name(self.target)
        self.attrs = item["attrs"]
        self.k = len(self.attrs)
        self.tpl = template(self.target)
        if self.tpl.fx.aux.get("rx1") or self.tpl.fx.aux.get("cur1"):
            # survey classes: the spare partners are needed only by the windows that bind a partner attribute; every
            # other window runs on a fixture without them (a fresh reader loads the whole tree after every step)
            if not PARTNER_ATTRS & set(self.attrs):
                slim = template(self.target, slim=True)
                if slim.path and all(a in slim.values for a in self.attrs):
                    self.tpl = slim
        self.fx = self.tpl.fx
        self.graph = GRAPH[item["graph"]]["trans"]
        self.viol = []
        self.obs_log = []
        self.stats = {"steps": 0, "skipped_invalid": 0, "dev_steps": 0, "raw_checked": 0, "reader_checked": 0,
                      "extended": 0, "invalid_accepted": 0, "refused_changed_live": 0, "cut_after_deviation": 0,
                      "assigned_inplace": 0, "assigned_fresh": 0, "unbound_scalar_checked": 0}
        self.parity = sum(len(x[0]) + x[1] + x[2] for x in item["path"]) % 2  # which steps use the in-place style
        self.work = os.path.join(scratch(), f"run_{os.getpid()}.geoh5")
        self.copy = os.path.join(scratch(), f"run_{os.getpid()}_reader.geoh5")
        self.ws = None
        self.ent = None
        self.values = [self.tpl.values[a] for a in self.attrs]
        cls = self.target["cls"]
        self.cv = [[W.canon(W.normalise(cls, a, v)) for v in self.tpl.values[a]] for a in self.attrs]
        self.raw_seen = [dict() for _ in self.attrs]
        # every OTHER scalar attribute of the entity (attribute map) is compared live vs re-read after every action:
        # an assignment may legitimately change a coupled attribute (dip = 90 -> vertical) but never on one side only
        self.unbound = [a for a in self.target["attrs"] if a not in self.attrs
                        and self.target["stored_as"].get(a, "").startswith("attribute:")]
        self.unbound_live, self.unbound_reader = {}, {}
        self.unreadable = None
        self.deferred = self.target.get("variant") == "concatenated"
        self.confirmed = [0] * len(self.attrs)
        self.resumed = False

    # ------------------------------------------------------------------ helpers
    def case(self):
        return {"target": self.tname, "attrs": self.attrs, "path": self.item["path"], "graph": self.item["graph"],
                "variant": self.item.get("variant", "")}

    def bad(self, sig, msg):
        self.viol.append({"signature": sig, "summary": f"{self.tname} {self.attrs}: {msg}", "case": self.case()})

    def pair(self, s):
        """name of the mechanism: the class that DEFINES the setter (one setter = one signature, however many classes
        inherit it) + the kind of stored thing"""
        attr = self.attrs[s]
        definer = self.target["defined_in"].get(attr, self.target["cls"]).split(".")[-1]
        return f"{definer}.{attr}@{self.target['kind']}" + ("~concatenated" if self.target.get("variant") == "concatenated" else "")

    def open_ws(self):
        self.ws = self.Workspace(self.work, mode="r+")
        self.ent = self.fx.fetch(self.ws)
        if self.ent is None:
            raise MachineryError(f"{self.tname}: stored entity not found after opening")

    def close_ws(self):
        self.ws.close()
        self.closed = (self.ws, self.ent)  # what a caller who keeps his objects still holds
        self.ws = None
        self.ent = None

    def resume_ws(self):
        """ws.open() on the SAME Workspace instance; the entity object of the earlier session is kept"""
        self.ws, self.ent = self.closed
        self.ws.open()

    # ------------------------------------------------------------------ observation
    def observe(self, is_open):
        """-> (live values or None, values seen by a fresh reader, raw node)"""
        live = None
        if is_open and self.deferred:
            # concatenated storage is written back when the workspace is closed (Concatenator tables are flushed by
            # Workspace.close): while the session is open only the live side is observable; the file is compared at
            # every Close and after every Open
            live = []
            for a in self.attrs:
                ok, v = _try_get(self.ent, a)
                live.append(W.canon(W.normalise(self.target["cls"], a, v)) if ok else ("getter-raises", type(v).__name__, str(v)[:80]))
            return live, None, None
        if is_open:
            live = []
            for a in self.attrs:
                ok, v = _try_get(self.ent, a)
                live.append(W.canon(W.normalise(self.target["cls"], a, v)) if ok else ("getter-raises", type(v).__name__, str(v)[:80]))
            for a in self.unbound:
                ok, v = _try_get(self.ent, a)
                self.unbound_live[a] = W.canon(v) if ok else ("getter-raises", type(v).__name__)
            self.ws.geoh5.flush()
            shutil.copyfile(self.work, self.copy)
            src = self.copy
            node = self.fx.raw(self.ws.geoh5, self.tpl.type_uid)
        else:
            src = self.work
            with h5py.File(self.work, "r") as fh:
                node = self.fx.raw(fh, self.tpl.type_uid)
        reader = []
        try:
            ws2 = self.Workspace(src, mode="r")
        except Exception as exc:  # pylint: disable=broad-except
            self.unreadable = f"{type(exc).__name__}: {str(exc)[:120]}"
            return live, [("file-unreadable",)] * self.k, node
        try:
            ent2 = self.fx.fetch(ws2)
            for a in self.attrs:
                if ent2 is None:
                    reader.append(("entity-missing",))
                    continue
                ok, v = _try_get(ent2, a)
                reader.append(W.canon(W.normalise(self.target["cls"], a, v)) if ok else ("getter-raises", type(v).__name__, str(v)[:80]))
            if is_open and ent2 is not None:
                for a in self.unbound:
                    ok, v = _try_get(ent2, a)
                    self.unbound_reader[a] = W.canon(v) if ok else ("getter-raises", type(v).__name__)
        finally:
            ws2.close()
        self.stats["reader_checked"] += 1
        return live, reader, node

    def raw_value(self, node, s):
        """raw content of the place where slot s is stored, or None when there is no direct mapping"""
        where = self.target["stored_as"].get(self.attrs[s], "other")
        if self.fx.kind in ("cmap", "vmap") or self.fx.variant == "concatenated":
            return None
        if node is None:
            return ("node-missing",)
        if where.startswith("attribute:"):
            return ("attr", node["attrs"].get(where.split(":", 1)[1], "<absent>"))
        if where.startswith("dataset:") and "view" not in where:
            d = node["datasets"].get(where.split(":", 1)[1])
            return ("ds", None if d is None else (d.get("sha"), d.get("shape")))
        return None

    def is_token(self, s, tok, obs):
        """does the observed value of slot s show token tok?  The pseudo-token Lost (= 3) of the spec stands for
        'none of the values of the domain'."""
        if tok >= len(self.cv[s]):
            return not any(W.same(obs, v) for v in self.cv[s])
        return W.same(obs, self.cv[s][tok])

    def matches(self, state, live, reader):
        lv, st, _ = state
        for s in range(self.k):
            if live is not None and not self.is_token(s, lv[s], live[s]):
                return False
            if reader is not None and not self.is_token(s, st[s], reader[s]):
                return False
        return True

    def describe(self, state, live, reader):
        lv, st, _ = state
        out = []
        for s in range(self.k):
            exp_l = self.cv[s][lv[s]] if lv[s] < 3 else "<none of the domain values>"
            exp_s = self.cv[s][st[s]] if st[s] < 3 else "<none of the domain values>"
            if live is not None and not self.is_token(s, lv[s], live[s]):
                out.append(f"live {self.attrs[s]} = {W.short(live[s], 70)} expected token {lv[s]} = {W.short(exp_l, 70)}")
            if reader is not None and not self.is_token(s, st[s], reader[s]):
                out.append(f"a fresh reader sees {self.attrs[s]} = {W.short(reader[s], 70)} expected token {st[s]} = {W.short(exp_s, 70)}")
        return "; ".join(out)

    def twin_explains(self, prefix, reader):
        """walk the graph TLC exported for the model with the single deviation CloseRevertsToLoaded along the specified
        outcomes of `prefix` (whose last action is the Close that diverged): is there a CloseRevertsToLoaded edge whose
        destination is what the reader of the closed file shows?"""
        g = GRAPH.get(f"twin{self.k}")
        if g is None or reader is None:
            return False
        z = tuple([0] * self.k)
        cur = (z, z, True, False, z)
        for n, (act, a, t) in enumerate(prefix):
            if act in ("Set", "SetSame") and t == cur[0][a - 1]:
                act = "SetSame"
            if act == "SetSame":
                t = cur[0][a - 1]
            if act == "SetInvalid":
                continue
            cands = g["trans"].get(cur, {}).get((act, a, t), [])
            if n == len(prefix) - 1:
                for dst, dev, _b, _h in cands:
                    if dev == "CloseRevertsToLoaded" and all(self.is_token(q, dst[1][q], reader[q]) for q in range(self.k)):
                        return True
                return False
            nxt = [c for c in cands if c[1] == ""]
            if not nxt:
                return False
            cur = nxt[0][0]
        return False

    def tokens_of(self, obs, s):
        return [t for t in range(3) if W.same(obs, self.cv[s][t])]

    # ------------------------------------------------------------------ one behaviour
    def run(self):  # pylint: disable=too-many-branches,too-many-statements,too-many-locals
        shutil.copyfile(self.tpl.path, self.work)
        self.open_ws()
        state = (tuple([0] * self.k), tuple([0] * self.k), True)
        try:
            live, reader, node = self.observe(True)
            if not self.matches(state, live, reader):
                raise MachineryError(f"{self.tname} {self.attrs}: the stored fixture does not show its own initial values: "
                                     + self.describe(state, live, reader))
            for s in range(self.k):
                rv = self.raw_value(node, s)
                if rv is not None:
                    self.raw_seen[s][0] = rv
            agree0 = {a for a in self.unbound if a in self.unbound_reader
                      and W.same(self.unbound_live[a], self.unbound_reader[a])}
            deviated = False
            pending = {}  # slot -> set of deviation tags still compatible with everything seen
            first_dev = {}
            steps = [tuple(x) for x in self.item["path"]]
            i = 0
            extra = 0
            while True:
                if i >= len(steps):
                    # adaptive extension: one more assignment tells ForgetsPersist from PersistsBeforeStoring
                    amb = sorted(q for q, v in pending.items() if len(v) > 1)
                    if not amb or extra >= 2 * self.k + 2:
                        break
                    amb = amb[0]
                    if not state[2]:
                        steps.append(("Open", 0, 0))
                    def differs(x, y):
                        return y >= 3 or not W.same(self.cv[amb][x], self.cv[amb][y])
                    nxt = [x for x in (1, 2, 0) if differs(x, state[0][amb])]
                    if not nxt:
                        break
                    # a value different from both the live and the stored one separates all outcomes in one step
                    best = [x for x in nxt if differs(x, state[1][amb])]
                    steps.append(("Set", amb + 1, (best or nxt)[0]))
                    extra += 1
                    self.stats["extended"] += 1
                act, a, t = steps[i]
                i += 1
                s = a - 1
                lv, st, is_open = state
                if act == "Set" and t == lv[s]:
                    act = "SetSame"
                if act == "SetSame":
                    t = lv[s]
                # the project header IS the Workspace object: ws.open() re-reads it, so resuming is re-opening for it
                track = "Open" if act == "Resume" and self.fx.kind == "header" else act
                cands = self.graph.get(state, {}).get((track, a, t))
                if not cands:
                    if deviated:
                        self.stats["cut_after_deviation"] += 1
                        break  # e.g. "assign the current value again" when the current value is lost
                    raise MachineryError(f"action {(act, a, t)} is not enabled in state {state} of graph {self.item['graph']}")
                outcome = "ok"
                detail = ""
                if act in ("Set", "SetSame"):
                    try:
                        style = W.assign(self.target["cls"], self.ent, self.attrs[s],
                                         W.materialise(self.values[s][t], self.ws), inplace=(i + self.parity) % 2 == 1)
                        self.stats["assigned_" + style] += 1
                    except Exception as exc:  # pylint: disable=broad-except
                        outcome = "refused"
                        detail = f"{type(exc).__name__}: {str(exc)[:160]}"
                elif act == "SetInvalid":
                    key = (self.target["cls"], self.attrs[s])
                    bogus = INVALID.get(key, INVALID.get(("*", self.attrs[s])))
                    if bogus is None:
                        self.stats["skipped_invalid"] += 1
                        continue  # the spec's SetInvalid leaves the state unchanged: skipping it is a stutter
                    try:
                        setattr(self.ent, self.attrs[s], copy.deepcopy(bogus))
                        outcome = "ok"
                    except Exception as exc:  # pylint: disable=broad-except
                        outcome = "refused"
                        detail = f"{type(exc).__name__}"
                    if outcome == "ok":
                        # the value was acceptable after all: not a refused assignment, nothing to compare (C03 speaks of
                        # valid values only); the behaviour cannot be continued from an unknown value
                        self.stats["invalid_accepted"] += 1
                        break
                elif act == "Close":
                    self.close_ws()
                elif act == "Open":
                    self.open_ws()
                    self.resumed = False
                elif act == "Resume":
                    self.resume_ws()
                    self.resumed = True
                self.stats["steps"] += 1
                now_open = is_open if act not in ("Close", "Open", "Resume") else act != "Close"
                live, reader, node = self.observe(now_open)
                if self.unreadable:
                    self.bad(f"file-unreadable:{self.pair(s) if a else self.tname}",
                             f"step {i} {act}({self.attrs[s] if a else ''}{', token ' + str(t) + ' = ' + W.short(self.values[s][t], 50) if act in ('Set', 'SetSame') else ''}) "
                             f"after {[list(x) for x in steps[:i - 1]]}: a fresh Workspace on the file raises {self.unreadable}")
                    break
                if act in ("Set", "SetSame") and outcome != "ok":
                    self.bad(f"refused-valid:{self.pair(s)}",
                             f"step {i} {act}({self.attrs[s]}, token {t} = {W.short(self.values[s][t], 60)}) raised {detail} although the "
                             "same value is accepted on the freshly stored entity")
                    break
                hit = [c for c in cands if self.matches(c[0], live, reader)]
                if act == "SetInvalid" and not hit:
                    # C03 says nothing about refused assignments; the observation is counted, the behaviour ends here
                    self.stats["refused_changed_live"] += 1
                    break
                if not hit and act == "Close" and not deviated and self.twin_explains(steps[:i], reader):
                    kind = self.target["kind"] + ("~concatenated" if self.deferred else "")
                    lost = [self.attrs[q] for q in range(self.k) if not self.is_token(q, state[1][q], reader[q])]
                    self.bad(f"dev:CloseRevertsToLoaded:{kind}",
                             f"step {i} Close() after {[list(x) for x in steps[:i - 1]]}: the session was resumed on the same "
                             f"Workspace instance and {lost} assigned through the object kept from the earlier session; after "
                             f"close() the file holds again what it held when the session was resumed: "
                             + self.describe([c for c in cands if c[1] == ""][0][0], live, reader))
                    break
                if not hit and act == "Close" and (self.deferred or self.resumed) and reader is not None:
                    # write-back storage: an assignment that never reaches the tables shows when the file is closed
                    ideal = [c for c in cands if c[1] == ""][0][0]
                    for q in range(self.k):
                        if self.is_token(q, ideal[1][q], reader[q]):
                            continue
                        if self.is_token(q, self.confirmed[q], reader[q]):
                            tag = "NoneNotPersisted" if ideal[1][q] < 3 and self.values[q][ideal[1][q]] is None else "ForgetsPersist"
                        elif not any(W.same(reader[q], v) for v in self.cv[q]):
                            tag = "DestroysStored"
                        else:
                            tag = "StoresAnotherValue"
                        if self.resumed and not self.deferred:
                            tag += "AfterResume"  # assigned through the object kept from the session before the resume
                        self.bad(f"dev:{tag}:{self.pair(q)}",
                                 f"step {i} Close() after {[list(x) for x in steps[:i - 1]]}: "
                                 + self.describe(ideal, live, reader))
                    break
                if not hit:
                    ideal = [c for c in cands if c[1] == ""][0]
                    what = self.describe(ideal[0], live, reader)
                    own = act in ("Set", "SetSame") and not (
                        (live is None or self.is_token(s, ideal[0][0][s], live[s]))
                        and (reader is None or self.is_token(s, ideal[0][1][s], reader[s])))
                    kind = "assigned" if own else ("frame" if act in ("Set", "SetSame") else "state")
                    self.bad(f"divergence:{kind}:{act}:{self.pair(s) if a else self.tname}",
                             f"step {i} {act}({self.attrs[s] if a else ''}{', token ' + str(t) if act == 'Set' else ''}) after "
                             f"{[list(x) for x in steps[:i - 1]]}: {what}")
                    break
                if now_open and reader is not None:
                    self.stats["unbound_scalar_checked"] += len(agree0)
                    off = sorted(a for a in agree0 if not W.same(self.unbound_live[a], self.unbound_reader.get(a)))
                    if off:
                        b = off[0]
                        self.bad(f"side-effect-one-sided:{self.pair(s) if a else self.tname}>{b}",
                                 f"step {i} {act}({self.attrs[s] if a else ''}{', token ' + str(t) + ' = ' + W.short(self.values[s][t], 40) if act == 'Set' else ''}) "
                                 f"after {[list(x) for x in steps[:i - 1]]}: the attribute {b}, which was not assigned, now "
                                 f"reads {W.short(self.unbound_live[b], 50)} on the live entity and "
                                 f"{W.short(self.unbound_reader.get(b), 50)} for a fresh reader of the file")
                        break
                if act in ("Set", "SetSame") and s in pending:
                    # a mechanism that had an outcome of its own for this step which the implementation did not show is refuted
                    offered = {c[1] for c in cands if c[1]}
                    shown = {c[1] for c in hit if c[1]}
                    left = pending[s] - (offered - shown)
                    if left:
                        pending[s] = left
                ideal_hit = [c for c in hit if c[1] == ""]
                if ideal_hit:
                    chosen = ideal_hit[0]
                else:
                    chosen = hit[0]
                    deviated = True
                    tags = {c[1] + (f">{self.attrs[c[2] - 1]}" if c[2] else "") for c in hit}
                    if "ForgetsPersist" in tags and self.values[s][t] is None and t < 3:
                        # the old value stays in the file when None is assigned (write_attributes skips None)
                        tags = {"NoneNotPersisted"}
                    self.stats["dev_steps"] += 1
                    if s in pending and not pending[s] & tags:
                        # two different mechanisms on the same attribute in one behaviour: report the first now
                        self.bad(f"dev:{'|'.join(sorted(pending[s]))}:{self.pair(s)}",
                                 f"{first_dev[s][1]}({self.attrs[s]}, token {first_dev[s][2]}) at step {first_dev[s][0]} of "
                                 f"{[list(x) for x in steps]}: {first_dev[s][3]}")
                        del pending[s]
                        del first_dev[s]
                    pending[s] = (pending[s] & tags) if s in pending else set(tags)
                    first_dev.setdefault(s, (i, act, t, self.describe([c for c in cands if c[1] == ""][0][0], live, reader)))
                state = chosen[0]
                if not state[2]:
                    self.confirmed = list(state[1])  # what the closed file is known to hold
                # raw content: the same token always has the same raw content, different tokens different content
                for q in range(self.k):
                    rv = self.raw_value(node, q)
                    if rv is None:
                        continue
                    self.stats["raw_checked"] += 1
                    tok = state[1][q]
                    if tok >= 3:
                        continue
                    aliases = [x for x in range(3) if W.same(self.cv[q][x], self.cv[q][tok])]
                    seen = self.raw_seen[q]
                    known = [seen[x] for x in aliases if x in seen]
                    if known and rv not in known and not self._raw_equiv(rv, known):
                        if q in pending and pending[q] & {"ForgetsPersist", "WrittenButUnreadable"}:
                            # the file content did change: the value is written where geoh5py's own reader does not find it
                            pending[q] = {"WrittenButUnreadable"}
                            continue
                        self.bad(f"raw-differs:{self.pair(q)}",
                                 f"step {i}: a geoh5py reader sees token {tok} for {self.attrs[q]} but the raw content {W.short(rv, 80)} "
                                 f"is not the content stored for that value before ({W.short(known[0], 80)})")
                        break
                    other = [x for x in seen if x not in aliases and seen[x] == rv]
                    if other:
                        self.bad(f"raw-unchanged:{self.pair(q)}",
                                 f"step {i}: a geoh5py reader sees token {tok} for {self.attrs[q]} but the raw content is still the "
                                 f"one of token {other[0]}: {W.short(rv, 80)}")
                        break
                    for x in aliases:
                        seen.setdefault(x, rv)
                else:
                    continue
                break
            for s, tags in pending.items():
                if len(tags) > 1 and self.viol:
                    continue  # ended early on another violation before the mechanism could be told apart: other behaviours do
                step_i, act, t, what = first_dev[s]
                tag = "|".join(sorted(tags))
                self.bad(f"dev:{tag}:{self.pair(s)}",
                         f"{act}({self.attrs[s]}, token {t}) at step {step_i} of {[list(x) for x in steps]}: {what}")
        finally:
            try:
                if self.ws is not None:
                    self.ws.close()
            except Exception:  # pylint: disable=broad-except
                pass
            for p in (self.work, self.copy):
                if os.path.exists(p):
                    os.remove(p)
        return self.viol, self.stats

    @staticmethod
    def _raw_equiv(rv, known):
        """attributes are compared by value (a float written as 1.0 or 1), datasets by digest"""
        if rv[0] != "attr":
            return False
        return any(k[0] == "attr" and W.same(W.canon(rv[1]), W.canon(k[1])) for k in known)


def replay_item(item):
    try:
        viol, stats = Run(item).run()
    except MachineryError:
        raise
    return {"viol": viol, "stats": stats, "scratch": scratch()}


# ----------------------------------------------------------------------------------------------------------------------
def _decode(k, code):
    return tuple((code // 4 ** i) % 4 for i in range(k))


def abstract(view):
    """ToJson(vwc) = [K, live, stored, open, want, hist, stale, loaded] (functions over the slots as base-4 numbers)
    -> hashable abstract state (want / hist / stale / loaded are constant in the as-built export)"""
    k = view[0]
    return (_decode(k, view[1]), _decode(k, view[2]), bool(view[3]))


def abstract_full(view):
    k = view[0]
    return (_decode(k, view[1]), _decode(k, view[2]), bool(view[3]), bool(view[6]), _decode(k, view[7]))


def load_tracking_graph(name, cfg, heap="4g", full_view=False):
    """TLC export of the as-built model -> GRAPH[name]; returns the TLCResult.  full_view: the abstract state also has
    the stale / loaded components (the Twin configurations)"""
    from . import tlc
    abstract_fn = abstract_full if full_view else abstract
    res = tlc.run_tlc("writethrough", "WriteThrough", cfg, workers=1, heap=heap)
    if not res.ok:
        raise MachineryError(f"{cfg}: TLC reports {res.violated}\n{res.raw_tail[-1500:]}")
    g = tlc.build_graph(res.lines)
    trans = {}
    for src, dst, lab in g.edges:
        a, b = abstract_fn(g.states[src]), abstract_fn(g.states[dst])
        key = (lab["act"], lab["a"], lab["t"])
        lst = trans.setdefault(a, {}).setdefault(key, [])
        entry = (b, lab["dev"], lab["b"], tuple(sorted(lab["heal"])))
        if entry not in lst:
            lst.append(entry)
    if len({abstract_fn(v) for v in g.states.values()}) != len(g.states):
        raise MachineryError(f"{cfg}: abstract states are not unique")
    GRAPH[name] = {"trans": trans, "states": len(g.states), "edges": len(g.edges)}
    return res


def sequences_from_cover(cfg, max_len=25, heap="4g"):
    """TLC run of an Ideal configuration (invariants + export) -> (TLCResult, list of action sequences covering
    every transition of the exported graph)"""
    from . import graph, tlc
    res = tlc.run_tlc("writethrough", "WriteThrough", cfg, workers=1, heap=heap)
    if not res.ok:
        raise MachineryError(f"{cfg}: the Ideal design violates {res.violated}\n{res.raw_tail[-1500:]}")
    g = tlc.build_graph(res.lines)
    init = graph.split_init(res.lines)
    paths, covered, unreachable = graph.path_cover(g.states, g.edges, init, max_len=max_len)
    if unreachable or covered != len(g.edges):
        raise MachineryError(f"{cfg}: path cover incomplete")
    seqs = [[(g.edges[j][2]["act"], g.edges[j][2]["a"], g.edges[j][2]["t"]) for j in p] for p in paths]
    return res, seqs, len(g.edges)
