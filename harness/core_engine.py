"""Shared engine of the core-spec checks: TLC (invariants + state-graph export) -> path cover -> replay."""
from __future__ import annotations

import random
import time

from . import graph, tlc
from .core_replay import replay_path
from .pool import pmap


def explore(cfg, workers=1, timeout=3600, heap="8g", simulate=None, depth=None, seed=None):
    res = tlc.run_tlc("core", "Geoh5Core", cfg, workers=workers, timeout=timeout, heap=heap,
                      simulate=simulate, depth=depth, seed=seed)
    if not res.ok:
        raise tlc.MachineryError(f"TLC reports {res.violated} on {cfg}: the specification violates its own "
                                 f"invariants\n{res.raw_tail[-3000:]}")
    g = tlc.build_graph(res.lines)
    init = graph.split_init(res.lines, first_only=True)   # Geoh5Core has a single initial state
    if simulate:
        res.distinct = len(g.states)
    return res, g, init


def _features(steps):
    """abstract features of a behaviour used to prioritise the sample of the transition cover: action names, ordered
    pairs of actions at distance <= 3, with the relation between their target slots (same slot / parent-child / copy)."""
    feats = set()
    labs = [lab for lab, _ in steps]
    for j, b in enumerate(labs):
        feats.add((b["act"], b["out"]))
        if "gone" in b["args"]:     # a refused removal that removed nothing / part of the subtree / a whole subtree with children
            feats.add((b["act"], "gone", min(len(b["args"]["gone"]), 3)))
        for i in range(max(0, j - 3), j):
            a = labs[i]
            sa, sb = a["args"].get("s"), b["args"].get("s")
            rel = "same" if sa is not None and sa == sb else "other"
            amap = a["args"].get("map")
            if amap and sb is not None:
                vals = list(amap.values()) if isinstance(amap, dict) else list(amap)
                keys = list(amap.keys()) if isinstance(amap, dict) else []
                if sb in vals:
                    rel = "on-copy"
                elif str(sb) in keys:
                    rel = "on-source"
            feats.add((a["act"], b["act"], rel))
    return feats


def make_items(g, init, prop, seed, max_paths=None, max_len=30, variants=1):
    rng = random.Random(seed)
    paths, covered, unreachable = graph.path_cover(g.states, g.edges, init, max_len=max_len)
    if max_paths is not None and len(paths) > max_paths:
        # budgeted sample: first a greedy set cover of the behaviours' abstract features (so that rare combinations such
        # as "edit the copy after a copy" are always replayed), then a seeded random fill
        rng.shuffle(paths)
        feats = [_features([(g.edges[j][2], None) for j in p]) for p in paths]
        chosen, seen = [], set()
        order = sorted(range(len(paths)), key=lambda i: -len(feats[i]))
        for i in order:
            if len(chosen) >= max_paths * 2 // 3:
                break
            if feats[i] - seen:
                chosen.append(i)
                seen |= feats[i]
        rest = [i for i in range(len(paths)) if i not in set(chosen)]
        chosen += rest[:max_paths - len(chosen)]
        paths = [paths[i] for i in chosen]
    items = []
    for i, p in enumerate(paths):
        steps = [(g.edges[j][2], g.states[g.edges[j][1]]) for j in p]
        # class / call-style variant: both parities are used for every behaviour index pattern
        items.append({"id": i, "variant": (seed + i) % 48,
                      "init": g.states[g.edges[p[0]][0]], "steps": steps, "prop": prop})
    n_edges = len({j for p in paths for j in p})
    return items, n_edges


def _explore_one(cfg, seed):
    sim = None
    if isinstance(cfg, (tuple, list)):
        cfg, sim = cfg
    if sim:   # random simulation with larger constants: behaviours of `depth` steps
        res, g, init = explore(cfg, simulate=f"num={sim['num']}", depth=sim["depth"], seed=seed + 1)
        name = cfg + f"[simulate num={sim['num']} depth={sim['depth']}]"
    else:
        res, g, init = explore(cfg)
        name = cfg
    return name, sim, res, g, init


def run_cfgs(prop, cfgs, seed, max_paths=None, variants=9, side_jobs=()):
    """cfgs: list of cfg names or (cfg, {"num":…, "depth":…}) for simulation. All TLC runs (and the optional
    `side_jobs`, callables such as the Ideal-design run) start concurrently; behaviours are replayed as they arrive.
    Returns (violations, coverage dict, results of side_jobs)."""
    from concurrent.futures import ThreadPoolExecutor
    states = trans = 0
    viol = []
    per_cfg = {}
    samples = []
    total_paths = total_steps = total_edges = covered_edges = 0
    acts = {}
    with ThreadPoolExecutor(max_workers=max(1, len(cfgs) + len(side_jobs))) as ex:
        futs = [ex.submit(_explore_one, cfg, seed) for cfg in cfgs]
        side = [ex.submit(job) for job in side_jobs]
        for fut in futs:
            cfg, sim, res, g, init = fut.result()
            if sim:
                items, n_cov = make_items(g, init, prop, seed, max_paths=None, max_len=sim["depth"] + 1, variants=variants)
            else:
                items, n_cov = make_items(g, init, prop, seed, max_paths=max_paths, variants=variants)
            states += res.distinct
            trans += res.generated
            t1 = time.time()
            out = pmap(replay_path, items)
            v = [x for r in out for x in r]
            viol += v
            n_steps = sum(len(it["steps"]) for it in items)
            for it in items:
                for lab, _ in it["steps"]:
                    acts[lab["act"]] = acts.get(lab["act"], 0) + 1
            per_cfg[cfg] = {"tlc_distinct_states": res.distinct, "tlc_states_generated": res.generated,
                            "tlc_depth": res.depth, "graph_edges": len(g.edges), "edges_replayed": n_cov,
                            "paths": len(items), "steps": n_steps, "tlc_wall_s": round(res.wall_s, 1),
                            "replay_wall_s": round(time.time() - t1, 1)}
            total_paths += len(items)
            total_steps += n_steps
            total_edges += len(g.edges)
            covered_edges += n_cov
            if items:
                mid = items[len(items) // 2]
                samples.append({"cfg": cfg, "behaviour": [_short(lab) for lab, _ in mid["steps"]]})
        side_results = [f.result() for f in side]
    cov = {"states": states, "transitions": trans, "traces_validated_against_impl": total_paths,
           "steps_compared": total_steps, "graph_edges": total_edges, "edges_replayed": covered_edges,
           "exhaustive": covered_edges == total_edges, "actions_replayed": acts, "per_config": per_cfg,
           "samples": samples}
    return viol, cov, side_results


def _short(lab):
    a = lab["args"]
    return lab["act"] + "(" + ",".join(f"{k}={a[k]}" for k in sorted(a) if k not in ("map", "pmap")) + ")->" + lab["out"]
