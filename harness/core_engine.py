"""Shared engine of the core-spec checks: TLC (invariants + state-graph export) -> path cover -> replay."""
from __future__ import annotations

import random
import time

from . import graph, tlc
from .core_replay import replay_path
from .pool import pmap


def explore(cfg, workers=1, timeout=3600, heap="8g", simulate=None, depth=None, seed=None):
    res = tlc.run_tlc("core", "Geoh5Core", cfg, workers=workers, timeout=timeout, heap=heap,
                      simulate=simulate, depth=depth, seed=seed)
    if not res.ok:
        raise tlc.MachineryError(f"TLC reports {res.violated} on {cfg}: the specification violates its own "
                                 f"invariants\n{res.raw_tail[-3000:]}")
    g = tlc.build_graph(res.lines)
    init = graph.split_init(res.lines, first_only=True)   # Geoh5Core has a single initial state
    if simulate:
        res.distinct = len(g.states)
    return res, g, init


def _features(steps, init=None):
    """abstract features of a behaviour used to prioritise the sample of the transition cover: action names, ordered
    pairs of actions at distance <= 3, with the relation between their target slots (same slot / parent-child / copy)."""
    feats = set()
    labs = [lab for lab, _ in steps]
    for j, b in enumerate(labs):
        feats.add((b["act"], b["out"]))
        if b["act"] in ("Copy", "Copy2") and "map" in b["args"]:
            # what was copied: kind, deep or not, how many entities, do the members carry other names than the top entity
            amap = b["args"]["map"]
            keys = [int(k) for k in (amap.keys() if isinstance(amap, dict) else range(1, len(amap) + 1))]
            top = int(b["args"]["s"])
            pre = steps[j - 1][1] if j else init
            names = {pre["mem"][str(k)]["name"] for k in keys if pre and str(k) in pre["mem"]} if pre else set()
            feats.add((b["act"], "G" if top < 11 else "O" if top < 21 else "D", bool(b["args"].get("deep")), min(len(keys), 3),
                       len(names) > 1, pre["mode"] if pre else None))
        if "gone" in b["args"]:     # a refused removal that removed nothing / part of the subtree / a whole subtree with children
            feats.add((b["act"], "gone", min(len(b["args"]["gone"]), 3)))
        for i in range(max(0, j - 3), j):
            a = labs[i]
            sa, sb = a["args"].get("s"), b["args"].get("s")
            rel = "same" if sa is not None and sa == sb else "other"
            amap = a["args"].get("map")
            if amap and sb is not None:
                vals = list(amap.values()) if isinstance(amap, dict) else list(amap)
                keys = list(amap.keys()) if isinstance(amap, dict) else []
                if sb in vals:
                    rel = "on-copy"
                elif str(sb) in keys:
                    rel = "on-source"
            feats.add((a["act"], b["act"], rel))
    return feats


def cover(g, init, max_len=30):
    paths, _covered, _unreachable = graph.path_cover(g.states, g.edges, init, max_len=max_len)
    return paths


def make_items(g, paths, prop, seed, max_paths=None, reps=1):
    """turn (a budgeted sample of) the transition cover into replay items; `reps` > 1 replays every behaviour again with
    other entity classes / call styles"""
    rng = random.Random(seed)
    if max_paths is not None and len(paths) > max_paths:
        # budgeted sample: first a greedy set cover of the behaviours' abstract features (so that rare combinations such
        # as "edit the copy after a copy" are always replayed), then a seeded random fill
        paths = list(paths)
        rng.shuffle(paths)
        feats = [_features([(g.edges[j][2], g.states[g.edges[j][1]]) for j in p], g.states[g.edges[p[0]][0]]) for p in paths]
        chosen, seen = [], set()
        order = sorted(range(len(paths)), key=lambda i: -len(feats[i]))
        for i in order:
            if len(chosen) >= max_paths // 4:
                break
            if feats[i] - seen:
                chosen.append(i)
                seen |= feats[i]
        rare = [paths[i] for i in chosen]       # replayed three times, with different class / call-style variants
        rest = [i for i in range(len(paths)) if i not in set(chosen)]
        chosen += rest[:max(0, max_paths - 3 * len(chosen))]
        paths = [paths[i] for i in chosen]
    else:
        rare = []
    items = []
    for r in (1, 2):
        for i, p in enumerate(rare):
            steps = [(g.edges[j][2], g.states[g.edges[j][1]]) for j in p]
            items.append({"id": -1, "variant": (seed + i + 7 * r) % 120,
                          "init": g.states[g.edges[p[0]][0]], "steps": steps, "prop": prop})
    for r in range(max(1, reps)):
        for i, p in enumerate(paths):
            steps = [(g.edges[j][2], g.states[g.edges[j][1]]) for j in p]
            # class / call-style variant (object class % 8, group classes % 6, call styles % 2 % 3 % 4 % 5)
            items.append({"id": i + r * len(paths), "variant": (seed + i + 7 * r) % 120,
                          "init": g.states[g.edges[p[0]][0]], "steps": steps, "prop": prop})
    n_edges = len({j for p in paths for j in p})
    return items, n_edges


def _explore_one(cfg, seed):
    sim = None
    if isinstance(cfg, (tuple, list)):
        cfg, sim = cfg
    if sim:   # random simulation with larger constants: behaviours of `depth` steps
        res, g, init = explore(cfg, simulate=f"num={sim['num']}", depth=sim["depth"], seed=seed + 1)
        name = cfg + f"[simulate num={sim['num']} depth={sim['depth']}]"
    else:
        res, g, init = explore(cfg)
        name = cfg
    return name, sim, res, g, init


SIM_PATHS = 1500


def allocate(sizes, budget, max_reps=8):
    """share a budget of behaviours between configurations: small transition covers are replayed completely (and again
    with other class variants while budget is left), the rest is shared equally by the large ones.
    Returns {name: (max_paths, reps)}."""
    out = {}
    left = budget
    todo = sorted(sizes, key=lambda k: sizes[k])
    while todo:
        k = todo.pop(0)
        share = left // (len(todo) + 1)
        reps = max(1, min(max_reps, share // sizes[k])) if sizes[k] else 1
        take = min(sizes[k], share)
        out[k] = [take, reps]
        left -= take * reps
    for k in sorted(sizes, key=lambda k: sizes[k]):      # leftover: replicate complete covers, smallest first
        while out[k][0] == sizes[k] and sizes[k] and out[k][1] < max_reps and left >= sizes[k]:
            out[k][1] += 1
            left -= sizes[k]
    return {k: tuple(v) for k, v in out.items()}


def run_cfgs(prop, cfgs, seed, max_paths=None, variants=8, side_jobs=()):
    """cfgs: list of cfg names or (cfg, {"num":…, "depth":…}) for simulation. All TLC runs (and the optional
    `side_jobs`, callables such as the Ideal-design run) run concurrently; then the budget of behaviours
    (max_paths per configuration on average; None = complete covers) is shared out and everything is replayed.
    Returns (violations, coverage dict, results of side_jobs)."""
    from concurrent.futures import ThreadPoolExecutor
    states = trans = 0
    per_cfg = {}
    samples = []
    acts = {}
    explored = []
    with ThreadPoolExecutor(max_workers=max(1, len(cfgs) + len(side_jobs))) as ex:
        futs = [ex.submit(_explore_one, cfg, seed) for cfg in cfgs]
        side = [ex.submit(job) for job in side_jobs]
        for fut in futs:
            cfg, sim, res, g, init = fut.result()
            explored.append((cfg, sim, res, g, cover(g, init, max_len=(sim["depth"] + 1) if sim else 30)))
        side_results = [f.result() for f in side]
    exhaustive_graphs = {cfg: len(paths) for cfg, sim, _r, _g, paths in explored if not sim}
    alloc = allocate(exhaustive_graphs, max_paths * len(exhaustive_graphs), variants) if max_paths is not None else {}
    all_items, meta = [], []
    for cfg, sim, res, g, paths in explored:
        if sim:
            # the simulator prints every successor it evaluated, not only the one it took: the cover of that graph is a
            # seeded, feature-prioritised sample of long behaviours around the simulated ones
            items, n_cov = make_items(g, paths, prop, seed, max_paths=SIM_PATHS)
        elif max_paths is None:
            items, n_cov = make_items(g, paths, prop, seed)
        else:
            items, n_cov = make_items(g, paths, prop, seed, max_paths=alloc[cfg][0], reps=alloc[cfg][1])
        for it in items:
            it["id"] = len(all_items)
            all_items.append(it)
        meta.append((cfg, res, g, paths, items, n_cov))
    t1 = time.time()
    out = pmap(replay_path, all_items)
    viol = [x for r in out for x in r]
    wall = time.time() - t1
    total_paths = total_steps = total_edges = covered_edges = 0
    for cfg, res, g, paths, items, n_cov in meta:
        states += res.distinct
        trans += res.generated
        n_steps = sum(len(it["steps"]) for it in items)
        for it in items:
            for lab, _ in it["steps"]:
                acts[lab["act"]] = acts.get(lab["act"], 0) + 1
        per_cfg[cfg] = {"tlc_distinct_states": res.distinct, "tlc_states_generated": res.generated,
                        "tlc_depth": res.depth, "graph_edges": len(g.edges), "edges_replayed": n_cov,
                        "cover_paths": len(paths), "paths": len(items), "steps": n_steps, "tlc_wall_s": round(res.wall_s, 1)}
        total_paths += len(items)
        total_steps += n_steps
        total_edges += len(g.edges)
        covered_edges += n_cov
        if items:
            mid = items[len(items) // 2]
            samples.append({"cfg": cfg, "behaviour": [_short(lab) for lab, _ in mid["steps"]]})
    cov = {"states": states, "transitions": trans, "traces_validated_against_impl": total_paths,
           "steps_compared": total_steps, "graph_edges": total_edges, "edges_replayed": covered_edges,
           "exhaustive": covered_edges == total_edges, "actions_replayed": acts, "per_config": per_cfg,
           "replay_wall_s": round(wall, 1), "samples": samples}
    return viol, cov, side_results


def _short(lab):
    a = lab["args"]
    return lab["act"] + "(" + ",".join(f"{k}={a[k]}" for k in sorted(a) if k not in ("map", "pmap")) + ")->" + lab["out"]
