"""C10 helpers (2/2): plans (walks of the state graph TLC exported for spec/readonly/ReadOnly.tla, with the abstract
operation classes bound to real entry points) and their replay through the public geoh5py API.

After EVERY step the harness observes
  * the outcome (returned normally / raised - any exception class counts as refused),
  * the mode of the user's handle (`ws.geoh5.mode`, "closed" when there is none on the source file),
  * whether the source file changed: SHA-256 of the bytes while the handle is read-only or closed, the raw content
    digest (harness/h5snap.py) while a writable handle is involved,
and looks the observation up among the transitions TLC generated for that action in the current abstract state.
No expected value is computed here.  An observation that only exists in the graph of a named as-built deviation is
reported with the signature of that deviation; any other unknown observation gets a signature of its own kind.
"""
from __future__ import annotations

import json
import os
import random
import shutil
from collections import defaultdict, deque

from . import readonly_fixture as rf
from .tlc import MachineryError

NEEDS_WS = {"ReOpen", "Close", "SaveAs", "Read", "Write", "Probe", "FetchEnter", "FetchExit", "Repeat"}
HELPERS_NEED_WS = {"input_file_ws", "monitored_copy"}
WEIGHT = {"Open": 3.0, "ReOpen": 0.6, "Close": 1.5, "SaveAs": 0.4, "Read": 2.0, "Write": 4.0, "Probe": 2.0,
          "Helper": 2.5, "FetchEnter": 1.2, "FetchExit": 2.0, "Repeat": 5.0}


def skey(state):
    return f"{state['mode']}/{state['fileVersion']}/{state['live']}/{state['ctx']}/{state['rep']}"


def lkey(label):
    return label["act"] + json.dumps(label["args"], sort_keys=True)


# ----------------------------------------------------------------------------------------- graph
class Graph:
    """States keyed by their readable key; out[state][label key] = list of (out, dst key)."""

    def __init__(self, g, init):
        self.states = {}
        ren = {}
        for k, st in g.states.items():
            ren[k] = skey(st)
            self.states[skey(st)] = st
        self.init = ren[init[0]]
        self.out = defaultdict(lambda: defaultdict(list))
        self.labels = {}
        for src, dst, lab in g.edges:
            lk = lkey(lab)
            self.labels[lk] = {"act": lab["act"], "args": lab["args"]}
            pair = (lab["out"], bool(lab["wopen"]), ren[dst])
            if pair not in self.out[ren[src]][lk]:
                self.out[ren[src]][lk].append(pair)

    def expected(self, src, lk):
        """The branch a plan assumes (the replay follows what it observes)."""
        opts = self.out[src][lk]
        st = self.states[src]
        act = self.labels[lk]["act"]
        want = "refused" if (act == "Write" and st["mode"] == "r") else "ok"

        def rank(o):
            out, _, dst = o
            d = self.states[dst]
            bump = d["fileVersion"] != st["fileVersion"]
            natural = (act == "Write" and st["mode"] == "r+")
            return (out != want, bump != natural)
        best = sorted(opts, key=rank)[0]
        return best[0], best[2]

    def to_json(self):
        return {"init": self.init, "states": self.states, "labels": self.labels,
                "out": {s: {lk: v for lk, v in d.items()} for s, d in self.out.items()}}

    @classmethod
    def from_json(cls, doc):
        self = cls.__new__(cls)
        self.init = doc["init"]
        self.states = doc["states"]
        self.labels = doc["labels"]
        self.out = defaultdict(lambda: defaultdict(list))
        for s, d in doc["out"].items():
            for lk, v in d.items():
                self.out[s][lk] = [tuple(x) for x in v]
        return self


# ----------------------------------------------------------------------------------------- binding
class Binder:
    """Rotation of the real entry points over the abstract operation classes."""

    def __init__(self, eps, classes, seed):
        self.pool = defaultdict(list)
        for ep in eps:
            c = classes.get(ep["id"])
            if c is None or c["cls"] == "X":
                continue
            act = {"G": "Read", "W": "Write", "N": "Probe"}[c["cls"]]
            self.pool[(act, ep["op"])].append({"id": ep["id"], "kind": ep["kind"], "name": ep["name"], "cls": ep["cls"],
                                               "family": ep["family"], "loc": ep["loc"], "tag": c["tag"],
                                               "deferred": c.get("note") == "deferred"})
        rng = random.Random(seed)
        self.cursor = {}
        for key, lst in self.pool.items():
            lst.sort(key=lambda e: e["id"])
            self.cursor[key] = rng.randrange(len(lst))

    def ops(self, act):
        return sorted({op for (a, op) in self.pool if a == act})

    def bind(self, label, mode="r"):
        """label -> step (a copy of the label with the concrete binding).  In a writable state only entry points that
        write immediately are bound to Write (the deferred ones change the file at close)."""
        step = {"act": label["act"], "args": label["args"]}
        if label["act"] in ("Read", "Write", "Probe"):
            key = (label["act"], label["args"]["op"])
            lst = self.pool.get(key)
            if not lst:
                raise MachineryError(f"operation class {key} of the specification has no entry point")
            for _ in range(len(lst)):
                i = self.cursor[key]
                self.cursor[key] = (i + 1) % len(lst)
                if not (mode == "r+" and label["act"] == "Write" and lst[i]["deferred"]):
                    break
            else:
                return None
            step["ep"] = lst[i]
        elif label["act"] == "Open":
            key = ("Open", "variant")
            self.cursor[key] = self.cursor.get(key, 0) + 1
            step["variant"] = self.cursor[key] % 2
        return step


def step_for(act, args, ep=None, variant=0):
    step = {"act": act, "args": args}
    if ep is not None:
        step["ep"] = ep
    if act == "Open":
        step["variant"] = variant
    return step


# ----------------------------------------------------------------------------------------- plans
def _has_ws_after(act, has_ws):
    if act == "Open":
        return True
    if act == "SaveAs":
        return False
    return has_ws


def _executable(label, has_ws):
    if label["act"] in NEEDS_WS:
        return has_ws
    if label["act"] == "Helper" and label["args"]["h"] in HELPERS_NEED_WS:
        return has_ws
    return True


def cover_plans(graph, binder, max_len, want=None):
    """Plans (label sequences from the initial state) that together plan every (state, label) pair of the graph
    reachable within the bound, assuming the expected branch of every nondeterministic action."""
    # BFS over (state, has_ws)
    start = (graph.init, False)
    pred = {start: None}
    dq = deque([start])
    while dq:
        node = dq.popleft()
        s, hw = node
        for lk in sorted(graph.out[s]):
            lab = graph.labels[lk]
            if not _executable(lab, hw):
                continue
            _, dst = graph.expected(s, lk)
            nxt = (dst, _has_ws_after(lab["act"], hw))
            if nxt not in pred:
                pred[nxt] = (node, lk)
                dq.append(nxt)

    def prefix(node):
        p = []
        while pred[node] is not None:
            node, lk = pred[node]
            p.append(lk)
        return p[::-1]

    todo = []
    for node in pred:
        s, hw = node
        for lk in sorted(graph.out[s]):
            if _executable(graph.labels[lk], hw) and (want is None or want(graph.states[s], graph.labels[lk])):
                todo.append((node, lk))
    todo.sort(key=lambda t: (-len(prefix(t[0])), t[0][0], t[1]))
    covered = set()
    plans = []
    for node, lk in todo:
        if (node, lk) in covered:
            continue
        labels = prefix(node) + [lk]
        covered.add((node, lk))
        s, hw = node
        _, s2 = graph.expected(s, lk)
        hw = _has_ws_after(graph.labels[lk]["act"], hw)
        while len(labels) < max_len:
            nxt = [k for k in sorted(graph.out[s2]) if _executable(graph.labels[k], hw) and ((s2, hw), k) not in covered
                   and (want is None or want(graph.states[s2], graph.labels[k]))]
            if not nxt:
                break
            k = nxt[0]
            covered.add(((s2, hw), k))
            labels.append(k)
            hw = _has_ws_after(graph.labels[k]["act"], hw)
            _, s2 = graph.expected(s2, k)
        plan, cur = [], graph.init
        for k in labels:
            step = binder.bind(graph.labels[k], graph.states[cur]["mode"])
            if step is None:
                break
            plan.append(step)
            _, cur = graph.expected(cur, k)
        plans.append(plan)
    return plans, len(covered)


def random_plans(graph, binder, n, lengths, rng):
    plans = []
    for _ in range(n):
        length = rng.choice(lengths)
        s, hw = graph.init, False
        steps = []
        for _ in range(length):
            opts = [lk for lk in sorted(graph.out[s]) if _executable(graph.labels[lk], hw)]
            if not opts:
                break
            by_act = defaultdict(list)
            for lk in opts:
                by_act[graph.labels[lk]["act"]].append(lk)
            acts = sorted(by_act)
            weights = []
            for a in acts:
                w = WEIGHT.get(a, 1.0)
                if a == "Open":  # most behaviours should live in mode "r"
                    w = 6.0
                weights.append(w)
            act = rng.choices(acts, weights=weights)[0]
            cand = by_act[act]
            if act == "Open":
                cand = [lk for lk in cand for _ in range(4 if graph.labels[lk]["args"]["m"] == "r" else 1)]
            lk = rng.choice(cand)
            step = binder.bind(graph.labels[lk], graph.states[s]["mode"])
            if step is None:
                break
            steps.append(step)
            hw = _has_ws_after(act, hw)
            _, s = graph.expected(s, lk)
        if steps:
            plans.append(steps)
    return plans


# ----------------------------------------------------------------------------------------- replay
STANDIN = """#!{python}
# stand-in for the HDF5 tool `h5repack` (not installed in the sandbox): rewrites SRC into DST with h5py and logs the call
import sys, h5py
args = [a for a in sys.argv[1:] if not a.startswith("-")]
src, dst = args[-2], args[-1]
with open({log!r}, "a") as fh:
    fh.write(src + "\\n")
with h5py.File(src, "r") as a, h5py.File(dst, "w") as b:
    for k in a:
        a.copy(k, b)
    for k, v in a.attrs.items():
        b.attrs[k] = v
"""


def install_repack_standin():
    """Workspace.close shells out to `h5repack` when Workspace.repack is set (workspace.py:201-218).  The tool is not
    installed here; a functional stand-in makes that branch observable (it really rewrites the file)."""
    import sys
    from .pool import scratch
    base = scratch()
    log = os.path.join(base, "c10_repack.log")
    path = os.path.join(base, "bin", "h5repack")
    text = STANDIN.format(python=sys.executable, log=log)
    try:
        with open(path, encoding="utf-8") as fh:
            if fh.read() == text:
                return log
    except OSError:
        pass
    os.makedirs(os.path.dirname(path), exist_ok=True)
    with open(path, "w", encoding="utf-8") as fh:
        fh.write(text)
    os.chmod(path, 0o755)
    return log


OPENED = []  # (absolute path, mode) of every h5py.File opened successfully in this process


def install_open_spy():
    """Observe every HDF5 handle that is opened (also the transient ones of helpers): h5py.File is replaced by a
    subclass that records (path, mode) after a successful open.  geoh5py itself is not touched."""
    import h5py
    if getattr(h5py.File, "_c10_spy", False):
        return
    base = h5py.File

    class SpyFile(base):  # pylint: disable=too-few-public-methods
        _c10_spy = True

        def __init__(self, name, mode="r", *args, **kwargs):
            super().__init__(name, mode, *args, **kwargs)
            if isinstance(name, (str, os.PathLike)):
                OPENED.append((os.path.abspath(os.fspath(name)), str(mode)))

    SpyFile.__name__ = "File"
    h5py.File = SpyFile


def _log_size(log):
    try:
        return os.path.getsize(log)
    except OSError:
        return 0


class Session:
    def __init__(self, fixture, digest0, graphs):
        from .pool import scratch
        self.base = scratch()
        install_open_spy()
        self.log = install_repack_standin()
        # not directly in TMPDIR: Workspace.close repacks into tempfile.gettempdir()/<same name> (workspace.py:206)
        os.makedirs(os.path.join(self.base, "c10_files"), exist_ok=True)
        self.path = os.path.join(self.base, "c10_files", "c10_seq.geoh5")
        if os.path.exists(self.path):
            os.remove(self.path)
        shutil.copyfile(fixture, self.path)
        self.sha = rf.sha_file(self.path)
        self.sha0 = self.sha
        self.digest = digest0
        self.graphs = graphs  # {"ideal": Graph, "<Deviation>": Graph}
        self.ws = None
        self.cm = None
        self.entity = None
        self.uijson = os.path.join(self.base, "c10.ui.json")
        self.ui = None
        self.pts = None
        self.memo = None

    # ---- observation
    def mode(self):
        if self.ws is None:
            return "closed"
        if os.path.abspath(str(self.ws.h5file)) != os.path.abspath(self.path):
            return "closed"  # the workspace object now belongs to another file
        try:
            return str(self.ws.geoh5.mode)
        except Exception:  # pylint: disable=broad-except
            return "closed"

    def changed(self, mode_before, mode_after):
        """-> (changed?, grain)"""
        if mode_before != "r+" and mode_after != "r+":
            sha = rf.sha_file(self.path)
            if sha == self.sha:
                return False, "bytes"
            self.sha = sha
            return True, "bytes"
        if mode_after == "r+" and self.ws is not None:
            dig = rf.content_digest(self.ws.geoh5)
        else:
            dig = rf.content_digest(self.path)
            self.sha = rf.sha_file(self.path)
        if dig == self.digest:
            return False, "content"
        self.digest = dig
        return True, "content"

    # ---- actions
    def _grab(self):
        from geoh5py.objects import Points
        self.entity = None
        for o in sorted(self.ws.objects, key=lambda o: o.name):
            if type(o) is Points:
                self.entity = o
                break

    def _ui(self):
        if self.ui is None:
            from geoh5py import Workspace
            with Workspace(self.path, mode="r") as ws:
                pts = [o for o in ws.objects if o.name == "pts"][0]
                dat = [d for d in pts.children if d.name == "f"][0]
                ids = (pts.uid, dat.uid)
            self.ui = rf.write_ui_json(self.uijson, self.path, *ids)
        return dict(self.ui)

    def do(self, step, live="sync"):
        """Execute one step. -> (outcome, extra) ; outcome in {"ok", "refused:<Class>", "skipped:<why>"}"""
        from geoh5py import Workspace
        from geoh5py.shared.utils import fetch_active_workspace
        act, args = step["act"], step["args"]
        extra = {}
        memo, self.memo = self.memo, None
        try:
            if act == "Open":
                if self.ws is None or step.get("variant", 0) == 0 or live != "sync" or self.mode() != "closed" \
                        or os.path.abspath(str(self.ws.h5file)) != os.path.abspath(self.path):
                    self.ws = Workspace(self.path, mode=args["m"])
                else:
                    self.ws.open(mode=args["m"])
                self._grab()
            elif act == "ReOpen":
                self.ws.open(mode=args["m"])
            elif act == "Close":
                if args["how"] == "close":
                    self.ws.close()
                elif args["how"] == "finalize":
                    self.ws.finalize()
                else:
                    self.ws.__exit__(None, None, None)
            elif act == "SaveAs":
                target = os.path.join(self.base, f"c10_saved_as_{len(os.listdir(self.base))}.geoh5")
                if os.path.exists(target):
                    os.remove(target)
                try:
                    self.ws.save_as(target)
                finally:
                    retargeted = os.path.abspath(str(self.ws.h5file)) != os.path.abspath(self.path)
                    if retargeted:
                        extra["copy_mode"] = None
                        try:
                            extra["copy_mode"] = str(self.ws.geoh5.mode)
                        except Exception:  # pylint: disable=broad-except
                            pass
                        rf._release(self.ws)  # pylint: disable=protected-access
                        self.ws = None
                        self.entity = None
            elif act in ("Read", "Write", "Probe"):
                ep = step["ep"]
                holder = rf.resolve(self.ws, ep["loc"])
                if holder is None:
                    return "skipped:holder not found", extra
                new = {"ep": ep}
                try:
                    out = rf.invoke(self.ws, holder, ep, ep["tag"], new)
                except rf.NotExercisable as exc:
                    return f"skipped:{exc}", extra
                if "value" in new:
                    self.memo = new
                return out, extra
            elif act == "Repeat":
                if not memo or "value" not in memo:
                    return "skipped:nothing to repeat", extra
                self.memo = memo
                extra["ep"] = memo["ep"]
                return rf.repeat(memo), extra
            elif act == "Helper":
                return self.helper(args["h"], extra), extra
            elif act == "FetchEnter":
                cm = fetch_active_workspace(self.ws, mode=args["m"])
                cm.__enter__()  # pylint: disable=unnecessary-dunder-call
                self.cm = cm
            elif act == "FetchExit":
                cm, self.cm = self.cm, None
                cm.__exit__(None, None, None)
            else:
                raise MachineryError(f"unknown action {act}")
        except MachineryError:
            raise
        except Exception as exc:  # pylint: disable=broad-except
            if act in ("Open", "FetchEnter"):
                # loading failed half-way (only specified for files a writable session has modified): no handle is kept
                if self.ws is not None:
                    rf._release(self.ws)  # pylint: disable=protected-access
                import gc
                gc.collect()
            return f"refused:{type(exc).__name__}", extra
        return "ok", extra

    def helper(self, h, extra):
        from geoh5py.ui_json import InputFile
        from geoh5py.ui_json.utils import monitored_directory_copy, path2workspace
        from geoh5py.workspace import Workspace
        made = None
        try:
            if h == "read_ui_json":
                self._ui()
                ifile = InputFile.read_ui_json(self.uijson)
                _ = ifile.data
                made = ifile.geoh5
            elif h == "input_file":
                ifile = InputFile(ui_json=self._ui())
                _ = ifile.data
                made = ifile.geoh5
            elif h == "input_file_ws":
                ui = self._ui()
                ui["geoh5"] = self.ws
                ifile = InputFile(ui_json=ui)
                _ = ifile.data
            elif h == "path2workspace":
                made = path2workspace(self.path)
            elif h == "monitored_copy":
                mon = os.path.join(self.base, "c10_monitor")
                os.makedirs(mon, exist_ok=True)
                out = monitored_directory_copy(mon, self.entity)
                extra["copy"] = os.path.basename(out)
            else:
                raise MachineryError(f"unknown helper {h}")
        except MachineryError:
            raise
        except Exception as exc:  # pylint: disable=broad-except
            outcome = f"refused:{type(exc).__name__}"
        else:
            outcome = "ok"
        hmode = "none"
        if isinstance(made, Workspace) and made is not self.ws:
            try:
                hmode = str(made.geoh5.mode)
            except Exception:  # pylint: disable=broad-except
                hmode = "closed"
            rf._release(made)  # pylint: disable=protected-access
        extra["hmode"] = hmode
        return outcome

    def cleanup(self):
        if self.cm is not None:
            try:
                self.cm.__exit__(None, None, None)
            except Exception:  # pylint: disable=broad-except
                pass
        if self.ws is not None:
            rf._release(self.ws)  # pylint: disable=protected-access
        self.ws = None


def _fam(step, extra=None):
    if extra and "ep" in extra:
        return extra["ep"]["family"]
    if "ep" in step:
        return step["ep"]["family"]
    if step["act"] == "Helper":
        return step["args"]["h"]
    if step["act"] == "Close":
        return f"Workspace.{step['args']['how']}()"
    return step["act"]


def replay_sequence(item):
    """item = {"fixture", "digest0", "graphs": {name: graph json}, "steps": [...], "id"}.
    -> {"violations": [...], "stats": {...}}"""
    graphs = item.get("_graphs")
    if graphs is None:
        graphs = {k: Graph.from_json(v) for k, v in item["graphs"].items()}
    ideal = graphs["ideal"]
    ses = Session(item["fixture"], item["digest0"], graphs)
    stats = {"steps": 0, "acts": defaultdict(int), "labels": set(), "skipped": [], "truncated": 0,
             "writes_refused": 0, "repeats_refused": 0, "follow_refused": 0, "writes_refused_eps": set(), "reads_ok": 0, "helpers_ok": defaultdict(int),
             "eps": set(), "probe_out": {}}
    viol = []
    state = ideal.init
    steps = item["steps"]

    def bad(sig, msg, upto):
        viol.append({"signature": sig, "summary": msg,
                     "case": {"steps": steps[:upto + 1], "failed_at": upto, "state": state}})

    try:
        if ses.sha != item.get("sha0", ses.sha):
            raise MachineryError("the scratch copy of the fixture differs from the fixture")
        for i, step in enumerate(steps):
            lk = lkey(step)
            opts = ideal.out[state].get(lk)
            if not opts:
                stats["truncated"] += 1  # the observed branch left the planned walk: the rest of the plan is not a behaviour
                break
            st = ideal.states[state]
            mode_before = ses.mode()
            if mode_before != st["mode"]:
                raise MachineryError(f"harness lost track of the handle mode before step {i}: {mode_before} vs {st['mode']}")
            log0 = _log_size(ses.log)
            del OPENED[:]
            out, extra = ses.do(step, st["live"])
            wopen = any(p == os.path.abspath(ses.path) and m != "r" for p, m in OPENED)
            mode_after = ses.mode()
            changed, grain = ses.changed(mode_before, mode_after)
            repacked = _log_size(ses.log) > log0
            stats["steps"] += 1
            stats["acts"][step["act"]] += 1
            stats["labels"].add(state + "|" + lk)
            if "ep" in step:
                stats["eps"].add(step["ep"]["id"])
            verdict = out.split(":")[0]
            fam = _fam(step, extra)
            where = f"step {i} {step['act']}({fam}) in state {state}"
            if verdict == "skipped":
                stats["skipped"].append(((extra.get("ep") or step.get("ep") or {}).get("id") or step["act"], out))
            # ---- look the observation up among the transitions of the specification
            def match(graph):
                res = []
                for o, w, dst in graph.out[state].get(lk, []):
                    d = graph.states[dst]
                    if verdict != "skipped" and o != verdict:
                        continue
                    if w != wopen:
                        continue
                    if d["mode"] != mode_after:
                        continue
                    if (d["fileVersion"] != st["fileVersion"]) != changed:
                        continue
                    res.append(dst)
                return res
            hit = match(ideal)
            if step["act"] == "Helper" and extra.get("hmode") == "r+":
                wopen = True
                hit = []
            if hit:
                if step["act"] == "Write" and st["mode"] == "r" and verdict == "refused":
                    stats["writes_refused"] += 1
                    stats["writes_refused_eps"].add(step["ep"]["id"])
                if step["act"] == "Write" and st["mode"] == "r" and st["live"] == "refused" and verdict == "refused" \
                        and step["args"]["op"].endswith(".set"):
                    stats["follow_refused"] += 1
                if step["act"] == "Repeat" and verdict == "refused":
                    stats["repeats_refused"] += 1
                if step["act"] == "Read" and st["mode"] == "r" and verdict == "ok":
                    stats["reads_ok"] += 1
                if step["act"] == "Helper" and verdict == "ok" and st["live"] == "sync":
                    stats["helpers_ok"][step["args"]["h"]] += 1
                if step["act"] == "Probe" and st["mode"] == "r" and st["live"] == "sync" and st["fileVersion"] == 0:
                    stats["probe_out"][step["ep"]["id"]] = verdict
                state = hit[0]
                continue
            # ---- divergence: which failure mode?
            dev = [name for name, g in graphs.items() if name != "ideal" and state in g.states and match(g)]
            ro = st["mode"] in ("r", "closed")
            detail = (f"{where}: outcome {out}, handle mode {mode_before} -> {mode_after}, file "
                      f"{'CHANGED' if changed else 'unchanged'} ({grain}); the specification allows "
                      f"{sorted({(o, ideal.states[d]['mode'], ideal.states[d]['fileVersion'] != st['fileVersion'], w) for o, w, d in opts})}"
                      f" as (outcome, mode, file changed, writable handle opened); writable handle opened: {wopen}")
            if changed and ro:
                if repacked and "RepackOnReadOnlyClose" in dev:
                    same = rf.content_digest(ses.path) == ses.digest if grain == "bytes" else None
                    bad("repack-rewrites-read-only-file",
                        f"{where}: closing the read-only handle ran h5repack and replaced the file (bytes changed, "
                        f"content {'unchanged' if same else 'changed' if same is False else '?'}) - the repack flag was "
                        f"raised in memory by an earlier refused or memory-only call; " + detail, i)
                else:
                    bad(f"file-changed-in-{'r' if st['mode'] == 'r' else 'closed'}:{fam}", detail, i)
            elif wopen and not any(w for _, w, _ in opts):
                bad(f"source-opened-writable:{fam}", detail, i)
            elif all(ideal.states[d]["mode"] != mode_after for _, _, d in opts):
                bad(f"mode-switched:{fam}", detail, i)
            elif step["act"] == "Write" and st["mode"] == "r" and verdict == "ok" and not changed:
                if st["live"] == "refused" and "RefusalUnprotects" in dev:
                    bad(f"write-silently-ignored-after-refusal:{fam.split('.')[0]}.*=",
                        f"{where}: after nothing but refused calls on this read-only workspace the assignment returns "
                        f"normally (nothing is written); " + detail, i)
                else:
                    bad(f"write-silently-ignored:{fam}", detail, i)
            elif step["act"] == "Repeat" and verdict == "ok" and not changed and "RepeatAccepted" in dev:
                bad(f"repeat-silently-accepted:{fam}",
                    f"{where}: the assignment that had just been refused returns normally when it is issued again with "
                    f"the identical value - the file still holds the old value; " + detail, i)
            elif step["act"] == "Read" and verdict == "refused":
                bad(f"getter-raises-in-r:{fam}", detail, i)
            elif step["act"] == "Write" and st["mode"] == "r+" and not changed:
                raise MachineryError("binding not reproducible: " + detail)
            elif changed:
                bad(f"file-changed:{fam}", detail, i)
            else:
                bad(f"unexpected:{step['act']}:{fam}", detail, i)
            break
        else:
            pass
        # ---- end of the sequence: the bytes must still be the ones the spec's fileVersion stands for
        if not viol and ses.mode() != "r+" and rf.sha_file(ses.path) != ses.sha:
            bad("file-changed-at-end", f"the bytes differ from the last hash taken, at the end of the sequence in state {state}",
                len(steps) - 1)
    finally:
        ses.cleanup()
    stats["acts"] = dict(stats["acts"])
    stats["helpers_ok"] = dict(stats["helpers_ok"])
    for k in ("labels", "eps", "writes_refused_eps"):
        stats[k] = sorted(stats[k])
    return {"violations": viol, "stats": stats, "id": item.get("id")}
