"""C15 - implementation side of spec/uijson/UiJsonValidate.tla.

Maps the value tokens / form records of the specification to real geoh5py objects (a workspace with
Points + data + property groups, ui.json forms built with geoh5py.ui_json.templates), executes one
action label of the specification on the real object and abstracts the result back:
    verdict  "ok" | "rejected"   (any exception is a rejection; messages and classes are not compared)
    visible  the abstract visible state (same shape as Visible(cfg, st) of the specification)
Nothing here knows what the right answer is: expected verdicts and states come from what TLC printed.
"""
from __future__ import annotations

import os
import uuid
import warnings
from copy import deepcopy

import numpy as np

_FIX = {}


class Fixture:
    """Real entities behind the value tokens (built once per worker process)."""

    def __init__(self, on_file: bool):
        from geoh5py import Workspace
        from geoh5py.groups import ContainerGroup
        from geoh5py.objects import Curve, Points
        if on_file:
            from .pool import scratch
            base = scratch()
            tag = uuid.uuid4().hex[:8]
            self.ws = Workspace.create(os.path.join(base, f"c15_{tag}.geoh5"))
            self.ws2 = Workspace.create(os.path.join(base, f"c15_{tag}_b.geoh5"))
        else:
            self.ws = Workspace()
            self.ws2 = Workspace()
        verts = np.arange(12.0).reshape(4, 3)
        self.group = ContainerGroup.create(self.ws, name="G")
        self.obj = Points.create(self.ws, vertices=verts, name="A", parent=self.group)
        self.data, self.dx, self.dy, self.dz = self.obj.add_data(
            {k: {"values": np.arange(4.0)} for k in ("a", "x", "y", "z")})
        self.intdata = self.obj.add_data({"i": {"type": "integer", "values": np.arange(4, dtype="int32")}})
        self.pgmulti = self.obj.add_data_to_group([self.data], "multi")
        self.pg3d = self.obj.create_property_group(
            name="vec", property_group_type="3D vector", properties=[self.dx.uid, self.dy.uid, self.dz.uid])
        self.objb = Points.create(self.ws, vertices=verts, name="B")
        self.other, bx, by, bz = self.objb.add_data({k: {"values": np.arange(4.0)} for k in ("c", "x", "y", "z")})
        self.pgother = self.objb.create_property_group(
            name="vecb", property_group_type="3D vector", properties=[bx.uid, by.uid, bz.uid])
        self.curve = Curve.create(self.ws, vertices=verts, name="C")
        self.foreignobj = Points.create(self.ws2, vertices=verts, name="X")
        self.foreign = self.foreignobj.add_data({"c": {"values": np.arange(4.0)}})
        self.bogus = uuid.UUID("0f0f0f0f-1111-4222-8333-444444444444")
        if on_file:
            self.ws.close()
            self.ws2.close()
        self.values = {
            "None": None, "True": True, "False": False, "Int": 3, "Float": 2.5, "Str": "abc", "EmptyStr": "",
            "Choice": "Option A",
            "SidData": str(self.data.uid), "SidOther": str(self.other.uid), "SidObj": str(self.obj.uid),
            "SidBogus": str(self.bogus),
            "UidData": self.data.uid, "UidOther": self.other.uid, "UidObj": self.obj.uid,
            "UidGroup": self.group.uid, "UidBogus": self.bogus, "UidPg3D": self.pg3d.uid,
            "UidPgMulti": self.pgmulti.uid,
            "EntData": self.data, "EntOther": self.other, "EntObj": self.obj, "EntObjB": self.objb,
            "EntGroup": self.group, "EntForeign": self.foreign, "EntForeignObj": self.foreignobj,
            "EntInt": self.intdata, "EntCurve": self.curve,
            "Pg3D": self.pg3d, "PgMulti": self.pgmulti, "PgOther": self.pgother,
            "ListStr": ["a", "b"], "ListInt": [42], "Ws": self.ws,
            "LUidObj": [self.obj.uid], "LEntObj": [self.obj], "LUidObjBogus": [self.obj.uid, self.bogus],
            "LEntForeign": [self.foreignobj],
        }
        self._by_id = {id(v): k for k, v in self.values.items()
                       if not isinstance(v, (str, int, float, bool, type(None), uuid.UUID, list))}
        self._by_eq = {}
        for k, v in self.values.items():
            if isinstance(v, (str, uuid.UUID)):
                self._by_eq[(type(v).__name__, str(v))] = k

    def value(self, token):
        val = self.values[token]
        return list(val) if isinstance(val, list) else val

    def stored_token(self, val):
        """Token of a stored value up to promotion: a uuid held by the fixture counts as its entity."""
        if isinstance(val, uuid.UUID):
            for tok, ent in self.values.items():
                if tok.startswith(("Ent", "Pg")) and getattr(ent, "uid", None) == val:
                    return tok
        if isinstance(val, list):
            items = [self.stored_token(item) for item in val]
            match = [tok for tok, lst in self.values.items()
                     if isinstance(lst, list) and [self.stored_token(i) for i in lst] == items]
            own = [tok for tok in match if [self.token(i) for i in self.values[tok]] == items]
            return (own or match or [f"?list:{items}"])[0]
        return self.token(val)

    def _list_token(self, items, val):
        for tok, lst in self.values.items():
            if isinstance(lst, list) and [self.token(i) for i in lst] == items:
                return tok
        return f"?list:{items}"

    def token(self, val):
        """Abstract a stored Python value back to the token of the specification."""
        if val is None:
            return "None"
        if isinstance(val, bool):
            return "True" if val else "False"
        if isinstance(val, int):
            return "Int" if val == 3 else f"?int:{val}"
        if isinstance(val, float):
            return "Float" if val == 2.5 else f"?float:{val}"
        if isinstance(val, (str, uuid.UUID)):
            return self._by_eq.get((type(val).__name__, str(val)), f"?{type(val).__name__}:{val}")
        if isinstance(val, list):
            return self._list_token([self.token(item) for item in val], val)
        return self._by_id.get(id(val), f"?{type(val).__name__}")


def fixture(on_file=False) -> Fixture:
    key = (os.getpid(), on_file)
    if key not in _FIX:
        with warnings.catch_warnings():
            warnings.simplefilter("ignore")
            _FIX[key] = Fixture(on_file)
    return _FIX[key]


def attempt(fn):
    """Total verdict: any exception raised by geoh5py is a rejection."""
    try:
        fn()
    except Exception as exc:  # pylint: disable=broad-except
        return "rejected", f"{type(exc).__name__}: {str(exc)[:160]}"
    return "ok", ""


# ------------------------------------------------------------------ classic path: InputFile
def classic_form(fix, kind):
    from geoh5py.ui_json import templates
    if kind == "string":
        return templates.string_parameter(value="abc")
    if kind == "integer":
        return templates.integer_parameter(value=3)
    if kind == "float":
        return templates.float_parameter(value=2.5)
    if kind == "bool":
        return templates.bool_parameter(value=True)
    if kind == "choice":
        return templates.choice_string_parameter(choice_list=("Option A", "Option B"), value="Option A")
    if kind == "file":
        return templates.file_parameter(file_description=("text",), file_type=("txt",), value="abc")
    if kind == "object":
        return templates.object_parameter(value=fix.obj.uid)
    if kind == "group":
        return templates.group_parameter(value=fix.group.uid)
    if kind == "data":
        return templates.data_parameter(parent="obj", value=fix.data.uid)
    if kind == "pgroup":
        return templates.data_parameter(parent="obj", value=fix.pg3d.uid, data_group_type="3D vector")
    if kind == "datavalue":
        return templates.data_value_parameter(parent="obj", value=2.5)
    if kind == "gdata":          # the parent is a group selector: members are the data of the objects inside it
        return templates.data_parameter(parent="grp", value=fix.data.uid)
    if kind == "objectmulti":
        return templates.object_parameter(value=[fix.obj.uid], multi_select=True)
    raise ValueError(kind)


def classic_ui_json(fix, cfg):
    """ui.json with the parameter under test "p" and the forms its switches refer to:
    "lead" carries groupOptional / the group's enabled state, "dep" is the dependency (a boolean form
    or an optional form), "obj" is the parent object of data forms."""
    from geoh5py.ui_json import templates
    from geoh5py.ui_json.constants import default_ui_json
    ui = deepcopy(default_ui_json)
    ui["geoh5"] = fix.ws
    if cfg["group"]:
        ui["lead"] = {"label": "lead", "value": "abc", "group": "g", "optional": True, "enabled": cfg["gen"]}
        if cfg["gopt"]:
            ui["lead"]["groupOptional"] = True
    if cfg["dep"]:
        if cfg["dkind"] == "bool":
            ui["dep"] = {"label": "dep", "value": cfg["dstate"]}
            if cfg.get("den", "absent") != "absent":     # a plain checkbox that carries an enabled member
                ui["dep"]["enabled"] = cfg["den"] == "on"
        else:
            ui["dep"] = {"label": "dep", "value": 2.5, "optional": True, "enabled": cfg["dstate"]}
    ui["obj"] = templates.object_parameter(value=fix.obj.uid)
    if cfg["kind"] == "gdata":
        ui["grp"] = templates.group_parameter(value=fix.group.uid)
    form = classic_form(fix, cfg["kind"])
    if cfg["group"]:
        form["group"] = "g"
    if cfg["dep"]:
        form["dependency"] = "dep"
        form["dependencyType"] = cfg["dtype"]
    if cfg["opt"]:
        form["optional"] = True
        form["enabled"] = cfg["en0"]
    elif not cfg["en0"]:
        form["enabled"] = False
    ui["p"] = form
    return ui


def _snap(infile):
    ui = {k: (dict(v) if isinstance(v, dict) else v) for k, v in infile.ui_json.items()}
    return ui, dict(infile.data)


def other_ui_json(fix, which):
    """An unrelated, valid ui.json whose selector is multiSelect (the "Prime" action of the specification)."""
    from geoh5py.ui_json import templates
    from geoh5py.ui_json.constants import default_ui_json
    ui = deepcopy(default_ui_json)
    ui["geoh5"] = fix.ws
    if which == "multiObject":
        ui["selection"] = templates.object_parameter(value=[str(fix.obj.uid), str(fix.objb.uid)], multi_select=True)
    else:
        ui["parent_object"] = templates.object_parameter(value=str(fix.obj.uid))
        ui["channels"] = templates.data_parameter(parent="parent_object", value=[str(fix.data.uid)])
        ui["channels"]["multiSelect"] = True
    return ui


class ClassicMachine:
    """One InputFile (its InputValidation lives inside) driven by the actions of the specification."""

    def __init__(self, cfg):
        from geoh5py.ui_json import InputFile
        self.fix = fixture()
        self.cfg = cfg
        self.infile = InputFile(ui_json=classic_ui_json(self.fix, cfg), validate=False)
        _ = self.infile.data
        self.infile.validate = True

    def requires_value(self):
        from geoh5py.ui_json.utils import requires_value
        return bool(requires_value(self.infile.ui_json, "p"))

    def visible(self):
        form = self.infile.ui_json["p"]
        return {"en": bool(form.get("enabled", True)) if self.cfg["opt"] else True,
                "stored": self.fix.stored_token(self.infile.data["p"])}

    def step(self, act, arg, arg2=""):
        from geoh5py.ui_json import InputFile
        val = None if act == "Prime" else self.fix.value(arg)
        before = _snap(self.infile)
        if act == "Prime":
            def call():
                _ = InputFile(ui_json=other_ui_json(self.fix, arg)).data
        elif act == "Load":
            def call():
                _ = InputFile(ui_json=classic_ui_json(self.fix, self.cfg)).data
        elif act == "SetKey":
            def call():
                self.infile.set_data_value("p", val)
        elif act == "SetAll":
            def call():
                data = dict(self.infile.data)
                data["p"] = val
                self.infile.data = data
        elif act == "Check":
            def call():
                data = dict(self.infile.data)
                data["p"] = val
                self.infile.validators.validate_data(data)
        elif act == "CheckOne":
            def call():
                self.infile.validators.validate("p", val)
        else:
            raise ValueError(act)
        verdict, why = attempt(call)
        changed = verdict != "ok" and _snap(self.infile) != before
        return verdict, self.visible(), why, changed


# ------------------------------------------------------------------ classic path: one_of on an InputValidation
class OneOfMachine:
    def __init__(self, cfg):
        from geoh5py.ui_json import InputFile
        from geoh5py.ui_json.constants import default_ui_json
        from geoh5py.ui_json.validation import InputValidation
        self.fix = fixture()
        ui = deepcopy(default_ui_json)
        ui["geoh5"] = self.fix.ws
        for name in ("a", "b"):
            ui[name] = {"label": name, "value": "abc", "optional": True, "enabled": False}
        infile = InputFile(ui_json=ui, validate=False)
        self.data = dict(infile.data)
        self.validator = InputValidation(ui_json=infile.ui_json,
                                         validations={"a": {"one_of": "g"}, "b": {"one_of": "g"}})

    def visible(self):
        return {"none": True}

    def step(self, act, arg, arg2=""):
        data = dict(self.data)
        data["a"] = self.fix.value(arg)
        data["b"] = self.fix.value(arg2)
        verdict, why = attempt(lambda: self.validator.validate_data(data))
        return verdict, self.visible(), why, False


# ------------------------------------------------------------------ new API: Parameter / FormParameter / EnforcerPool
CHOICES = ["Option A", "Option B"]


def _param_validations(fix, kind):
    from geoh5py.data import FloatData
    from geoh5py.groups import PropertyGroup
    from geoh5py.objects import Points
    from geoh5py.workspace import Workspace
    return {
        "String": {"type": str}, "Integer": {"type": int}, "Float": {"type": float},
        "Numeric": {"type": [int, float]}, "Bool": {"type": bool}, "StringList": {"type": [list, str]},
        "Value": {"value": list(CHOICES)}, "TypeR": {"type": [FloatData]},
        "TypeUID": {"type_uid": [str(Points.default_type_uid())]},
        "Workspace": {"type": Workspace}, "PropertyGroup": {"type": PropertyGroup},
        "Uu": {"uuid": None}, "Two": {"type": str, "value": list(CHOICES)},
        "TypeUuid": {"type": str, "uuid": None},
    }[kind]


def make_parameter(fix, kind, wrap):
    from geoh5py.data import FloatData
    from geoh5py.objects import Points
    from geoh5py.shared.utils import SetDict
    from geoh5py.ui_json import forms, parameters
    from geoh5py.ui_json.enforcers import EnforcerPool
    points_uid = str(Points.default_type_uid())
    if wrap == "pool":
        return EnforcerPool.from_validations("p", SetDict(**_param_validations(fix, kind)))
    if wrap == "form":
        if kind == "String":
            return forms.StringFormParameter("p", label="l")
        if kind == "Integer":
            return forms.IntegerFormParameter("p", label="l")
        if kind == "Float":
            return forms.FloatFormParameter("p", label="l")
        if kind == "Bool":
            return forms.BoolFormParameter("p", label="l")
        if kind == "Value":
            return forms.ChoiceStringFormParameter("p", list(CHOICES), label="l")
        if kind == "TypeUID":
            return forms.ObjectFormParameter("p", [points_uid], label="l")
        if kind == "TypeR":
            return forms.DataFormParameter("p", "Float", label="l", parent="o", association="Vertex")
        raise ValueError((kind, wrap))
    builtin = {
        "String": lambda: parameters.StringParameter("p"), "Integer": lambda: parameters.IntegerParameter("p"),
        "Float": lambda: parameters.FloatParameter("p"), "Numeric": lambda: parameters.NumericParameter("p"),
        "Bool": lambda: parameters.BoolParameter("p"), "StringList": lambda: parameters.StringListParameter("p"),
        "Value": lambda: parameters.ValueRestrictedParameter("p", list(CHOICES)),
        "TypeR": lambda: parameters.TypeRestrictedParameter("p", [FloatData]),
        "TypeUID": lambda: parameters.TypeUIDRestrictedParameter("p", [points_uid]),
        "Workspace": lambda: parameters.WorkspaceParameter("p"),
        "PropertyGroup": lambda: parameters.PropertyGroupParameter("p"),
    }
    if kind in builtin:
        return builtin[kind]()
    # parameters declaring more than one rule: a Parameter subclass with static validations
    cls = type(f"{kind}Parameter", (parameters.Parameter,), {"static_validations": _param_validations(fix, kind)})
    return cls("p")


class ParamMachine:
    def __init__(self, cfg):
        self.fix = fixture()
        self.cfg = cfg
        self.obj = make_parameter(self.fix, cfg["kind"], cfg["wrap"])

    def visible(self):
        if self.cfg["wrap"] == "pool":
            return {"stored": "None"}
        return {"stored": self.fix.token(self.obj.value)}

    def step(self, act, arg, arg2=""):
        if act == "Assign":
            val = self.fix.value(arg)
            verdict, why = attempt(lambda: setattr(self.obj, "value", val))
        elif act == "Validate":
            verdict, why = attempt(self.obj.validate)
        elif act == "Enforce":
            val = self.fix.value(arg)
            verdict, why = attempt(lambda: self.obj.enforce(val))
        else:
            raise ValueError(act)
        return verdict, self.visible(), why, False


# ------------------------------------------------------------------ new API: members of one FormParameter
class FormMachine:
    MEMBERS = ("label", "tooltip", "main")

    def __init__(self, cfg):
        from geoh5py.ui_json import forms
        self.fix = fixture()
        self.obj = forms.StringFormParameter("p")

    def visible(self):
        form = self.obj.form()
        vis = {m: (self.fix.token(form[m]) if m in form else "absent") for m in self.MEMBERS}
        vis["stored"] = self.fix.token(form["value"]) if "value" in form else "absent"
        return vis

    def step(self, act, arg, arg2=""):
        if act == "SetMember":
            verdict, why = attempt(lambda: setattr(self.obj, arg, self.fix.value(arg2)))
        elif act == "RegisterMember":
            verdict, why = attempt(lambda: self.obj.register({arg: self.fix.value(arg2)}))
        elif act == "Assign":
            verdict, why = attempt(lambda: setattr(self.obj, "value", self.fix.value(arg)))
        elif act == "ValidateForm":
            verdict, why = attempt(self.obj.validate)
        else:
            raise ValueError(act)
        return verdict, self.visible(), why, False


# ------------------------------------------------------------------ new API: UIJson
class UIJsonMachine:
    def __init__(self, cfg):
        from geoh5py.objects import Points
        from geoh5py.ui_json import forms, parameters
        from geoh5py.ui_json.ui_json import UIJson
        self.fix = fixture(on_file=True)
        fix = self.fix
        params = {
            "title": parameters.ValueRestrictedParameter("title", "my application", value="my application"),
            "geoh5": parameters.WorkspaceParameter("geoh5", value=fix.ws),
            "run_command": parameters.StringParameter("run_command"),
            "run_command_boolean": forms.BoolFormParameter("run_command_boolean", label="run", value=False),
            "monitoring_directory": parameters.StringParameter("monitoring_directory"),
            "conda_environment": parameters.StringParameter("conda_environment"),
            "conda_environment_boolean": parameters.BoolParameter("conda_environment_boolean"),
            "workspace": parameters.WorkspaceParameter("workspace"),
            "obj": forms.ObjectFormParameter("obj", label="object", value=fix.obj,
                                             mesh_type=[str(Points.default_type_uid())]),
            "dat": forms.DataFormParameter("dat", label="data", parent="obj", association="Vertex",
                                           data_type="Float", value=fix.data),
        }
        self.uijson = UIJson(params)

    def visible(self):
        return {"obj": self.fix.token(self.uijson.obj), "dat": self.fix.token(self.uijson.dat)}

    def step(self, act, arg, arg2=""):
        if act == "SetObj":
            verdict, why = attempt(lambda: setattr(self.uijson, "obj", self.fix.value(arg)))
        elif act == "SetDat":
            verdict, why = attempt(lambda: setattr(self.uijson, "dat", self.fix.value(arg)))
        elif act == "UpdateObj":
            verdict, why = attempt(lambda: self.uijson.update({"obj": self.fix.value(arg)}))
        elif act == "UpdateDat":
            verdict, why = attempt(lambda: self.uijson.update({"dat": self.fix.value(arg)}))
        elif act == "ValidateAll":
            verdict, why = attempt(self.uijson.validate)
        else:
            raise ValueError(act)
        return verdict, self.visible(), why, False


MACHINES = {"classic": ClassicMachine, "oneof": OneOfMachine, "param": ParamMachine, "form": FormMachine,
            "uijson": UIJsonMachine}
