"""State graph exported by TLC -> set of paths that covers every transition."""
from __future__ import annotations

from collections import defaultdict, deque


def split_init(lines, first_only=False):
    """Initial states = ST lines printed before the first TR line (single worker BFS).
    first_only: the spec has a single initial state (needed for -simulate exports, where the first
    successor's ST line is printed before the first TR line)."""
    if first_only:
        for tag, nums, _ in lines:
            if tag == "ST":
                return [(nums[0], nums[1])]
        return []
    init = []
    for tag, nums, _ in lines:
        if tag == "TR":
            break
        if tag == "ST":
            init.append((nums[0], nums[1]))
    return init


def path_cover(states, edges, init, max_len=40, limit=None, rng=None):
    """Greedy cover: for every uncovered edge take a shortest path to its source and then keep
    walking along uncovered edges. Returns list of paths, each a list of edge indices."""
    out = defaultdict(list)
    for i, (s, d, _) in enumerate(edges):
        out[s].append(i)
    # BFS tree from the initial states
    pred = {}
    dist = {}
    dq = deque()
    for s in init:
        dist[s] = 0
        dq.append(s)
    while dq:
        u = dq.popleft()
        for i in out[u]:
            v = edges[i][1]
            if v not in dist:
                dist[v] = dist[u] + 1
                pred[v] = i
                dq.append(v)

    def prefix(u):
        p = []
        while u in pred and dist[u] > 0:
            i = pred[u]
            p.append(i)
            u = edges[i][0]
        return p[::-1]

    covered = [False] * len(edges)
    order = sorted((i for i in range(len(edges)) if edges[i][0] in dist),
                   key=lambda i: (-dist[edges[i][0]], i))
    if rng is not None:
        rng.shuffle(order)
    paths = []
    for i in order:
        if covered[i]:
            continue
        p = prefix(edges[i][0]) + [i]
        covered[i] = True
        cur = edges[i][1]
        while len(p) < max_len:
            nxt = [j for j in out[cur] if not covered[j]]
            if not nxt:
                break
            j = nxt[0]
            covered[j] = True
            p.append(j)
            cur = edges[j][1]
        for j in p:
            covered[j] = True
        paths.append(p)
        if limit is not None and len(paths) >= limit:
            break
    unreachable = [i for i in range(len(edges)) if edges[i][0] not in dist]
    return paths, sum(covered), unreachable
