"""C04 - compare the implementation (harness/concat_impl.Scene) with states exported by TLC from
spec/concat/DrillholeConcat.tla, and replay paths of the exported state graph."""
from __future__ import annotations

import os
import shutil
import tempfile
from collections import Counter

from .concat_impl import NDV, Scene, tiling_defects

NONE = [-2]
MISSING = [-3]
LABEL_OF = {"PGIDS": "Property Group IDs"}
PG_NAMES = ("depth_0", "Interval_0")


def _seq(x):
    """ToJson writes empty functions/sequences in several ways; normalise to list."""
    if x is None:
        return []
    if isinstance(x, dict):
        return [x[k] for k in sorted(x, key=lambda k: int(k) if str(k).isdigit() else k)]
    return list(x)


class Mismatch(Exception):
    def __init__(self, signature, summary):
        super().__init__(summary)
        self.signature = signature
        self.summary = summary


# ---------------------------------------------------------------------- expected side (from TLC's JSON)
def exp_api(st):
    out = {}
    for h, rec in enumerate(_seq(st["api"]), 1):
        if not rec.get("live"):
            continue
        out[h] = {"names": sorted(_seq(rec.get("names"))), "children": sorted(_seq(rec.get("children"))),
                  "ad": bool(rec.get("ad", True)), "pub": bool(rec.get("pub", True)), "data_ad": {e["n"]: bool(e.get("ad", True)) for e in _seq(rec.get("vals"))},
                  "vals": {e["n"]: _seq(e["v"]) for e in _seq(rec.get("vals"))},
                  "pgs": sorted((p["name"], p["ptype"], tuple(_seq(p["props"]))) for p in _seq(rec.get("pgs")))}
    return out


def exp_rows(st, label):
    rows = _seq(st["s"]["idx"][label])
    cat = _seq(st["s"]["cat"][label])
    return [(r["st"], r["sz"], r["ob"], r["da"], tuple(cat[r["st"]:r["st"] + r["sz"]])) for r in rows], len(cat)


def exp_attrs(st):
    recs = []
    for r in _seq(st["s"]["attrs"]):
        keys = tuple(sorted((k["n"], k["d"]) for k in _seq(r["keys"])))
        recs.append((r["kind"], r["id"] if r["kind"] != "empty" else 0, r["name"] if r["kind"] in ("data", "pg") else "",
                     keys, tuple(_seq(r["props"])), r["ptype"], bool(r.get("ad", True)) if r["kind"] in ("hole", "data") else True,
                     bool(r.get("pub", True)) if r["kind"] == "hole" else True))
    return Counter(recs)


# ---------------------------------------------------------------------- implementation side
def got_api(scene):
    out = {}
    for h, rec in scene.observe_api().items():
        vals = {}
        for name, v in rec["values"].items():
            if v == "missing":
                vals[name] = MISSING
            elif v is None:
                vals[name] = NONE
            elif isinstance(v, dict):
                first = v["several"][0]
                vals[name] = NONE if first is None else first
            else:
                vals[name] = v
        pgs = rec["pgs"]
        pgs = pgs if isinstance(pgs, str) else sorted((n, p["type"], tuple(p["props"])) for n, p in pgs.items())
        out[h] = {"names": rec["names"], "vals": vals, "pgs": pgs, "children": rec["children"],
                  "ad": rec["ad"], "pub": rec.get("pub", True), "data_ad": rec["data_ad"]}
    return out


def got_rows(scene, raw, label):
    lab = raw["labels"].get(LABEL_OF.get(label, label))
    if lab is None:
        return None, 0
    data = lab["data"] or []
    rows = []
    for start, size, ob, da in lab["rows"] or []:
        content = data[start:start + size]
        if label == "PGIDS":
            content = [scene.pg_sid.get(c, c) for c in content]
        rows.append((start, size, scene.slot_of(ob), 0 if da.startswith("{00000000") else scene.data_sid.get(da, da),
                     tuple(content)))
    return rows, len(data)


def got_attrs(scene, raw):
    recs = []
    for r in raw["attrs"] or []:
        if "ID" not in r:
            recs.append(("empty", 0, "", (), (), "", True, True))
            continue
        uid = r["ID"]
        if "Object Type ID" in r:
            keys = tuple(sorted((k[len("Property:"):], scene.data_sid.get(v, v)) for k, v in r.items() if k.startswith("Property:")))
            recs.append(("hole", scene.slot_of(uid), "", keys, (), "", bool(r.get("Allow delete", True)), bool(r.get("Public", True))))
        elif "Type ID" in r:
            recs.append(("data", scene.data_sid.get(uid, uid), r.get("Name"), (), (), "", bool(r.get("Allow delete", True)), True))
        else:
            recs.append(("pg", scene.pg_sid.get(uid, uid), r.get("Group Name"), (),
                         tuple(scene.data_sid.get(p, p) for p in r.get("Properties") or []), r.get("Property Group Type", ""), True, True))
    return Counter(recs)


def _blocks(rows):
    """rows [[hole, tok...]] -> {hole: [rows]}; None when a hole's rows are not contiguous."""
    out = {}
    last = None
    for r in rows:
        h = r[0]
        if h != last and h in out:
            return None
        out.setdefault(h, []).append(list(r[1:]))
        last = h
    return out


def same_table(a, b):
    """Equality of two exported tables up to the order of the per-hole blocks."""
    if a["out"] != b["out"] or _seq(a["names"]) != _seq(b["names"]):
        return False
    return _blocks([_seq(r) for r in _seq(a["rows"])]) == _blocks([_seq(r) for r in _seq(b["rows"])])


def table_deviation(t, devs=None):
    """Name of the as-built deviation a table entry of an exported state exhibits (or None).
    devs: the deviations the graph was exported with (None = any)."""
    if t["loose"]:
        return "StalePgIdCache"
    if same_table(t["pred"], t["ideal"]):
        return None
    if t.get("dirty"):  # a renamed data set whose slice stayed under the old label
        return "RenameKeepsLabel"
    if t["ideal"]["out"] == "ok" and not _seq(t["ideal"]["rows"]) and t["pred"]["out"] == "raises" \
            and (devs is None or "EmptyTableRaises" in devs):
        return "EmptyTableRaises"
    return "TableByLabel"


# ---------------------------------------------------------------------- comparison of one state
def compare_state(scene, st, after_reopen=False, findings=None):
    """Raise Mismatch when the implementation differs from the exported state `st`."""
    findings = findings if findings is not None else []
    if st["s"]["broken"]:
        return
    if st["s"].get("grp", "live") == "removed":
        problems = scene.observe_removed()
        if problems:
            raise Mismatch("group-removal", f"after workspace.remove_entity(group): {problems[:4]}")
        return
    # (1) API view
    want = exp_api(st)
    got = got_api(scene)
    if set(want) != set(got):
        raise Mismatch("api-holes", f"live holes {sorted(got)} expected {sorted(want)}")
    for h in sorted(want):
        if want[h]["names"] != got[h]["names"]:
            raise Mismatch("api-names", f"hole {h}: get_data_list {got[h]['names']} expected {want[h]['names']}")
        for n, v in want[h]["vals"].items():
            if got[h]["vals"].get(n) != v:
                raise Mismatch("api-readback", f"hole {h} data {n}: read {got[h]['vals'].get(n)} expected {v}")
        if want[h]["ad"] != got[h]["ad"]:
            raise Mismatch("api-allow-delete", f"hole {h}: allow_delete {got[h]['ad']} expected {want[h]['ad']}")
        if want[h]["pub"] != got[h]["pub"]:
            raise Mismatch("api-public", f"hole {h}: public {got[h]['pub']} expected {want[h]['pub']}")
        for n, flag in got[h]["data_ad"].items():
            if want[h]["data_ad"].get(n, flag) != flag:
                raise Mismatch("api-allow-delete", f"hole {h} data {n}: allow_delete {flag} expected {want[h]['data_ad'][n]}")
        if want[h]["children"] != got[h]["children"]:
            raise Mismatch("api-children", f"hole {h}: data in hole.children {got[h]['children']} expected {want[h]['children']}")
        if want[h]["pgs"] != got[h]["pgs"]:
            raise Mismatch("api-property-groups", f"hole {h}: property groups {got[h]['pgs']} expected {want[h]['pgs']}")
    gch = scene.observe_group_children()
    if gch != sorted(_seq(st["s"]["gch"])):
        raise Mismatch("api-group-children", f"holes in group.children {gch} expected {sorted(_seq(st['s']['gch']))}")
    plain = st["s"].get("plain", "none")
    if plain != "none":
        live, problems = scene.observe_plain()
        if live != (plain == "live"):
            raise Mismatch("plain-child-live", f"plain child in group.children: {live}, expected state {plain}")
        if bool(problems) != (plain == "dangling"):
            raise Mismatch("plain-child-layout", f"file layout problems {problems[:2]}, expected state {plain}")
    # (2) raw datasets
    raw = scene.observe_raw(with_attrs=after_reopen)
    want_labels = {LABEL_OF.get(x, x) for x in _seq(st["s"]["labels"])}
    got_labels = set(raw["labels"])
    if want_labels != got_labels:
        raise Mismatch("raw-labels", f"labels in file {sorted(got_labels)} expected {sorted(want_labels)}")
    for label in _seq(st["s"]["labels"]):
        erows, en = exp_rows(st, label)
        grows, gn = got_rows(scene, raw, label)
        tiled_spec = not tiling_defects([r[:4] for r in erows], en)
        defects = tiling_defects([r[:4] for r in grows or []], gn)
        if defects and tiled_spec:
            raise Mismatch("raw-not-tiled", f"label {label}: {defects}; rows {[r[:4] for r in grows]} over {gn} values")
        if Counter(r[2:] for r in erows) != Counter(r[2:] for r in grows or []):
            raise Mismatch("raw-owner-content", f"label {label}: rows (owner, data, values) {sorted(map(str, (r[2:] for r in grows or [])))} "
                                                f"expected {sorted(map(str, (r[2:] for r in erows)))}")
    want_ids = sorted(_seq(st["s"]["objIds"]))
    got_ids = sorted(scene.slot_of(x) for x in raw["objids"] or [])
    if want_ids != got_ids:
        raise Mismatch("raw-object-ids", f"Concatenated object IDs {got_ids} expected {want_ids}")
    if after_reopen:
        enc = {20: "blob", 21: "list"}[st["version"]]
        if raw["enc"] != enc:
            raise Mismatch("raw-attribute-encoding", f"attribute encoding {raw['enc']} expected {enc}")
        wa, ga = exp_attrs(st), got_attrs(scene, raw)
        if wa != ga:
            raise Mismatch("raw-attribute-records", f"records only in file {sorted(map(str, (ga - wa).elements()))}; "
                                                    f"only expected {sorted(map(str, (wa - ga).elements()))}")
    # (3) group-wide tables
    for pg in PG_NAMES:
        t = st["tables"][pg]
        pred, ideal = t["pred"], t["ideal"]
        got_t = scene.observe_table(pg)
        kind = "raises" if got_t["out"].startswith("raises") else got_t["out"]
        ok = kind == pred["out"]
        if ok and kind == "ok":
            gb, wb = _blocks(got_t["rows"]), _blocks([_seq(r) for r in _seq(pred["rows"])])
            ok = got_t["names"] == ["Drillhole"] + _seq(pred["names"]) and gb is not None and gb == wb
        if t["loose"]:
            if ok:
                continue
            if kind == "raises":
                findings.append(("asbuilt:StalePgIdCache", f"table {pg} raises {got_t['out']} while a removed property group is still cached"))
                continue
        if not ok:
            raise Mismatch("table-view", f"table {pg}: got {got_t} expected {pred}")
        dev = table_deviation(t, _seq(st.get("devs")) if "devs" in st else None)
        if dev:
            findings.append((f"asbuilt:{dev}",
                             f"table {pg}: implementation gives {pred['out']} {_seq(pred['rows'])}, the property requires {ideal['out']} {_seq(ideal['rows'])}"))


def compare_copy(scene, st, edge, findings):
    """The group copied by the last action must hold the source's holes and values."""
    from geoh5py import Workspace
    info = scene.copies[-1]
    want = exp_api(st)
    holes = _seq(edge["args"]["holes"])
    ws = scene.ws if info["ws"] is None else info["ws"]
    grp = ws.get_entity(info["uid"])[0]
    by_name = {}
    for c in grp.children:
        if hasattr(c, "get_data_list"):
            by_name.setdefault(c.name, []).append(c)
    if sorted(by_name) != sorted(f"H{h}" for h in holes) or any(len(v) != 1 for v in by_name.values()):
        raise Mismatch("copy-holes", f"copy holds holes {sorted(by_name)} expected {sorted('H%d' % h for h in holes)}")
    snap = {}
    for h in holes:
        hole = by_name[f"H{h}"][0]
        rec = scene.observe_api(holes={h: hole})[h]
        vals = {n: (MISSING if v == "missing" else NONE if v is None else v) for n, v in rec["values"].items()}
        wv = want[h]["vals"] if h in want else {}
        if vals != wv:
            raise Mismatch("copy-values", f"copy of hole {h} reads {vals} expected {wv}")
        snap[h] = vals
    info["snap"] = snap
    if info["ws"] is not None:  # other workspace: close it now (its attribute dict is shared with the source)
        info["ws"].close()
        info["ws"] = None


def recheck_copies(scene):
    """At the end of a path every copy must still read what it read when it was made."""
    from geoh5py import Workspace
    for info in scene.copies:
        if "snap" not in info:
            continue
        if info["same"]:
            ws, close = scene.ws, False
        else:
            ws, close = Workspace(info["path"], mode="r"), True
        try:
            grp = ws.get_entity(info["uid"])[0]
            if grp is None:
                raise Mismatch("copy-lost", "the copied group is no longer in its workspace")
            for c in grp.children:
                if not hasattr(c, "get_data_list") or not c.name.startswith("H"):
                    continue
                h = int(c.name[1:])
                if h not in info["snap"]:
                    continue
                rec = scene.observe_api(holes={h: c})[h]
                vals = {n: (MISSING if v == "missing" else NONE if v is None else v) for n, v in rec["values"].items()}
                if vals != info["snap"][h]:
                    raise Mismatch("copy-changed-later", f"copy of hole {h} now reads {vals}, read {info['snap'][h]} when copied")
        finally:
            if close:
                ws.close()


# ---------------------------------------------------------------------- replay of one path
def replay_path(item):
    """item = {"version", "steps": [{"edge": label json, "state": state json}], "tail": optional reopen step}
    Returns {"violations": [...], "findings": [(sig, text)], "steps": n}."""
    from .pool import scratch
    base = scratch()
    work = tempfile.mkdtemp(prefix="c04_", dir=base)
    findings = []
    viol = []
    done = 0
    scene = None
    try:
        scene = Scene(work, version=item["version"], kind=item.get("kind", "float"), plain_child=bool(item.get("plain_child")))
        steps = list(item["steps"]) + ([item["tail"]] if item.get("tail") else [])
        for step in steps:
            edge, st = step["edge"], step["state"]
            out, exc = scene.apply(edge["act"], {k: v for k, v in edge["args"].items() if k != "x"})
            done += 1
            kind = "ok" if out == "ok" else "exception"
            want = "ok" if edge["out"] == "ok" else "exception"
            if isinstance(exc, LookupError) and str(exc).startswith("harness:"):
                raise Mismatch("harness-lookup", str(exc))
            if kind != want:
                raise Mismatch("outcome", f"{edge['act']} {edge['args']}: {out} ({str(exc)[:160]}) expected {edge['out']}")
            if st["s"]["broken"]:
                for d in _seq(edge.get("dev")):
                    findings.append((f"asbuilt:{d}", f"{edge['act']} {edge['args']} -> {out}"))
                break
            compare_state(scene, st, after_reopen=edge["act"] == "Reopen", findings=findings)
            if edge["act"] == "CopyGroup" or (edge["act"] == "CopyPurge" and out == "ok"):
                compare_copy(scene, st, edge, findings)
            for d in _seq(edge.get("dev")):
                findings.append((f"asbuilt:{d}", f"{edge['act']} {edge['args']} behaves as the named deviation predicts"))
        else:
            recheck_copies(scene)
    except Mismatch as m:
        viol.append({"signature": m.signature, "summary": f"step {done}: {m.summary}",
                     "case": {"version": item["version"], "kind": item.get("kind", "float"),
                              "plain_child": bool(item.get("plain_child")), "steps": item["steps"][:done], "tail": None}})
    except Exception as exc:  # pylint: disable=broad-except
        # an exception raised INSIDE geoh5py while the harness merely observes the state (reading a hole, loading the file
        # with a fresh reader) is an answer of the implementation, not a failure of the machinery
        import traceback
        frames = traceback.extract_tb(exc.__traceback__)
        if not frames or "/geoh5py/" not in frames[-1].filename.replace("\\", "/"):
            raise
        viol.append({"signature": f"observation-raises:{type(exc).__name__}",
                     "summary": f"step {done}: reading the state back raised {type(exc).__name__}: {str(exc)[:200]} "
                                f"(at {os.path.basename(frames[-1].filename)}:{frames[-1].lineno})",
                     "case": {"version": item["version"], "kind": item.get("kind", "float"),
                              "plain_child": bool(item.get("plain_child")), "steps": item["steps"][:done], "tail": None}})
    finally:
        if scene is not None:
            scene.close()
        shutil.rmtree(work, ignore_errors=True)
    return {"violations": viol, "findings": findings, "steps": done, "mismatch_step": done if viol else None}
