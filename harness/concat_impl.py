"""C04 - implementation side of the DrillholeConcat conformance check.

A `Scene` owns one real geoh5 file with one concatenating DrillholeGroup.  `apply(action)` runs one
abstract action of spec/concat/DrillholeConcat.tla through the public geoh5py API and returns its
outcome; `observe()` returns the abstract state of the implementation in the vocabulary of the
specification (hole slots, data ids, value tokens), read through the API and - for the raw
`Concatenated Data/...` datasets - with plain h5py.

Tokens: every depth / value element is an integer token chosen by the specification; token t is
stored as float(t) (exact in float32 for t < 2**24); the no-data token is -1 (nan in the API,
FLOAT_NDV in the file).
"""
from __future__ import annotations

import json
import os
import re
import uuid

import numpy as np

NDV = -1
FLOAT_NDV = 1.17549435e-38
ZERO = "{00000000-0000-0000-0000-000000000000}"
OBJECT_LABELS = ("Surveys", "Trace", "Property Group IDs")


def _floats(tokens):
    return np.array([np.nan if t == NDV else float(t) for t in tokens], dtype=float)


_LABEL = re.compile(r"^(?:s|longer-label-|t)(\d+)$")


def _texts(tokens):
    """Value tokens -> TEXT labels of different lengths: write version 1 short, version 2 long, "" = no data."""
    out = []
    for t in tokens:
        if t == NDV:
            out.append("")
        else:
            out.append({1: "s", 2: "longer-label-"}.get((t // 10) % 10, "t") + str(t))
    return np.array(out, dtype=str) if out else np.array([], dtype="<U1")


def _tokens(values, raw=False):
    """Values -> tokens.  API reads: nan / "" is the no-data token.  Raw file reads: FLOAT_NDV / "" is."""
    if values is None:
        return None
    out = []
    for v in np.asarray(values).ravel().tolist():
        if isinstance(v, bytes):
            v = v.decode("utf-8", "replace")
        if v is None:
            out.append(NDV)
        elif isinstance(v, str):
            m = _LABEL.match(v)
            if v == "":
                out.append(NDV)
            elif m:
                out.append(int(m.group(1)))
            else:
                try:  # a table with TEXT columns renders its numeric columns as text too ('11011.0')
                    f = float(v)
                    out.append(NDV if np.isnan(f) else int(f) if f == int(f) else f)
                except ValueError:
                    out.append(v)
        elif isinstance(v, float) and np.isnan(v):
            out.append("nan-in-file" if raw else NDV)
        elif raw and isinstance(v, float) and abs(v - FLOAT_NDV) < 1e-40:
            out.append(NDV)
        elif float(v) == int(v):
            out.append(int(v))
        else:
            out.append(float(v))
    return out


def _brace(uid):
    return "{" + str(uid) + "}"


def outcome_of(exc):
    return "ok" if exc is None else "raises:" + type(exc).__name__


class Scene:
    """One drillhole group in one file; `ids` maps specification ids to real uids and back."""

    def __init__(self, directory, version=21, tag="c04", kind="float", plain_child=False):
        from geoh5py import Workspace
        from geoh5py.groups import DrillholeGroup
        self.version = version
        self.path = os.path.join(directory, f"{tag}_{uuid.uuid4().hex[:8]}.geoh5")
        self.ws = Workspace.create(self.path, version={20: 2.0, 21: 2.1}[version])
        self.group = DrillholeGroup.create(self.ws, name="G")
        self.group_uid = self.group.uid
        self.kind = kind  # primitive type of the payload data: "float" | "text"
        if plain_child:  # a non-concatenated child next to the holes (Concatenator.copy treats it separately)
            self.group.add_comment("a plain child of the drillhole group")
        self.plain_uid = self.group.comments.uid if self.group.comments is not None else None
        self.hole_uid = {}  # slot -> uid
        self.holes = {}  # slot -> live python object
        self.data_sid = {}  # braced uid string -> specification id (int) of a data set
        self.pg_sid = {}  # braced uid string -> specification id of a property group
        self.copies = []  # [(workspace or None, path, group uid, expected snapshot)]
        self.n_copies = 0
        self.directory = directory

    # ------------------------------------------------------------------ helpers
    def slot_of(self, braced):
        for h, uid in self.hole_uid.items():
            if _brace(uid) == braced:
                return h
        return braced  # unknown owner

    def hole(self, h):
        return self.holes[h]

    def _first_data(self, h, name):
        found = self.hole(h).get_data(name)
        if not found:
            raise LookupError(f"harness: hole {h} has no data named {name}")
        return found[0]

    def register_new(self, h, sids):
        """Give specification ids to the entities of hole h that were created by the last action.
        sids: {name: sid} for data, {"pg:<name>": sid} for property groups."""
        hole = self.hole(h)
        for child in hole.children:
            key = _brace(child.uid)
            if hasattr(child, "properties"):
                if key not in self.pg_sid and f"pg:{child.name}" in sids:
                    self.pg_sid[key] = sids[f"pg:{child.name}"]
            elif key not in self.data_sid and child.name in sids:
                self.data_sid[key] = sids[child.name]

    # ------------------------------------------------------------------ actions
    def apply(self, act, args):
        """Run one action; returns (outcome string, exception or None)."""
        try:
            getattr(self, "_" + act)(**args)
            return "ok", None
        except Exception as exc:  # pylint: disable=broad-except
            return outcome_of(exc), exc

    def _Populate(self, steps, **_):
        for step in steps:
            getattr(self, "_" + step["act"])(**step["args"])

    def _AddHole(self, h, surveys=None, **_):
        from geoh5py.objects import Drillhole
        dep = surveys if surveys is not None else [h * 10 + 1, h * 10 + 2]
        surv = np.c_[_floats(dep), np.zeros(len(dep)), -90.0 * np.ones(len(dep))]
        hole = Drillhole.create(self.ws, parent=self.group, name=f"H{h}", collar=[float(h), 0.0, 0.0], surveys=surv)
        self.holes[h] = hole
        self.hole_uid[h] = hole.uid

    def _payload(self, tokens):
        return _texts(tokens) if self.kind == "text" else _floats(tokens)

    def _add_table_data(self, h, name, kind, assoc, vals, new=None, **_):
        spec = {"values": self._payload(vals)}
        if self.kind == "text":
            spec["type"] = "TEXT"
        if kind == "D":
            spec["depth"] = _floats(assoc[0])
        else:
            spec["from-to"] = np.c_[_floats(assoc[0]), _floats(assoc[1])]
        try:
            self.hole(h).add_data({name: spec})
        finally:
            if new:
                sids = {name: new["data"]}
                if new.get("pg"):
                    sids["pg:" + ("depth_0" if kind == "D" else "Interval_0")] = new["pg"]
                for an, sid in zip(("DEPTH",) if kind == "D" else ("FROM", "TO"), new.get("assoc") or []):
                    if sid:
                        sids[an] = sid
                self.register_new(h, sids)

    _AddDepthData = _add_table_data
    _AddIntervalData = _add_table_data

    def _SetValues(self, h, name, vals, **_):
        self._first_data(h, name).values = self._payload(vals)

    def _Rename(self, h, name, new, **_):
        self._first_data(h, name).name = new

    def _RemovePlainChild(self, via, **_):
        child = self.group.comments
        if child is None:
            raise LookupError("harness: the group has no plain child")
        if via == "ws":
            self.ws.remove_entity(child)
        else:
            self.group.remove_children([child])

    def _CopyEdit(self, h, name="", **_):
        """Copy the group to another workspace, edit the COPY, then ask the SOURCE whether it is still whole."""
        from geoh5py import Workspace
        self.n_copies += 1
        path = self.path.replace(".geoh5", f"_edit{self.n_copies}.geoh5")
        other = Workspace.create(path, version={20: 2.0, 21: 2.1}[self.version])
        try:
            copy = self.group.copy(parent=other, name=f"edit{self.n_copies}")
            hole = [c for c in copy.children if c.name == f"H{h}"][0]
            if name == "":
                copy.remove_children([hole])
            else:
                hole.remove_children([hole.get_data(name)[0]])
        finally:
            other.close()
        ids = [x.decode() if isinstance(x, bytes) else str(x) for x in self.group.concatenated_object_ids or []]
        recs = {r.get("ID") for r in self.group.concatenated_attributes["Attributes"]}
        wanted = {_brace(self.hole_uid[x]) for x in self.holes}
        if not wanted <= set(ids) or not wanted <= recs:
            raise RuntimeError("source changed: an edit of the copy removed object ids / records of the source")
        if name != "":
            src = self._first_data(h, name)
            if _brace(src.uid) not in recs or f"Property:{name}" not in self.group.get_concatenated_attributes(self.hole_uid[h]):
                raise RuntimeError("source changed: an edit of the copy removed a data record / key of the source")

    def _CopyPurge(self, holes=None, **_):
        """Copy to another workspace, create and remove an unrelated group there in the same session, close, re-open
        the target and read every data set of every hole of the copy (any exception is the outcome)."""
        from geoh5py import Workspace
        from geoh5py.groups import ContainerGroup
        self.n_copies += 1
        path = self.path.replace(".geoh5", f"_purge{self.n_copies}.geoh5")
        other = Workspace.create(path, version={20: 2.0, 21: 2.1}[self.version])
        try:
            copy = self.group.copy(parent=other, name=f"purge{self.n_copies}")
            uid = copy.uid
            other.remove_entity(ContainerGroup.create(other, name="unrelated"))
        finally:
            other.close()
        again = Workspace(path)
        try:
            group = again.get_entity(uid)[0]
            for hole in group.children:
                if hasattr(hole, "get_data_list"):
                    for name in hole.get_data_list():
                        for data in hole.get_data(name):
                            _ = data.values, data.entity_type.primitive_type
        except Exception:
            again.close()
            raise
        self.copies.append({"ws": again, "uid": uid, "same": False, "path": path})

    def _AddObjectData(self, h, vals, new=None, **_):
        try:
            self.hole(h).add_data({"o": {"association": "OBJECT", "values": _floats(vals)}})
        finally:
            if new:
                self.register_new(h, {"o": new})

    def _AddBadData(self, h, name, depths, new=None, **_):
        try:  # INTEGER data given decimals: the constructor raises after the parent was set
            self.hole(h).add_data({name: {"depth": _floats(depths), "values": np.array([0.5] * len(depths)), "type": "INTEGER"}})
        finally:
            if new:
                self.register_new(h, {name: new})

    def _ReopenRemoveHole(self, h, **_):
        from geoh5py import Workspace
        self.ws.close()
        self.ws = Workspace(self.path)
        self.group = self.ws.get_entity(self.group_uid)[0]
        by_uid = {c.uid: c for c in self.group.children}
        self.holes = {x: by_uid[uid] for x, uid in self.hole_uid.items() if uid in by_uid}
        self.group.remove_children([self.holes[h]])  # nothing of the hole has been read in this session
        self.holes.pop(h)

    def _SaveHoleAgain(self, h, **_):
        self.ws.save_entity(self.hole(h))

    def _SetPublic(self, h, **_):
        self.hole(h).public = False

    def _ReopenRemoveGroup(self, h, pg, via, **_):
        from geoh5py import Workspace
        self.ws.close()
        self.ws = Workspace(self.path)
        self.group = self.ws.get_entity(self.group_uid)[0]
        by_uid = {c.uid: c for c in self.group.children}
        self.holes = {x: by_uid[uid] for x, uid in self.hole_uid.items() if uid in by_uid}
        hole = self.holes[h]  # none of its data has been read in this session
        found = [g for g in (hole.property_groups or []) if g.name == pg]
        if not found:
            raise LookupError(f"harness: hole {h} has no property group {pg} after re-open")
        if via == "ws":
            self.ws.remove_entity(found[0])
        else:
            hole.remove_children([found[0]])

    def _RemoveGroup(self, **_):
        group = self.group
        self.holes = {}
        self.ws.remove_entity(group)

    def observe_removed(self):
        """After RemoveGroup: problems (empty = the group, its holes, their data and its plain child are gone)."""
        from geoh5py import Workspace
        from . import h5snap
        problems = []
        gid = _brace(self.group_uid)
        pid = _brace(self.plain_uid) if self.plain_uid is not None else None

        def raw(handle, when):
            root = handle[list(handle)[0]]
            if gid in root["Groups"]:
                problems.append(f"{when}: Groups/{gid} still in the file")
            if pid is not None and pid in root["Data"]:
                problems.append(f"{when}: flat node Data/{pid} of the group's plain child still in the file")
            problems.extend(f"{when}: {p}" for p in h5snap.wellformed(h5snap.snapshot(handle)))

        if any(c.uid == self.group_uid for c in self.ws.root.children):
            problems.append("the group is still a child of the root")
        raw(self.ws.geoh5, "open")
        self.ws.close()
        import h5py
        with h5py.File(self.path, "r") as handle:
            raw(handle, "closed")
        self.ws = Workspace(self.path)
        if self.ws.get_entity(self.group_uid)[0] is not None:
            problems.append("the group is back after re-open")
        return problems

    def _Protect(self, h, name="", **_):
        (self.hole(h) if name == "" else self._first_data(h, name)).allow_delete = False

    def _RemoveDataViaWorkspace(self, h, name, **_):
        self.ws.remove_entity(self._first_data(h, name))

    def _RemoveDataViaParent(self, h, name, **_):
        self.hole(h).remove_children([self._first_data(h, name)])

    def _RemoveHoleViaWorkspace(self, h, **_):
        self.ws.remove_entity(self.holes[h])
        self.holes.pop(h)  # a removed hole is never touched again by the harness (a refused removal keeps it)

    def _RemoveHoleViaParent(self, h, **_):
        self.group.remove_children([self.holes[h]])
        self.holes.pop(h)

    def _RemovePropertyGroup(self, h, pg, via, **_):
        found = self.hole(h).get_property_group(pg)
        if not found or found[0] is None:
            raise LookupError(f"harness: hole {h} has no property group {pg}")
        if via == "ws":
            self.ws.remove_entity(found[0])
        else:
            self.hole(h).remove_children([found[0]])

    def _AddValuesToTable(self, pg, name, vals, new=None, **_):
        try:
            self.group.drillholes_tables[pg].add_values_to_property_group(name, self._payload(vals))
        finally:
            for item in new or []:
                if item["h"] in self.holes:
                    self.register_new(item["h"], {name: item["data"]})

    def _Reopen(self, **_):
        from geoh5py import Workspace
        self.ws.close()
        self.ws = Workspace(self.path)
        self.group = self.ws.get_entity(self.group_uid)[0]
        self.holes = {}
        by_uid = {c.uid: c for c in self.group.children}
        for h, uid in self.hole_uid.items():
            if uid in by_uid:
                self.holes[h] = by_uid[uid]

    def _CopyGroup(self, mode, holes=None, **_):
        from geoh5py import Workspace
        self.n_copies += 1
        if mode == "same":
            new = self.group.copy(name=f"copy{self.n_copies}")
            self.copies.append({"ws": None, "uid": new.uid, "same": True})
        else:
            path = self.path.replace(".geoh5", f"_copy{self.n_copies}.geoh5")
            other = Workspace.create(path, version={20: 2.0, 21: 2.1}[self.version])
            new = self.group.copy(parent=other, name=f"copy{self.n_copies}")
            self.copies.append({"ws": other, "uid": new.uid, "same": False, "path": path})

    def close(self):
        for c in self.copies:
            if c["ws"] is not None:
                try:
                    c["ws"].close()
                except Exception:  # pylint: disable=broad-except
                    pass
        try:
            self.ws.close()
        except Exception:  # pylint: disable=broad-except
            pass

    # ------------------------------------------------------------------ observation
    def observe_api(self, group=None, holes=None, name_of=None):
        """{slot: {"names": [...], "values": {name: tokens | None | "missing"}, "pgs": {...}}}"""
        out = {}
        holes = self.holes if holes is None else holes
        for h, hole in sorted(holes.items()):
            rec = {"names": None, "values": {}, "pgs": {}, "children": None, "ad": bool(hole.allow_delete), "data_ad": {},
                   "pub": bool(hole.public)}
            try:
                names = list(hole.get_data_list())
            except Exception as exc:  # pylint: disable=broad-except
                rec["names"] = outcome_of(exc)
                out[h] = rec
                continue
            rec["names"] = sorted(names)
            for name in names:
                try:
                    found = hole.get_data(name)
                    if not found:
                        rec["values"][name] = "missing"
                    else:
                        rec["values"][name] = _tokens(found[0].values)
                        rec["data_ad"][name] = bool(found[0].allow_delete)
                        if len(found) > 1:
                            rec["values"][name] = {"several": [_tokens(d.values) for d in found]}
                except Exception as exc:  # pylint: disable=broad-except
                    rec["values"][name] = outcome_of(exc)
            rec["children"] = sorted(c.name for c in hole.children if hasattr(c, "values") and hasattr(c, "association"))
            try:
                for pg in hole.property_groups or []:
                    props = []
                    for uid in pg.properties or []:
                        ent = [c for c in hole.children if c.uid == uid]
                        props.append(ent[0].name if ent else "?")
                    rec["pgs"][pg.name] = {"type": pg.property_group_type, "props": props}
            except Exception as exc:  # pylint: disable=broad-except
                rec["pgs"] = outcome_of(exc)
            out[h] = rec
        return out

    def observe_plain(self):
        """(comment in group.children, layout problems of the file concerning the group's containers)"""
        from . import h5snap
        live = self.group.comments is not None
        problems = [p for p in h5snap.wellformed(h5snap.snapshot(self.ws.geoh5)) if str(self.group_uid) in p]
        return live, problems

    def observe_group_children(self):
        return sorted(self.slot_of(_brace(c.uid)) for c in self.group.children if hasattr(c, "get_data_list"))

    def observe_raw(self, handle=None, group_uid=None, with_attrs=False):
        """Raw datasets of the group read with plain h5py from the open file handle."""
        f = self.ws.geoh5 if handle is None else handle
        root = f[list(f)[0]]
        g = root["Groups"][_brace(self.group_uid if group_uid is None else group_uid)]
        cd = g["Concatenated Data"]
        labels = {}
        names = set(cd["Index"]) | set(cd["Data"]) | {k for k in cd if k in OBJECT_LABELS}
        for lab in sorted(names):
            idx = cd["Index"].get(lab)
            arr = cd["Data"].get(lab)
            if arr is None:
                arr = cd.get(lab)
            rows = None
            if idx is not None:
                rows = [(int(r[0]), int(r[1]), r[2].decode() if isinstance(r[2], bytes) else str(r[2]),
                         r[3].decode() if isinstance(r[3], bytes) else str(r[3])) for r in idx[:]]
            data = None
            if arr is not None:
                vals = arr[:]
                if vals.dtype.names:  # Surveys: keep the Depth column
                    data = _tokens(vals[vals.dtype.names[0]], raw=True)
                elif vals.dtype.kind in "OSU":  # uid strings stay as they are, TEXT labels become tokens
                    data = _tokens(vals, raw=True)
                else:
                    data = _tokens(vals, raw=True)
            labels[lab.replace("⁄", "/")] = {"rows": rows, "data": data}
        out = {"labels": labels}
        oid = g.get("Concatenated object IDs")
        out["objids"] = None if oid is None else [v.decode() if isinstance(v, bytes) else str(v) for v in oid[:].tolist()]
        if with_attrs:
            recs = None
            enc = None
            if "Attributes Jsons" in cd:
                enc = "list"
                recs = [json.loads(v.decode() if isinstance(v, bytes) else v) for v in cd["Attributes Jsons"][()].tolist()]
            if "Attributes" in cd:
                enc = "blob" if enc is None else "both"
                blob = cd["Attributes"][()]
                if isinstance(blob, np.ndarray):
                    blob = blob[0]
                recs2 = json.loads(blob.decode() if isinstance(blob, bytes) else blob)["Attributes"]
                recs = recs2 if recs is None else recs + recs2
            out["attrs"] = recs
            out["enc"] = enc
        return out

    def observe_table(self, pg, group=None, slot_of=None):
        """depth_table of the group-wide table `pg`: ("ok", names, [(slot, tokens...), ...]) or outcome."""
        group = self.group if group is None else group
        slot_of = slot_of or self.slot_of
        try:
            tables = group.drillholes_tables
            if pg not in tables:
                return {"out": "absent"}
            tab = tables[pg].depth_table
            names = list(tab.dtype.names)
            rows = []
            for r in tab.tolist():
                owner = r[0].decode() if isinstance(r[0], bytes) else str(r[0])
                rows.append([slot_of(owner)] + _tokens(list(r[1:])))
            return {"out": "ok", "names": names, "rows": rows}
        except Exception as exc:  # pylint: disable=broad-except
            return {"out": outcome_of(exc), "msg": str(exc)[:120]}


# ---------------------------------------------------------------------- raw-structure analysis
def tiling_defects(rows, n):
    """Return a list of strings describing why `rows` [(start,size,obj,data)] do not tile 0..n."""
    bad = []
    if rows is None:
        return ["no index"] if n else []
    pos = 0
    for start, size, _, _ in sorted(rows, key=lambda r: (r[0], r[1])):
        if start < pos:
            bad.append(f"overlap at {start}")
        elif start > pos:
            bad.append(f"gap {pos}..{start}")
        pos = max(pos, start + size)
    if pos != n:
        bad.append(f"rows cover {pos} of {n} values")
    owners = [(r[2], r[3]) for r in rows]
    if len(set(owners)) != len(owners):
        bad.append("duplicate owner")
    return bad
