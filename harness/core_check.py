"""Factory for the checks decided by spec/core/Geoh5Core.tla (C01 C02 C05 C06 C09 C11 C12)."""
from __future__ import annotations

from . import core_engine, tlc
from .core_replay import replay_path

ASSUME = [
    "small-scope bounds: slot counts, names, value tokens and depth of the cfg files in spec/core (stated per config in coverage.per_config)",
    "entity classes are a refinement parameter: behaviours are replayed with group/object classes rotated over "
    "ContainerGroup, SimPEGGroup, GiftoolsGroup, UIJsonGroup, AirborneTheme, GeophysicsTheme / Points, Curve, Surface, "
    "Grid2D, BlockModel, Label, Octree, NoTypeObject; data are float arrays",
    "GC schedule is driven by the harness (gc disabled, hidden references dropped at the model's Collect)",
    "h5repack is not installed in the sandbox: Workspace.close's repack step fails silently as it does for any user without it",
    "trusted: TLC, h5py, the slot<->uuid binding and projections in harness/core_replay.py, harness/h5snap.py",
]


def ideal(cfg, workers=8):
    res = tlc.run_tlc("core", "Geoh5Core", cfg, workers=workers, keep_lines=False, heap="6g")
    if not res.ok:
        raise tlc.MachineryError(f"the Ideal design violates {res.violated} ({cfg})\n{res.raw_tail[-2000:]}")
    return res


def make(pid, quick, thorough, rule, max_paths_quick=4000, neg=None, concat=None):
    def run(tier, seed):
        cfgs = quick if tier == "quick" else thorough
        jobs = [lambda: ideal("Ideal_quick.cfg" if tier == "quick" else "Ideal_thorough.cfg", workers=4)]
        if neg:
            jobs.append(lambda: tlc.run_tlc("core", "Geoh5Core", neg[0], workers=2, keep_lines=False, heap="4g"))
        viol, cov, side = core_engine.run_cfgs(pid, cfgs, seed, side_jobs=jobs,
                                               max_paths=(max_paths_quick // len(cfgs)) if tier == "quick" else 12000)
        mine = [v for v in viol if v.get("prop") is None or pid in v["prop"]]
        ires = side[0]
        cov["ideal_design"] = {"cfg": "Ideal_" + tier, "distinct_states": ires.distinct, "states_generated": ires.generated,
                               "result": "no invariant violated incl. NoOrphansWhenClosed"}
        cov["states"] += ires.distinct
        cov["transitions"] += ires.generated
        if neg:
            nres = side[1]
            if neg[1] not in nres.violated:
                raise tlc.MachineryError(f"negative control {neg[0]} did not violate {neg[1]}: {nres.violated}")
            cov["negative_control"] = f"{neg[0]} violates {neg[1]} as expected (as-built close keeps unreachable nodes)"
        if concat:
            # concatenated half of the property: decided by spec/concat/DrillholeConcat.tla through the C04 engine
            from .checks import C04
            exports = concat if tier == "quick" else [(c, v, None) for c, v, _ in concat]
            cviol, ccov = C04.run_subset(exports, seed)
            for v in cviol:
                if v["signature"].startswith("asbuilt:"):
                    continue        # recorded findings of C04 itself (reported by ./check C04)
                w = dict(v)
                w["signature"] = "concat:" + v["signature"]
                w["case"] = {"concat": v.get("case")}
                mine.append(w)
            cov["concatenated_half"] = ccov
            cov["states"] += ccov["states"]
            cov["transitions"] += ccov["transitions"]
            cov["traces_validated_against_impl"] += ccov["paths"]
        cov["rule"] = rule
        others = {}
        for v in viol:
            if not (v.get("prop") is None or pid in v["prop"]):
                key = f"{v['signature']} [{v['prop']}]"
                others[key] = others.get(key, 0) + 1
        cov["other_property_signatures"] = others
        cov["other_property_divergences_seen"] = len(viol) - len(mine) if not concat else len(viol) - len([m for m in mine if not m["signature"].startswith("concat:")])
        if cov["steps_compared"] < 200:
            raise tlc.MachineryError("too few steps replayed")
        return {"level": "model_checking", "violations": mine, "coverage": cov, "assumptions": ASSUME}

    def replay(doc):
        case = doc["case"]
        if case is None:
            return {"violations": [], "coverage": {"replayed": 0}}
        if "concat" in case:
            from .checks import C04
            rep = C04.replay({"case": case["concat"]})
            for v in rep["violations"]:
                v["signature"] = "concat:" + v["signature"]
            return rep
        item = {"id": 0, "variant": case.get("variant", 0), "init": case["init"], "steps": case["steps"], "prop": pid}
        v = replay_path(item)
        mine = [x for x in v if x.get("prop") is None or pid in x["prop"]]
        return {"violations": mine, "coverage": {"replayed": 1}}

    return run, replay
