"""C19 helpers: build the file a ReaderFaults.tla state describes, discover the concrete items of
the real HDF5 file, map them to the items of the specification (both ways), delete one item with
raw h5py, open the damaged copy with geoh5py and project every entity through public getters.

File description exported by the spec (JSON of `file`):
  {"nodes": [{"kind": "group"|"object"|"data", "cls": ..., "parent": 0|idx, "rank": int, "ty": tidx}, ...],
   "types": [{"tk": "group"|"object"|"data", "cls": ..., "cmap": bool, "vmap": bool}, ...],
   "pgs":   [{"obj": idx, "members": [idx, ...]}, ...]}
Entities are numbered like in the spec: -1 = project header, 0 = root group, 1..n = nodes,
PG_BASE + p = property group p.
Items are [k, n, a] triples (kind, index of node / type / property group, HDF5 name).
"""
from __future__ import annotations

import contextlib
import hashlib
import os
import random
import shutil
import uuid

import numpy as np

from .tlc import MachineryError

PROJ, ROOT = -1, 0
PG_BASE = 100
BASE = "GEOSCIENCE"
FLAT = {"group": "Groups", "object": "Objects", "data": "Data"}
TYPEFLAT = {"group": "Group types", "object": "Object types", "data": "Data types"}


# ----------------------------------------------------------------------------- deterministic uids
class _Uuids:
    """uuid.uuid4 replacement: seeded, top 16 bits 0x8000 so that explicit uids with top bits
    0x8000 + rank sort (as HDF5 link names) below / above every generated one."""

    def __init__(self, seed):
        self.rng = random.Random(seed)

    def __call__(self):
        return uuid.UUID(int=(0x8000 << 112) | self.rng.getrandbits(112))

    def ranked(self, rank):
        return uuid.UUID(int=((0x8000 + rank) << 112) | self.rng.getrandbits(112))


@contextlib.contextmanager
def seeded_uuids(seed):
    gen = _Uuids(seed)
    old = uuid.uuid4
    uuid.uuid4 = gen
    try:
        yield gen
    finally:
        uuid.uuid4 = old


# ----------------------------------------------------------------------------- build
def _ustr(uid):
    return "{" + str(uid) + "}"


def build(fspec, path, seed):
    """Create the file with the public geoh5py API. Returns the uid maps (strings without braces)."""
    from geoh5py import Workspace
    from geoh5py import objects as gobjects
    from geoh5py.data.color_map import ColorMap
    from geoh5py.groups import ContainerGroup, DrillholeGroup

    if os.path.exists(path):
        os.remove(path)
    maps = {"nodes": {}, "types": {}, "pgs": {}}
    with seeded_uuids(seed) as gen:
        # version 2.0 so that a missing Version shows in the header; files with concatenated storage keep the
        # current 2.1 (the layout of the concatenated attributes depends on it)
        version = 2.1 if any(n["cls"] == "DrillholeGroup" for n in fspec["nodes"]) else 2.0
        ws = Workspace.create(path, contributors=("alice", "bob"), distance_unit="feet",
                              ga_version="4.2", version=version)
        try:
            ents = {ROOT: ws.root}
            maps["nodes"][ROOT] = str(ws.root.uid)
            maps["types"][1] = str(ws.root.entity_type.uid)
            for idx, node in enumerate(fspec["nodes"], 1):
                parent = ents[node["parent"]]
                name = f"{node['kind'][0]}{idx}"
                common = {"name": name, "allow_rename": False, "allow_delete": False}
                if node["cls"] == "DrillholeGroup":
                    ent = DrillholeGroup.create(ws, parent=parent, uid=gen.ranked(node["rank"]),
                                                visible=False, public=False, allow_move=False, **common)
                elif node["cls"] == "Drillhole":
                    # concatenated storage: the hole and its log live in the datasets of the drillhole group
                    ent = gobjects.Drillhole.create(
                        ws, parent=parent, collar=np.r_[1.0 + idx, 10.0, 10.0],
                        surveys=np.c_[np.linspace(0, 100, 3), np.ones(3) * 45.0, np.linspace(-89, -75, 3)],
                        visible=False, public=False, allow_move=False, **common)
                    ent.add_data({"log": {"depth": np.arange(0, 3.0), "values": np.arange(3.0) + 10 * idx}})
                elif node["kind"] == "group":
                    ent = ContainerGroup.create(ws, parent=parent, uid=gen.ranked(node["rank"]),
                                                visible=False, public=False, allow_move=False, **common)
                elif node["kind"] == "object":
                    cls = getattr(gobjects, node["cls"])
                    kw = dict(common, parent=parent, visible=False, public=False, allow_move=False)
                    verts = np.array([[0.0, 0.5, 1.0], [1.0, 1.5, 2.0], [2.0, 2.5, 4.0]]) + idx
                    if node["cls"] == "Points":
                        kw["vertices"] = verts
                    elif node["cls"] == "Curve":
                        kw.update(vertices=verts, cells=np.array([[0, 1], [1, 2]], dtype="uint32"))
                    elif node["cls"] == "Surface":
                        kw.update(vertices=verts, cells=np.array([[0, 1, 2]], dtype="uint32"))
                    elif node["cls"] == "Grid2D":
                        kw.update(origin=[1.0 + idx, 2.0, 3.0], u_cell_size=2.0, v_cell_size=3.0, u_count=3,
                                  v_count=1, rotation=30.0, vertical=True)
                    else:
                        raise MachineryError(f"unknown object class {node['cls']}")
                    ent = cls.create(ws, **kw)
                else:
                    prim = node["cls"]
                    shared = maps["types"].get(node["ty"])
                    attr = dict(common, visible=True, public=False, allow_move=False, modifiable=False)
                    if prim == "text":
                        attr.update(values=f"text of {name}", association="OBJECT", type="text")
                    else:
                        assoc = "CELL" if type(parent).__name__ == "Grid2D" else "VERTEX"
                        attr["association"] = assoc
                        if prim in ("float", "floatcmap"):
                            attr["values"] = np.array([idx + 0.5, np.nan, idx + 2.5])
                        elif prim == "int":
                            attr["values"] = np.array([idx, 2, 3], dtype="int32")
                        elif prim == "ref":
                            attr.update(type="referenced", values=np.array([1, 2, 1], dtype="uint32"),
                                        value_map={1: f"a{idx}", 2: "b"})
                        else:
                            raise MachineryError(f"unknown primitive {prim}")
                    if shared is not None:
                        attr.pop("type", None)
                        attr.pop("value_map", None)
                        attr["entity_type"] = [t for t in ws.types if str(t.uid) == shared][0]
                    ent = parent.add_data({name: attr})
                    if shared is None:
                        ent.entity_type.description = f"type of {name}"
                        if prim == "floatcmap":
                            ent.entity_type.color_map = ColorMap(
                                name="cm.tbl",
                                values=np.array([[0.0, 1.0, 2.0], [10, 20, 30], [1, 2, 3], [4, 5, 6], [255, 255, 255]]).T)
                if node["cls"] == "Drillhole":
                    for tname, tcls in (("DEPTH", "catdepth"), ("log", "catlog")):
                        tidx = [t for t, ty in enumerate(fspec["types"], 1) if ty.get("cls") == tcls]
                        tuid = [str(t.uid) for t in ws.types if t.name == tname]
                        if len(tidx) != 1 or len(tuid) != 1:
                            raise MachineryError(f"build: concatenated data type {tname}: {tidx} {tuid}")
                        maps["types"][tidx[0]] = tuid[0]
                ents[idx] = ent
                maps["nodes"][idx] = str(ent.uid)
                tuid = str(ent.entity_type.uid)
                if maps["types"].setdefault(node["ty"], tuid) != tuid:
                    raise MachineryError(f"build: node {idx} did not get type {node['ty']} of the spec")
            for pidx, pg in enumerate(fspec["pgs"], 1):
                obj = ents[pg["obj"]]
                members = [ents[m] for m in pg["members"]]
                kwargs = {"uid": gen.ranked(pg.get("rank", 0)), "association": members[0].association.name}
                if pg.get("named", True):
                    kwargs["name"] = f"pg{pidx}"          # an unnamed group gets PropertyGroup's default name
                group = obj.find_or_create_property_group(**kwargs)
                group.add_properties(members)
                maps["pgs"][pidx] = str(group.uid)
        finally:
            ws.close()
    if len(set(maps["types"].values())) != len(fspec["types"]) or set(maps["types"]) != set(range(1, len(fspec["types"]) + 1)):
        raise MachineryError(f"build: types of the real file {maps['types']} do not match the spec {fspec['types']}")
    return maps


# ----------------------------------------------------------------------------- item discovery
def _addr(obj):
    import h5py
    info = h5py.h5o.get_info(obj.id)
    return (info.fileno, info.addr)


def discover(path):
    """Every deletable single item of the real file: ("attr"|"link", hdf5 path of the owner, name, is_dataset)."""
    import h5py
    out = []
    with h5py.File(path, "r") as h5:
        if list(h5) != [BASE]:
            raise MachineryError(f"unexpected top level {list(h5)}")
        base = h5[BASE]
        canonical = {}
        for flat in ("Data", "Groups", "Objects"):
            if flat in base:
                for key in base[flat]:
                    canonical[_addr(base[flat][key])] = f"/{flat}/{key}"
        if "Types" in base:
            for sub in base["Types"]:
                for key in base["Types"][sub]:
                    canonical[_addr(base["Types"][sub][key])] = f"/Types/{sub}/{key}"

        def rec(grp, rel):
            for key in grp.attrs:
                out.append(("attr", rel, key, False))
            for key in grp:
                obj = grp[key]
                sub = f"{rel}/{key}"
                is_ds = isinstance(obj, h5py.Dataset)
                out.append(("link", rel, key, is_ds))
                if is_ds:
                    for akey in obj.attrs:
                        out.append(("attr", sub, akey, True))
                elif canonical.get(_addr(obj), sub) == sub:
                    rec(obj, sub)

        rec(base, "")
    return out


def spec_item(concrete, maps):
    """Concrete item -> [k, n, a] of the spec, or None when the spec has no such item."""
    kind, rel, key, is_ds = concrete
    parts = rel.split("/")[1:] if rel else []
    node_of = {"{" + u + "}": n for n, u in maps["nodes"].items()}
    type_of = {"{" + u + "}": t for t, u in maps["types"].items()}
    pg_of = {"{" + u + "}": p for p, u in maps["pgs"].items()}
    if not parts:
        if kind == "attr":
            return ["pattr", PROJ, key]
        if key == "Root":
            return ["rootlink", ROOT, "Root"]
        return ["flat", PROJ, key] if key in ("Data", "Groups", "Objects", "Types") and not is_ds else None
    if parts[0] == "Types":
        if len(parts) == 1:
            return ["flat", PROJ, key] if kind == "link" and not is_ds else None
        if len(parts) == 2:
            return ["tentry", type_of[key], ""] if kind == "link" and key in type_of else None
        tidx = type_of.get(parts[2])
        if tidx is None:
            return None
        if len(parts) == 3:
            if kind == "attr":
                return ["tattr", tidx, key]
            return ["tmap", tidx, key] if is_ds else None
        if len(parts) == 4 and kind == "attr":
            return ["tmapattr", tidx, key]
        return None
    if parts[0] in ("Data", "Groups", "Objects"):
        if len(parts) == 1:
            return ["entry", node_of[key], ""] if kind == "link" and key in node_of else None
        nidx = node_of.get(parts[1])
        if nidx is None:
            return None
        if len(parts) == 2:
            if kind == "attr":
                return ["eattr", nidx, key]
            if key == "Type":
                return ["typelink", nidx, "Type"]
            if key == "PropertyGroups":
                return ["pgcont", nidx, key]
            if key == "Concatenated Data":
                return ["cdata", nidx, key]
            if is_ds:
                return ["dataset", nidx, key]
            return ["childcont", nidx, key]
        if parts[2] == "Concatenated Data" and kind == "link":
            return ["cdata", nidx, "/".join(parts[2:] + [key])]
        if len(parts) == 3 and parts[2] == "PropertyGroups":
            return ["pgblock", pg_of[key], ""] if kind == "link" and key in pg_of else None
        if len(parts) == 4 and parts[2] == "PropertyGroups" and kind == "attr" and parts[3] in pg_of:
            return ["pgattr", pg_of[parts[3]], key]
        if len(parts) == 3 and kind == "link" and key in node_of:
            return ["childlink", node_of[key], ""]
    return None


def match_items(path, maps, spec_items):
    """Map spec items <-> concrete items; any mismatch in either direction is a MachineryError."""
    table = {}
    unknown = []
    for conc in discover(path):
        item = spec_item(conc, maps)
        if item is None:
            unknown.append(conc)
            continue
        key = tuple(item)
        if key in table:
            raise MachineryError(f"two concrete items map to the spec item {item}: {table[key]} and {conc}")
        table[key] = conc
    wanted = {tuple(i) for i in spec_items}
    extra = sorted(set(table) - wanted)
    missing = sorted(wanted - set(table))
    if unknown or extra or missing:
        raise MachineryError(
            "the items of the real file and of the specification differ (a new attribute / link must be added "
            f"to ReaderFaults.tla and classified): not mappable {unknown[:5]}, in the file but not in the spec "
            f"{extra[:8]}, in the spec but not in the file {missing[:8]}")
    return table


def delete_item(path, concrete):
    import h5py
    kind, rel, key, _ = concrete
    with h5py.File(path, "r+") as h5:
        owner = h5[BASE + rel] if rel else h5[BASE]
        if kind == "attr":
            del owner.attrs[key]
        else:
            del owner[key]


# ----------------------------------------------------------------------------- projection
def _digest(arr):
    if arr is None:
        return None
    arr = np.asarray(arr)
    if arr.dtype.kind in "OUS":
        payload = repr(arr.tolist()).encode()
    else:
        payload = np.ascontiguousarray(arr).tobytes()
    return [arr.dtype.str, list(arr.shape), hashlib.sha1(payload).hexdigest()[:16]]


def _plain(val):
    if isinstance(val, (str, int, float, bool, type(None))):
        return val
    if isinstance(val, uuid.UUID):
        return str(val)
    if isinstance(val, np.generic):
        return val.item()
    if isinstance(val, np.ndarray):
        return _digest(val)
    if hasattr(val, "name") and hasattr(val, "value"):
        return val.name
    if isinstance(val, (list, tuple)):
        return [_plain(v) for v in val]
    return repr(val)


def _type_proj(etype):
    out = {"cls": type(etype).__name__, "uid": str(etype.uid)}
    for key in ("name", "description", "primitive_type", "units", "hidden", "transparent_no_data", "mapping",
                "number_of_bins", "allow_move_content", "allow_delete_content"):
        if hasattr(etype, key):
            out[key] = _plain(getattr(etype, key))
    if hasattr(etype, "value_map"):
        vmap = etype.value_map
        out["value_map"] = None if vmap is None else {str(k): str(v) for k, v in vmap.map.items()}
    if hasattr(etype, "color_map"):
        cmap = etype.color_map
        out["color_map"] = None if cmap is None else [cmap.name, _digest(cmap.values)]
    return out


def _entity_proj(ent, root_uid):
    from geoh5py.groups import RootGroup
    out = {"cls": type(ent).__name__, "name": ent.name}
    par = ent.parent
    if par is None:
        out["parent"] = None
    elif isinstance(par, RootGroup) or str(par.uid) == root_uid:
        out["parent"] = "ROOT"
    else:
        out["parent"] = str(par.uid)
    out["flags"] = {k: _plain(getattr(ent, k)) for k in
                    ("visible", "public", "allow_delete", "allow_move", "allow_rename", "partially_hidden")}
    out["type"] = _type_proj(ent.entity_type)
    if hasattr(ent, "association") and hasattr(ent, "values"):
        out["association"] = _plain(ent.association)
        out["modifiable"] = _plain(ent.modifiable)
        val = ent.values
        out["values"] = val if isinstance(val, (str, type(None))) else _digest(val)
    elif hasattr(ent, "property_groups"):
        if out["cls"].startswith("Concatenated"):
            # a hole of a drillhole group: its logs and depth tables live in the group's concatenated datasets and
            # are read through the hole, so they are part of the hole's content
            out["collar"] = _plain(np.array(ent.collar.tolist()))
            out["surveys"] = _plain(np.asarray(ent.surveys))
            out["logs"] = {}
            for name in sorted(ent.get_data_list()):
                data = ent.get_data(name)[0]
                out["logs"][name] = [type(data).__name__, _plain(data.association), _digest(data.values),
                                     _type_proj(data.entity_type)]
            out["tables"] = sorted([pg.name, _plain(pg.property_group_type), len(pg.properties or [])]
                                   for pg in (ent.property_groups or []))
            return out
        for key in ("vertices", "cells", "origin", "u_cell_size", "v_cell_size", "u_count", "v_count", "rotation",
                    "vertical", "dip", "last_focus"):
            if hasattr(type(ent), key):
                val = getattr(ent, key)
                if isinstance(val, np.ndarray) and val.dtype.names:
                    val = np.array(val.tolist())
                out[key] = _plain(val)
    return out


def project(ws, root_uid=None):
    """{uid or "PROJECT": projection}. A getter that raises marks that entity as {"raises": True}."""
    if root_uid is None:
        root_uid = str(ws.root.uid)
    view = {"PROJECT": {"version": _plain(ws.version), "distance_unit": _plain(ws.distance_unit),
                        "ga_version": _plain(ws.ga_version),
                        "contributors": [str(c) for c in np.asarray(ws.contributors).tolist()]}}
    objects = list(ws.objects)
    for ent in list(ws.groups) + objects + list(ws.data):
        if type(ent).__name__.startswith("Concatenated") and hasattr(ent, "values"):
            continue            # concatenated data are projected with the hole that owns them
        try:
            view[str(ent.uid)] = _entity_proj(ent, root_uid)
        except Exception as exc:  # pylint: disable=broad-except
            view[str(ent.uid)] = {"raises": type(exc).__name__}
    for obj in objects:     # property groups: what the owning object lists, one entity per group
        if type(obj).__name__.startswith("Concatenated"):
            continue
        for pgroup in obj.property_groups or []:
            try:
                view[str(pgroup.uid)] = {
                    "cls": "PropertyGroup", "name": pgroup.name, "parent": str(pgroup.parent.uid),
                    "association": _plain(pgroup.association), "kind": _plain(pgroup.property_group_type),
                    "properties": sorted(str(p) for p in (pgroup.properties or []))}
            except Exception as exc:  # pylint: disable=broad-except
                view[str(pgroup.uid)] = {"raises": type(exc).__name__}
    return view


def open_and_project(path, root_uid=None):
    """("error", class name) or ("open", view). RecursionError and any Exception are the error outcome."""
    from geoh5py import Workspace
    ws = None
    try:
        ws = Workspace(path, mode="r")
        return "open", project(ws, root_uid)
    except Exception as exc:  # pylint: disable=broad-except
        return "error", type(exc).__name__
    finally:
        if ws is not None:
            try:
                ws.close()
            except Exception:  # pylint: disable=broad-except
                pass


def copy_file(src, dst):
    shutil.copyfile(src, dst)
