"""Independent raw-h5py snapshot of a geoh5 file (never uses geoh5py's reader).

snapshot(file) -> dict with the flat containers, the link graph resolved by HDF5 object address,
attributes, dataset digests;  wellformed(snap) -> list of layout problems (property C02);
node_digests(snap) -> per-node content digests (property C09)."""
from __future__ import annotations

import hashlib
import json

import h5py
import numpy as np

FLAT = ("Groups", "Objects", "Data")
TYPES = ("Data types", "Group types", "Object types")
TYPE_OF = {"Groups": "Group types", "Objects": "Object types", "Data": "Data types"}


def _norm(v):
    if isinstance(v, bytes):
        return v.decode("utf-8", "replace")
    if isinstance(v, np.ndarray):
        if v.dtype.names:
            return [[_norm(x) for x in row] for row in v.tolist()]
        return [_norm(x) for x in v.tolist()]
    if isinstance(v, np.generic):
        return _norm(v.item())
    if isinstance(v, float) and v != v:
        return "nan"
    if isinstance(v, (list, tuple)):
        return [_norm(x) for x in v]
    return v


def _addr(obj):
    return h5py.h5o.get_info(obj.id).addr


def _ds(ds, keep=64):
    try:
        arr = ds[()]
    except Exception as exc:  # pylint: disable=broad-except
        return {"error": type(exc).__name__}
    if isinstance(arr, np.ndarray):
        if arr.dtype.kind == "O" or arr.dtype.names is not None and any(
                arr.dtype[n].kind == "O" for n in arr.dtype.names):
            payload = json.dumps(_norm(arr), sort_keys=True, default=str).encode()
        else:
            payload = arr.tobytes()
        out = {"dtype": str(arr.dtype), "shape": list(arr.shape),
               "sha": hashlib.sha1(payload).hexdigest()[:16]}
        if arr.size <= keep:
            out["value"] = _norm(arr)
        return out
    val = _norm(arr)
    return {"dtype": str(ds.dtype), "shape": [], "sha": hashlib.sha1(repr(val).encode()).hexdigest()[:16],
            "value": val}


def _attrs(obj):
    out = {}
    for k in obj.attrs:
        try:
            out[k] = _norm(obj.attrs[k])
        except Exception as exc:  # pylint: disable=broad-except
            out[k] = f"<unreadable:{type(exc).__name__}>"
    return out


def _uid(name):
    return name.strip("{}").lower()


def snapshot(file) -> dict:
    """file: path or an open h5py.File (the workspace's own handle while it is open)."""
    close = False
    if not isinstance(file, h5py.File):
        file = h5py.File(file, "r")
        close = True
    try:
        return _snapshot(file)
    finally:
        if close:
            file.close()


def _snapshot(f) -> dict:
    snap = {"problems": [], "projects": list(f.keys())}
    if len(f.keys()) != 1:
        snap["problems"].append(f"file has {len(f.keys())} top-level groups")
        if not f.keys():
            return snap
    base = f[list(f.keys())[0]]
    snap["project"] = list(f.keys())[0]
    snap["header"] = _attrs(base)
    snap["containers"] = sorted(k for k in base.keys())
    addr2node = {}
    addr2type = {}
    types = {}
    if "Types" in base and isinstance(base["Types"], h5py.Group):
        for tk in base["Types"]:
            types[tk] = {}
            if not isinstance(base["Types"][tk], h5py.Group):
                continue
            for name in base["Types"][tk]:
                t = base["Types"][tk][name]
                rec = {"attrs": _attrs(t), "datasets": {}, "addr": _addr(t)}
                if isinstance(t, h5py.Group):
                    for dn in t:
                        if isinstance(t[dn], h5py.Dataset):
                            rec["datasets"][dn] = _ds(t[dn])
                types[tk][_uid(name)] = rec
                addr2type.setdefault(_addr(t), []).append((tk, _uid(name)))
    snap["types"] = types
    nodes = {}
    for cont in FLAT:
        nodes[cont] = {}
        if cont not in base or not isinstance(base[cont], h5py.Group):
            continue
        for name in base[cont]:
            link = base[cont].get(name, getlink=True)
            if not isinstance(link, h5py.HardLink):
                snap["problems"].append(f"{cont}/{name} is not a hard link")
                continue
            addr2node.setdefault(_addr(base[cont][name]), []).append((cont, _uid(name)))
    for cont in FLAT:
        if cont not in base or not isinstance(base[cont], h5py.Group):
            continue
        for name in base[cont]:
            h = base[cont][name]
            if not isinstance(h, h5py.Group):
                snap["problems"].append(f"{cont}/{name} is not a group")
                continue
            node = {"attrs": _attrs(h), "links": {}, "pgs": {}, "datasets": {}, "other": [], "type": None,
                    "addr": _addr(h)}
            for k in h:
                link = h.get(k, getlink=True)
                if not isinstance(link, h5py.HardLink):
                    snap["problems"].append(f"{cont}/{name}/{k} is a {type(link).__name__}")
                    continue
                it = h[k]
                if k == "Type":
                    owners = addr2type.get(_addr(it), [])
                    node["type"] = {"same": bool(owners), "owners": owners,
                                    "id": _uid(str(_norm(it.attrs.get("ID", "")))) if isinstance(it, h5py.Group) else None}
                elif k in FLAT and isinstance(it, h5py.Group):
                    node["links"][k] = {}
                    for cn in it:
                        clink = it.get(cn, getlink=True)
                        if not isinstance(clink, h5py.HardLink):
                            node["links"][k][_uid(cn)] = {"same": False, "target": [], "kind": type(clink).__name__}
                            continue
                        tgt = addr2node.get(_addr(it[cn]), [])
                        node["links"][k][_uid(cn)] = {"same": (k, _uid(cn)) in tgt, "target": tgt}
                elif k == "PropertyGroups" and isinstance(it, h5py.Group):
                    for pn in it:
                        node["pgs"][_uid(pn)] = _attrs(it[pn])
                elif isinstance(it, h5py.Dataset):
                    node["datasets"][k] = _ds(it)
                elif k == "Concatenated Data" and isinstance(it, h5py.Group):
                    cat = {"attrs": _attrs(it), "datasets": {}, "Index": {}, "Data": {}}
                    for ck in it:
                        if isinstance(it[ck], h5py.Dataset):
                            cat["datasets"][ck] = _ds(it[ck], keep=4096)
                        elif ck in ("Index", "Data"):
                            for lab in it[ck]:
                                if isinstance(it[ck][lab], h5py.Dataset):
                                    cat[ck][lab] = _ds(it[ck][lab], keep=4096)
                    node["concat"] = cat
                else:
                    node["other"].append(k)
            nodes[cont][_uid(name)] = node
    snap["nodes"] = nodes
    snap["root"] = None
    if "Root" in base:
        link = base.get("Root", getlink=True)
        if isinstance(link, h5py.HardLink):
            owners = addr2node.get(_addr(base["Root"]), [])
            snap["root"] = {"owners": owners}
        else:
            snap["root"] = {"owners": [], "kind": type(link).__name__}
    return snap


def root_uid(snap):
    r = snap.get("root")
    if r and r["owners"]:
        for cont, uid in r["owners"]:
            if cont == "Groups":
                return uid
    return None


def reachable(snap):
    """(container, uid) reachable from Root following child links, as an independent reader must."""
    start = root_uid(snap)
    seen = set()
    if start is None:
        return seen
    stack = [("Groups", start)]
    while stack:
        key = stack.pop()
        if key in seen or key[1] not in snap["nodes"].get(key[0], {}):
            continue
        seen.add(key)
        node = snap["nodes"][key[0]][key[1]]
        for cont, kids in node["links"].items():
            for uid in kids:
                stack.append((cont, uid))
    return seen


def wellformed(snap, allow_unreachable=()) -> list[str]:
    """C02: layout rules of the geoh5 format. Returns a list of problems (empty = valid)."""
    p = list(snap.get("problems", []))
    if len(snap.get("projects", [])) != 1:
        return p + ["not exactly one project group"]
    for c in ("Data", "Groups", "Objects", "Types", "Root"):
        if c not in snap["containers"]:
            p.append(f"missing {c}")
    for tk in TYPES:
        if tk not in snap.get("types", {}):
            p.append(f"missing Types/{tk}")
    if root_uid(snap) is None:
        p.append("Root link does not point to a node of the Groups container")
    seen_uids = {}
    parents = {}
    for cont in FLAT:
        for uid, node in snap["nodes"].get(cont, {}).items():
            if uid in seen_uids:
                p.append(f"identifier {uid} occurs in {seen_uids[uid]} and {cont}")
            seen_uids[uid] = cont
            ida = _uid(str(node["attrs"].get("ID", "")))
            if ida != uid:
                p.append(f"{cont}/{uid}: ID attribute is {ida!r}")
            t = node["type"]
            if (cont, uid) in allow_unreachable:
                # a node already reported as unreachable (recorded finding) is outside the tree a reader sees;
                # its Type link dangles once the last live user of the type is collected
                pass
            elif t is None:
                p.append(f"{cont}/{uid}: no Type link")
            elif not t["same"]:
                p.append(f"{cont}/{uid}: Type is not the same HDF5 object as a node under Types")
            elif not any(tk == TYPE_OF[cont] for tk, _ in t["owners"]):
                p.append(f"{cont}/{uid}: Type link points into {t['owners']}")
            elif t["id"] not in [u for _, u in t["owners"]]:
                p.append(f"{cont}/{uid}: type node stored under {t['owners']} has ID {t['id']}")
            for lc, kids in node["links"].items():
                for cu, info in kids.items():
                    if (cont, uid) in allow_unreachable:
                        continue   # links inside a node already reported as unreachable
                    if not info["same"]:
                        p.append(f"{cont}/{uid}/{lc}/{cu}: not a hard link to the flat node {lc}/{cu} (target {info['target']})")
                    else:
                        parents.setdefault((lc, cu), []).append((cont, uid))
            data_links = set(node["links"].get("Data", {}))
            for pg, attrs in node["pgs"].items():
                props = attrs.get("Properties", [])
                if isinstance(props, str):
                    props = [props]
                for pr in props or []:
                    if _uid(str(pr)) not in data_links:
                        p.append(f"{cont}/{uid}: property group {pg} lists {pr} which is not a data child of the object")
                if _uid(str(attrs.get("ID", ""))) != pg:
                    p.append(f"{cont}/{uid}: property group {pg} has ID {attrs.get('ID')}")
    for tk, tnodes in snap.get("types", {}).items():
        for uid, t in tnodes.items():
            if _uid(str(t["attrs"].get("ID", ""))) != uid:
                p.append(f"Types/{tk}/{uid}: ID attribute is {t['attrs'].get('ID')!r}")
    reach = reachable(snap)
    r = root_uid(snap)
    for cont in FLAT:
        for uid in snap["nodes"].get(cont, {}):
            key = (cont, uid)
            if uid == r and cont == "Groups":
                if parents.get(key):
                    p.append(f"Root has a parent {parents[key]}")
                continue
            n = len(parents.get(key, []))
            if n != 1 and key not in allow_unreachable:
                p.append(f"{cont}/{uid}: {n} parents")
            if key not in reach and key not in allow_unreachable:
                p.append(f"{cont}/{uid}: not reachable from Root")
    return p


def _h(obj):
    return hashlib.sha1(json.dumps(obj, sort_keys=True, default=str).encode()).hexdigest()[:16]


def node_digests(snap) -> dict:
    """Content digests per stored thing: attributes + datasets (+ property-group block) of every entity,
    child-link sets separately, every type node, the project header. Layout is ignored."""
    out = {"header": _h(snap.get("header"))}
    for cont in FLAT:
        for uid, node in snap.get("nodes", {}).get(cont, {}).items():
            out[f"{cont}/{uid}:content"] = _h([node["attrs"], node["datasets"], node["pgs"],
                                               node.get("concat"), node["type"] and node["type"]["owners"]])
            out[f"{cont}/{uid}:links"] = _h({k: sorted(v) for k, v in node["links"].items()})
    for tk, tnodes in snap.get("types", {}).items():
        for uid, t in tnodes.items():
            out[f"Types/{tk}/{uid}:attrs"] = _h(t["attrs"])
            out[f"Types/{tk}/{uid}:datasets"] = _h(t["datasets"])
    return out
