"""Write /verif/evidence/<id>.json (schema /root/.vp/EVIDENCE.schema.json)."""
from __future__ import annotations

import json
from pathlib import Path

VERIF = Path(__file__).resolve().parent.parent


def write(pid: str, tier: str, seed: int, level: str, coverage: dict, wall_s: float,
          violations: int, assumptions: list[str], extra: dict | None = None):
    doc = {
        "property_id": pid,
        "tier": tier,
        "seed": int(seed),
        "level": level,
        "coverage": coverage,
        "assumptions": assumptions,
        "wall_s": round(float(wall_s), 3),
        "violations": int(violations),
    }
    if extra:
        doc.update(extra)
    (VERIF / "evidence").mkdir(exist_ok=True)
    path = VERIF / "evidence" / f"{pid}.json"
    tmp = path.with_suffix(".json.tmp")
    tmp.write_text(json.dumps(doc, indent=1, sort_keys=False, default=str) + "\n")
    tmp.replace(path)
    return path
