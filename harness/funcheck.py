"""Skeleton shared by the function-style specs: TLC enumerates configurations and the outcome the
specification defines for each (and checks the spec-level invariants on them); every configuration
(or a seeded sample) is replayed through the real geoh5py code and compared."""
from __future__ import annotations

import json
import random
import time

from . import tlc
from .pool import pmap


def enumerate_cases(spec_dir, module, cfg, workers=1, timeout=3600, tag="CASE", heap="8g"):
    res = tlc.run_tlc(spec_dir, module, cfg, workers=workers, timeout=timeout, heap=heap)
    if not res.ok:
        raise tlc.MachineryError(
            f"TLC reports {res.violated} on {module}/{cfg}: the specification itself violates its "
            f"invariants (design-level error)\n{res.raw_tail[-1500:]}")
    cases = [obj for t, _, obj in res.lines if t == tag]
    if not cases:
        raise tlc.MachineryError(f"no {tag} lines exported by {module}/{cfg}")
    return res, cases


def expect_violation(spec_dir, module, cfg, invariant, timeout=1800):
    """Negative control: a configuration with a named deviation must violate `invariant`."""
    res = tlc.run_tlc(spec_dir, module, cfg, workers=4, timeout=timeout, keep_lines=False)
    if invariant not in res.violated:
        raise tlc.MachineryError(f"negative control {cfg}: expected {invariant} to be violated, got {res.violated}")
    return res


def sample(cases, n, seed, always=None):
    if n is None or len(cases) <= n:
        return list(cases), True
    rng = random.Random(seed)
    idx = set(rng.sample(range(len(cases)), n))
    if always:
        idx |= {i for i, c in enumerate(cases) if always(c)}
    return [cases[i] for i in sorted(idx)], False


def replay_all(fn, items, procs=None, chunksize=None):
    """fn(item) -> list of violation dicts (possibly empty). Exceptions inside fn are harness errors."""
    t0 = time.time()
    out = pmap(fn, items, procs=procs, chunksize=chunksize)
    viol = [v for r in out for v in (r or [])]
    return viol, time.time() - t0


def short(obj, n=400):
    s = json.dumps(obj, sort_keys=True, default=str)
    return s if len(s) <= n else s[:n] + "..."
