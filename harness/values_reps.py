"""Concrete representatives of the value classes of spec/values/ValueCodec.tla (property C08).

Every class has *boundary* members (always used) and a seeded generator of further members.
`classify_num` / `classify_text` / ... are written independently of the generators and every
generated member is checked against them (a mismatch is a harness error, never a verdict).
"""
from __future__ import annotations

import math
import random
import uuid
from functools import lru_cache

import numpy as np

FLOAT_NDV = 1.17549435e-38  # geoh5py/shared/__init__.py:26 (checked against the library at run time)
INTEGER_NDV = -2147483648  # geoh5py/shared/__init__.py:25
I32MAX = 2 ** 31 - 1
I32MIN = -2 ** 31
F_DT = ("float16", "float32", "float64")
I_DT = ("int8", "int16", "int32", "int64", "uint8", "uint16", "uint32", "uint64")


class RepsError(Exception):
    """A representative does not belong to its class (harness bug)."""


# ----------------------------------------------------------------------------- numeric classes
def _exact_in_f64(n: int) -> bool:
    try:
        return int(float(n)) == n
    except OverflowError:
        return False


def classify_num(dt: str, v) -> str:
    """Class of the python value v (int, float or bool) held in an array of dtype dt."""
    if dt == "bool":
        return "One" if v else "Zero"
    if isinstance(v, float):
        if math.isnan(v):
            return "NaN"
        if math.isinf(v):
            return "PosInf" if v > 0 else "NegInf"
        if v == 0:
            return "Zero"
        if dt == "float64" and v == FLOAT_NDV:
            return "FloatNDV"
        tiny = float(np.finfo(dt).tiny) if dt in F_DT else float(np.finfo("float64").tiny)
        if abs(v) < tiny:
            return "Subnormal"
        if abs(abs(v) - FLOAT_NDV) < 1e-44:
            return "NearNDV"
        if v != math.floor(v):
            return "Frac"
        n = int(v)
        huge_possible = False
    else:
        n = int(v)
        huge_possible = dt in ("int64", "uint64", "object", "list", "py")
    if n in (0, 1, 2):
        return ("Zero", "One", "Two")[n]
    if n == I32MAX:
        return "Int32Max"
    if n == I32MIN + 1:
        return "Int32MinPlus1"
    if n == I32MIN:
        return "IntNDV"
    if 2 < n < I32MAX:
        return "IntSmall"
    if I32MIN + 1 < n < 0:
        return "NegSmall"
    if huge_possible and not _exact_in_f64(n):
        return "IntHuge"
    return "Int32Over" if n > 0 else "Int32Under"


def _cast(dt: str, x) -> float:
    with np.errstate(all="ignore"):
        return float(np.array([x]).astype(dt)[0])


def _num_bounds(dt: str, cls: str) -> list:
    if dt == "bool":
        return {"Zero": [False], "One": [True]}[cls]
    if dt in ("U",):
        return ["1", "1.5", "nan", "-2147483649"]
    if dt in ("S",):
        return [b"1", b"2.5", b"nan"]
    if dt in ("object", "list"):
        return {"One": [1], "Frac": [1.5]}[cls]
    if dt in I_DT:
        info = np.iinfo(dt)
        lo, hi = int(info.min), int(info.max)
        table = {
            "Zero": [0], "One": [1], "Two": [2],
            "IntSmall": [3, 7, 100, 127, 128, 255, 256, 32767, 32768, 65535, 65536, 2 ** 24, 2 ** 24 + 1, 2 ** 31 - 2],
            "NegSmall": [-1, -2, -128, -129, -32768, -32769, -2 ** 24 - 1, -2 ** 31 + 2],
            "Int32Max": [I32MAX], "Int32MinPlus1": [I32MIN + 1], "IntNDV": [I32MIN],
            "Int32Over": [2 ** 31, 2 ** 31 + 1, 2 ** 32 - 1, 2 ** 32, 2 ** 32 + 1, 2 ** 33 + 7, 2 ** 53],
            "Int32Under": [-2 ** 31 - 1, -2 ** 32, -2 ** 32 - 1, -2 ** 32 + 1, -2 ** 53],
            "IntHuge": [2 ** 53 + 1, 2 ** 63 - 1, -(2 ** 53 + 1), -(2 ** 63 - 1), 2 ** 64 - 1],
        }
        return [v for v in table[cls] if lo <= v <= hi]
    # float dtypes
    fi = np.finfo(dt)
    fmax = float(fi.max)
    table = {
        "Zero": [0.0, -0.0], "One": [1.0], "Two": [2.0],
        "NaN": ["<nan>", "<-nan>"], "PosInf": [math.inf], "NegInf": [-math.inf],
        "FloatNDV": [FLOAT_NDV],
        "IntNDV": [float(I32MIN)], "Int32Max": [float(I32MAX)], "Int32MinPlus1": [float(I32MIN + 1)],
    }
    if dt in ("float32", "float64"):
        # classes of the Concat family: float32 numbers around the float32 sentinel (2^-126 itself is F32NDV)
        table.update({
            "F32NDV": [2.0 ** -126],
            "NearNDV32": [2.0 ** -126 + 2.0 ** -149, -(2.0 ** -126), 1.1754942106924411e-38, 2.0 ** -125],
        })
    if dt == "float16":
        table.update({
            "IntSmall": [3.0, 100.0, 2048.0, 65504.0], "NegSmall": [-1.0, -2048.0, -65504.0],
            "Frac": [0.5, -0.5, 0.0999755859375, 1023.5, 6.103515625e-05],
            "Subnormal": [5.960464477539063e-08, 6.097555160522461e-05, -5.960464477539063e-08],
        })
    elif dt == "float32":
        table.update({
            "IntSmall": [3.0, 255.0, 65536.0, 2.0 ** 24, 2.0 ** 24 + 2, 2147483520.0],
            "NegSmall": [-1.0, -2.0 ** 24, -2147483520.0],
            "Frac": [0.5, -0.5, _cast(dt, 0.1), 8388607.5, 1.0000000031710769e-30, 1.00000011920928955078125],
            "Subnormal": [1.401298464324817e-45, 1.1754942106924411e-38, -1.401298464324817e-45],
            "NearNDV": [2.0 ** -126, 2.0 ** -126 + 2.0 ** -149, -(2.0 ** -126)],
            "Int32Over": [2.0 ** 31, 2.0 ** 31 + 256, 2.0 ** 32, _cast(dt, 1e10), 2.0 ** 63, fmax],
            "Int32Under": [-(2.0 ** 31) - 256, -(2.0 ** 32), _cast(dt, -1e10), -fmax],
        })
    else:
        table.update({
            "IntSmall": [3.0, 255.0, 2.0 ** 24 + 1, 2.0 ** 31 - 2],
            "NegSmall": [-1.0, -2.0, -(2.0 ** 31) + 2],
            "Frac": [0.5, -0.5, 0.1, 2147483646.5, 2147483647.5, -2147483648.5, 4503599627370495.5,
                     2.2250738585072014e-308, 1.0000000000000002, 1e-30],
            "Subnormal": [5e-324, -5e-324, 2.225073858507201e-308, 1e-310],
            "NearNDV": [float(np.nextafter(FLOAT_NDV, 0)), float(np.nextafter(FLOAT_NDV, 1)), 2.0 ** -126,
                        -FLOAT_NDV, 1.1754943e-38, 1.1754944e-38],
            "Int32Over": [2.0 ** 31, 2.0 ** 31 + 1, 2.0 ** 32, 2.0 ** 32 + 1, 1e10, 2.0 ** 53, 2.0 ** 63, 1e300, fmax],
            "Int32Under": [-(2.0 ** 31) - 1, -(2.0 ** 32), -(2.0 ** 32) - 1, -1e10, -(2.0 ** 63), -fmax],
        })
    return table[cls]


def _num_random(dt: str, cls: str, rng: random.Random):
    """One further member of the class, or None when the class is a singleton."""
    if dt in I_DT:
        info = np.iinfo(dt)
        lo, hi = int(info.min), int(info.max)
        if cls == "IntSmall":
            top = min(hi, I32MAX - 1)
            return rng.randint(3, top) if rng.random() < 0.5 else min(top, 3 + int(2 ** rng.uniform(0, math.log2(top))))
        if cls == "NegSmall":
            bot = max(lo, I32MIN + 2)
            return -rng.randint(1, -bot)
        if cls == "Int32Over":
            top = min(hi, 2 ** 53)
            return rng.randint(2 ** 31, top) if rng.random() < 0.5 else min(top, int(2 ** rng.uniform(31, math.log2(top))))
        if cls == "Int32Under":
            return -min(2 ** 53, int(2 ** rng.uniform(31, 53))) - 1
        if cls == "IntHuge":
            n = rng.randint(2 ** 53 + 1, hi)
            n |= 1  # odd => not a float64
            return n if lo >= 0 or rng.random() < 0.5 else -n
        return None
    if dt not in F_DT:
        return None
    fi = np.finfo(dt)
    exp_hi = {"float16": 4.0, "float32": 30.0, "float64": 200.0}[dt]
    if cls in ("IntSmall", "NegSmall"):
        top = {"float16": 65504.0, "float32": 2147483520.0, "float64": 2.0 ** 31 - 2}[dt]
        v = float(math.floor(_cast(dt, min(top, 2 ** rng.uniform(1.6, 31)))))
        v = min(max(v, 3.0), top)
        return v if cls == "IntSmall" else (-v if v < 2.0 ** 31 - 2 else -1.0)
    if cls == "Frac":
        for _ in range(50):
            v = _cast(dt, rng.choice((-1, 1)) * 10 ** rng.uniform(-exp_hi, min(exp_hi, 9.0)))
            if math.isfinite(v) and v != math.floor(v) and abs(v) >= float(fi.tiny) and abs(abs(v) - FLOAT_NDV) > 1e-40:
                return v
        return None
    if cls == "Subnormal":
        v = _cast(dt, rng.choice((-1, 1)) * float(fi.tiny) * rng.uniform(0.001, 0.999))
        return v if v != 0 and abs(v) < float(fi.tiny) else None
    if cls in ("Int32Over", "Int32Under") and dt != "float16":
        v = _cast(dt, 10 ** rng.uniform(9.4, exp_hi))
        if not math.isfinite(v) or v < 2.0 ** 31 + 256:
            return None
        v = float(math.floor(v))
        if v < 2.0 ** 31 + 256:
            return None
        return v if cls == "Int32Over" else -v
    if cls == "NearNDV" and dt == "float64":
        v = FLOAT_NDV * (1 + rng.choice((-1, 1)) * rng.uniform(1e-16, 1e-7))
        return v if v != FLOAT_NDV and abs(v - FLOAT_NDV) < 1e-44 else None
    return None


@lru_cache(maxsize=None)
def num_members(dt: str, cls: str, extra: int, seed: int) -> tuple:
    """Boundary members followed by `extra` seeded random members (fewer for singleton classes)."""
    out = list(_num_bounds(dt, cls))
    rng = random.Random(f"{seed}|num|{dt}|{cls}")
    tries = 0
    while len(out) < len(_num_bounds(dt, cls)) + extra and tries < extra * 5:
        tries += 1
        v = _num_random(dt, cls, rng)
        if v is not None and v not in out:
            out.append(v)
    if dt in F_DT + I_DT + ("bool", "object", "list") and cls not in ("F32NDV", "NearNDV32"):
        for v in out:
            got = classify_num(dt, num_value(v))
            if got != cls:
                raise RepsError(f"{v!r} generated for {dt}/{cls} classifies as {got}")
    if not out:
        raise RepsError(f"class {dt}/{cls} has no member")
    return tuple(out)


def num_value(tok):
    """Token -> python value (NaN tokens carry a sign)."""
    if isinstance(tok, str) and tok == "<nan>":
        return math.nan
    if isinstance(tok, str) and tok == "<-nan>":
        return -math.nan
    return tok


def build_array(dt: str, toks):
    """The concrete `values` argument; checks that the container holds exactly the intended values."""
    vals = list(toks) if dt in ("U", "S") else [num_value(t) for t in toks]
    if dt == "list":
        return list(vals)
    if dt == "object":
        return np.array(vals, dtype=object)
    if dt in ("U", "S"):
        return np.array(vals)
    arr = np.array(vals, dtype=dt)
    for a, v in zip(arr.tolist(), vals):
        same = (isinstance(v, float) and math.isnan(v) and isinstance(a, float) and math.isnan(a)) or a == v
        if not same:
            raise RepsError(f"array of {dt} holds {a!r} instead of {v!r}")
    return arr


# ----------------------------------------------------------------------------- text classes
_UUIDS = ["{12345678-1234-1234-1234-123456789abc}", "12345678-1234-1234-1234-123456789ABC",
          "12345678123412341234123456789abc", "{00000000-0000-0000-0000-000000000000}",
          "urn:uuid:12345678-1234-1234-1234-123456789abc"]
_TEXT_BOUNDS = {
    "Ascii": ["a", "Hello, World 123", " lead and trail ", "tab\there\nnewline", "~!@#$%^&*()_+{}|:<>?", "x" * 300],
    "Latin1": ["\u00e9", "caf\u00e9 \u00f1 \u00fc", "\u00a0", "\u00ff", "\u0080"],
    "BMP": ["\u65e5\u672c\u8a9e", "\u03a9\u2248\u221a", "\u20ac", "\uffff", "\u0800", "\ud7ff", "\ue000", "\u0100",
            "\u2028line sep", "\ufeffbom"],
    "Astral": ["\U0001d518", "\U0001f600 emoji", "\U0010ffff", "\U00010000"],
    "Empty": [""],
    "LooksLikeUuid": _UUIDS,
    "NumLike": ["nan", "1.5", "-0", "1e5", "inf", "NaN", "0", "1", "True", "None", "null", "-2147483648"],
    "EmbeddedNul": ["a\x00b", "\x00lead", "two\x00\x00nuls x"],
    "Surrogate": ["\ud800", "a\udfffb"],
    "NonUtf8": [b"\xff", b"ab\xfe", b"\xc3(", b"\xed\xa0\x80", b"\xc0\xaf", b"\xf4\x90\x80\x80"],
    "Quote": ['q"uote', "back\\slash", "new\nline\ttab", "\x01\x1f\x7f", '{"a": [1, null]}', "</script>", "\\u0041"],
    "Unknown": ["Unknown"], "FalseLbl": ["False"], "TrueLbl": ["True"],
    "Bytes": [b"bytes"], "BytesLbl": [b"x"], "IntLbl": [3], "IntSmall": [3],
}
_RANGES = {
    "Ascii": [(0x20, 0x7e)],
    "Latin1": [(0x80, 0xff)],
    "BMP": [(0x100, 0xd7ff), (0xe000, 0xffff)],
    "Astral": [(0x10000, 0x10ffff)],
}


def classify_text(s) -> str:
    if isinstance(s, (bytes, bytearray)):
        try:
            s = bytes(s).decode("utf-8")
        except UnicodeDecodeError:
            return "NonUtf8"
    if not isinstance(s, str):
        return "NotText"
    if s == "":
        return "Empty"
    if any(0xd800 <= ord(ch) <= 0xdfff for ch in s):
        return "Surrogate"
    if "\x00" in s:
        return "EmbeddedNul"
    try:
        uuid.UUID(s)
        return "LooksLikeUuid"
    except ValueError:
        pass
    top = max(ord(ch) for ch in s)
    if top >= 0x10000:
        return "Astral"
    if top >= 0x100:
        return "BMP"
    if top >= 0x80:
        return "Latin1"
    return "Ascii"


def _text_random(cls: str, rng: random.Random):
    if cls in _RANGES:
        n = rng.randint(1, 24)
        chars = []
        for k in range(n):
            if k == 0 or rng.random() < 0.4:
                lo, hi = rng.choice(_RANGES[cls])
                chars.append(chr(rng.randint(lo, hi)))
            else:
                chars.append(chr(rng.randint(0x21, 0x7e)))
        return "".join(chars)
    if cls == "LooksLikeUuid":
        u = str(uuid.UUID(int=rng.getrandbits(128)))
        return rng.choice(["{%s}" % u, u.upper(), u.replace("-", ""), "{%s}" % u.upper()])
    if cls == "NonUtf8":
        return bytes([rng.randint(0x21, 0x7e) for _ in range(rng.randint(0, 5))]) + bytes([rng.choice([0xff, 0xfe, 0xc0, 0x80, 0xf8])])
    if cls == "EmbeddedNul":
        return _text_random("Ascii", rng).strip() + "\x00" + "z"
    if cls == "Quote":
        return _text_random("Ascii", rng) + rng.choice(['"', "\\", "\n", "\r\n", "\x08", "\\u0041", "'"]) + "q"
    return None


@lru_cache(maxsize=None)
def text_members(cls: str, extra: int, seed: int) -> tuple:
    out = list(_TEXT_BOUNDS[cls])
    rng = random.Random(f"{seed}|text|{cls}")
    tries = 0
    while len(out) < len(_TEXT_BOUNDS[cls]) + extra and tries < extra * 5:
        tries += 1
        v = _text_random(cls, rng)
        if v is not None and v not in out:
            out.append(v)
    natural = {"Ascii", "Latin1", "BMP", "Astral", "Empty", "LooksLikeUuid", "EmbeddedNul", "Surrogate", "NonUtf8"}
    for v in out:
        if cls in natural and classify_text(v) != cls:
            raise RepsError(f"{v!r} generated for text class {cls} classifies as {classify_text(v)}")
        if cls in ("NumLike", "Quote") and classify_text(v) != "Ascii":
            raise RepsError(f"{v!r} of {cls} should be plain ASCII text")
    return tuple(out)


# ----------------------------------------------------------------------------- json / blob / map classes
@lru_cache(maxsize=None)
def meta_members(cls: str, extra: int, seed: int) -> tuple:
    rng = random.Random(f"{seed}|meta|{cls}")
    if cls in _TEXT_BOUNDS and cls not in ("IntSmall", "Bytes"):
        return text_members(cls, extra, seed)
    table = {
        "IntSmall": [3, -7, 0, 2 ** 31], "IntHuge": [2 ** 53 + 1, 2 ** 64, -2 ** 70],
        "Frac": [1.5, 0.1, 1e-310, 1.7976931348623157e308, -2.5e-7],
        "NaN": [math.nan], "PosInf": [math.inf], "NegInf": [-math.inf],
        "Uuid": [uuid.UUID("12345678-1234-1234-1234-123456789abc"), uuid.UUID(int=0)],
        "Bytes": [b"x"], "NpInt": [np.int64(3), np.int32(5)],
    }
    out = list(table[cls])
    for _ in range(extra):
        if cls == "IntSmall":
            out.append(rng.randint(-10 ** 9, 10 ** 9))
        elif cls == "IntHuge":
            out.append(rng.choice((-1, 1)) * (rng.getrandbits(90) | (1 << 60) | 1))
        elif cls == "Frac":
            out.append(rng.choice((-1, 1)) * 10 ** rng.uniform(-200, 200) + 0.0)
        elif cls == "Uuid":
            out.append(uuid.UUID(int=rng.getrandbits(128)))
    return tuple(out)


@lru_cache(maxsize=None)
def blob_members(cls: str, extra: int, seed: int) -> tuple:
    rng = random.Random(f"{seed}|blob|{cls}")
    table = {
        "BlobText": [b"hello world", b'{"json": 1}\n'],
        "BlobBinary": [bytes(range(256)), b"\x00\x01\xff\x00a", b"\x89PNG\r\n\x1a\n\x00\x00\x00\rIHDR", b"\xff"],
        "BlobTrailingNul": [b"a\x00", b"data\x00\x00\x00", b"\x00", b"\x00\x00"],
        "BlobLarge": [rng.randbytes(70000)],
        "BlobEmpty": [b""], "StrNotBytes": ["not bytes"], "ByteArray": [bytearray(b"abc")],
    }
    out = list(table[cls])
    for _ in range(extra):
        if cls == "BlobText":
            out.append(bytes(rng.randint(0x20, 0x7e) for _ in range(rng.randint(1, 200))))
        elif cls == "BlobBinary":
            out.append(rng.randbytes(rng.randint(1, 4000)) + b"\x01")
        elif cls == "BlobTrailingNul":
            out.append(rng.randbytes(rng.randint(0, 50)) + b"\x00" * rng.randint(1, 9))
    return tuple(out)


NAME_MEMBERS = {
    "Ascii": ["f.dat", "report final.pdf"], "Latin1": ["r\u00e9sum\u00e9.txt"],
    "BMP": ["\u65e5\u672c.bin"], "Astral": ["\U0001f600.png"],
}

KEY_MEMBERS = {
    "Key0": [0], "Key1": [1],
    "KeySmall": [2, 4, 256, 65536, 2 ** 31 - 1, 2 ** 31, 2 ** 32 - 2],
    "KeyMaxU32": [2 ** 32 - 1],
    "KeyOverU32": [2 ** 32 + 7, 2 ** 32, 2 ** 40 + 9, 2 ** 64 + 3],
    "KeyNeg": [-1, -2 ** 31], "KeyFrac": [1.5, 0.5], "KeyFloatInt": [7.0, 3.0],
    "KeyNpInt": [np.int32(5), np.uint8(9), np.int64(11)], "KeyStr": ["1", "k"],
}


def key_members(cls: str, extra: int, seed: int) -> list:
    out = list(KEY_MEMBERS[cls])
    rng = random.Random(f"{seed}|key|{cls}")
    for _ in range(extra):
        if cls == "KeySmall":
            out.append(2 * rng.randint(6, 2 ** 31 - 2))
        elif cls == "KeyOverU32":
            out.append(2 ** 32 * rng.randint(1, 2 ** 20) + 2 * rng.randint(5000, 2 ** 31) + 1)
        elif cls == "KeyNeg":
            out.append(-rng.randint(1, 2 ** 40))
        elif cls == "KeyNpInt":
            out.append(np.int64(2 * rng.randint(6, 2 ** 30) + 1))
    return out


def wrap32(n: int) -> int:
    """What the named deviation IntCastWraps predicts: two's complement truncation to 32 bits."""
    return (int(n) + 2 ** 31) % 2 ** 32 - 2 ** 31
