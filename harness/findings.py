"""Known findings: a violation is KNOWN only when its signature is listed as open in
/verif/known_findings.json. The file is never written at run time."""
from __future__ import annotations

import hashlib
import json
from pathlib import Path

VERIF = Path(__file__).resolve().parent.parent


def load():
    path = VERIF / "known_findings.json"
    if not path.exists():
        return []
    return json.loads(path.read_text())["findings"]


def open_signatures(pid: str) -> dict:
    return {f["signature"]: f for f in load()
            if f["property"] == pid and f.get("status") == "open"}


def write_replay(pid: str, doc: dict) -> str:
    text = json.dumps(doc, indent=1, sort_keys=True, default=str)
    h = hashlib.sha1(text.encode()).hexdigest()[:12]
    (VERIF / "replays").mkdir(exist_ok=True)
    path = VERIF / "replays" / f"{pid}-{h}.json"
    path.write_text(text + "\n")
    return str(path.relative_to(VERIF))
