"""C10 helpers (1/2): the fixture file, the reflective discovery of the public entry points of
Workspace / every entity class / property groups / entity types present in the fixture, the generic
argument recipes, and the classification of every entry point by its effect in mode r+ on a scratch
copy of the fixture (W = the file content changes, G = getter without effect, N = other call without
effect on the file).  Nothing here decides the property: the classes computed here are the binding
of the abstract alphabet (Read / Write / Probe operations) of spec/readonly/ReadOnly.tla.
"""
from __future__ import annotations

import enum
import hashlib
import inspect
import json
import os
import shutil
import uuid

import numpy as np

from . import h5snap

# entry points that are actions of the specification of their own (bound by readonly_replay, not by rotation)
SPEC_LEVEL = {("Workspace", "close"), ("Workspace", "open"), ("Workspace", "finalize"),
              ("Workspace", "save_as"), ("Workspace", "save")}

HOLDER_KINDS = ("ws", "group", "object", "data", "pgroup", "type")
VERBS = ("get", "set", "create", "remove", "copy", "save", "call")


# ----------------------------------------------------------------------------------------- digests
def sha_file(path) -> str:
    with open(path, "rb") as fh:
        return hashlib.sha256(fh.read()).hexdigest()


def content_digest(file) -> str:
    """Layout-independent digest of the raw file (harness/h5snap.py): attributes, datasets, property-group
    blocks, child-link sets, type nodes, header - never the bytes, never HDF5 addresses."""
    snap = h5snap.snapshot(file)
    dig = h5snap.node_digests(snap)
    extra = {c: {u: sorted(n.get("other", [])) for u, n in snap.get("nodes", {}).get(c, {}).items()}
             for c in h5snap.FLAT}
    blob = json.dumps([dig, extra, snap.get("containers"), snap.get("root"), snap.get("problems")],
                      sort_keys=True, default=str)
    return hashlib.sha256(blob.encode()).hexdigest()


# ----------------------------------------------------------------------------------------- fixture
VERTS = np.arange(12.0).reshape(4, 3)

# minimal creation arguments per class: used to build the fixture AND by the generic `Class.create(ws, ...)` calls
CREATE_KW = {
    "Points": lambda: {"vertices": VERTS.copy()},
    "Curve": lambda: {"vertices": VERTS.copy()},
    "Surface": lambda: {"vertices": VERTS.copy(), "cells": np.array([[0, 1, 2], [1, 2, 3]])},
    "Grid2D": lambda: {"origin": [0, 0, 0], "u_cell_size": 1.0, "v_cell_size": 2.0, "u_count": 2, "v_count": 2},
    "BlockModel": lambda: {"origin": [0, 0, 0], "u_cell_delimiters": np.array([0.0, 1, 2]),
                           "v_cell_delimiters": np.array([0.0, 1]), "z_cell_delimiters": np.array([0.0, 1, 2])},
    "Octree": lambda: {"origin": [0, 0, 0], "u_count": 2, "v_count": 2, "w_count": 2,
                       "u_cell_size": 1.0, "v_cell_size": 1.0, "w_cell_size": 1.0},
    "DrapeModel": lambda: {"layers": np.array([[0, 0, 1.0], [0, 1, 2.0], [1, 0, 1.0], [1, 1, 2.0]]),
                           "prisms": np.array([[0, 0, 0, 0, 2], [1, 0, 0, 2, 2.0]])},
    "GeoImage": lambda: {"image": np.random.RandomState(0).randint(0, 255, (8, 8, 3)).astype("uint8")},
    "Drillhole": lambda: {"collar": [0.0, 0, 0], "surveys": np.array([[0.0, 0, -90], [10, 0, -90]])},
    "CurrentElectrode": lambda: {"vertices": VERTS.copy(), "parts": np.array([0, 0, 1, 1])},
    "PotentialElectrode": lambda: {"vertices": VERTS.copy(), "cells": np.array([[0, 1], [2, 3]], dtype="uint32")},
    "AirborneTEMReceivers": lambda: {"vertices": VERTS.copy()},
    "AirborneTEMTransmitters": lambda: {"vertices": VERTS + 1},
    "MTReceivers": lambda: {"vertices": VERTS.copy()},
    "TipperReceivers": lambda: {"vertices": VERTS.copy()},
    "TipperBaseStations": lambda: {"vertices": VERTS[:1].copy()},
    "AirborneMagnetics": lambda: {"vertices": VERTS.copy()},
}


class _SeededUuid:
    """uuid.uuid4 stand-in while the fixture is built: the uids (hence the locators stored in replay files) are the
    same in every run."""

    def __init__(self, seed):
        import random
        self.rng = random.Random(seed)

    def __call__(self):
        return uuid.UUID(int=self.rng.getrandbits(128), version=4)


def build_fixture(path, full=True, seed=10):
    """full=False (quick tier) leaves out the classes that add no mechanism of their own: GIFtools / no-type / theme groups,
    no-type object, MT, tipper pair, airborne magnetics."""
    old = uuid.uuid4
    uuid.uuid4 = _SeededUuid(seed)
    try:
        return _build_fixture(path, full)
    finally:
        uuid.uuid4 = old


def _build_fixture(path, full):
    """One file with: nested groups (container, SimPEG with options, UIJson, GIFtools, no-type, a drillhole group
    with two concatenated holes, depth + interval + text data and two property groups), objects of 20 classes
    (incl. a DC survey pair, an airborne TEM pair with a property group in its metadata, a tipper pair), data of
    every primitive kind (float with a colour map, integer, text, referenced with a value map, boolean, comments,
    file name), a property group, metadata."""
    from geoh5py import Workspace
    from geoh5py import groups as G
    from geoh5py import objects as O
    from geoh5py.data.color_map import ColorMap

    if os.path.exists(path):
        os.remove(path)
    ws = Workspace.create(path)
    try:
        cg = G.ContainerGroup.create(ws, name="cg")
        sub = G.ContainerGroup.create(ws, name="sub", parent=cg)
        sg = G.SimPEGGroup.create(ws, name="simpeg")
        sg.options = {"a": 1, "forward_only": False}
        ug = G.UIJsonGroup.create(ws, name="uij")
        ug.options = {"title": "t"}
        if full:
            G.GiftoolsGroup.create(ws, name="gif")
            G.NoTypeGroup.create(ws, name="ntg")
            G.AirborneTheme.create(ws, name="theme")

        def mk(cls, name, **kw):
            args = CREATE_KW.get(cls, dict)()
            args.update(kw)
            return getattr(O, cls).create(ws, name=name, **args)

        pts = mk("Points", "pts", parent=cg)
        data = pts.add_data({
            "f": {"values": np.array([1.0, 2, 3, 4])},
            "i": {"values": np.array([1, 2, 3, 4], dtype="int32")},
            "t": {"values": "hello", "type": "text", "association": "OBJECT"},
            "r": {"type": "referenced", "values": np.array([1, 2, 1, 2]), "value_map": {1: "a", 2: "b"}},
            "b": {"values": np.array([True, False, True, False])},
        })
        data[0].entity_type.color_map = ColorMap(
            name="cm.tbl", values=np.array([[0.0, 1, 2], [10, 20, 30], [1, 2, 3], [4, 5, 6], [255, 255, 255]]).T)
        data[0].entity_type.units = "m"
        data[0].entity_type.description = "a float"
        pts.add_data_to_group([data[0], data[1]], "pg")
        pts.add_comment("a comment", author="me")
        pts.metadata = {"k": "v"}
        cg.add_comment("group comment", author="me")
        cur = mk("Curve", "cur", parent=sub)
        cur.add_data({"cd": {"values": np.arange(3.0), "association": "CELL"}})
        mk("Surface", "surf")
        grid = mk("Grid2D", "grid")
        grid.add_data({"gd": {"values": np.arange(4.0)}})
        mk("BlockModel", "bm")
        mk("Octree", "oct")
        mk("Label", "label")
        if full:
            mk("NoTypeObject", "nto")
        mk("DrapeModel", "drape")
        mk("GeoImage", "img")
        dh = mk("Drillhole", "dh")
        dh.add_data({"dd": {"depth": np.array([1.0, 2.0]), "values": np.array([1.0, 2.0])},
                     "ft": {"from-to": np.array([[0.0, 1], [1, 2]]), "values": np.array([3.0, 4.0])}})
        tx = mk("CurrentElectrode", "dc_tx")
        tx.add_default_ab_cell_id()
        rx = mk("PotentialElectrode", "dc_rx")
        rx.ab_cell_id = np.array([1, 2], dtype="int32")
        rx.current_electrodes = tx
        arx = mk("AirborneTEMReceivers", "atem_rx")
        atx = mk("AirborneTEMTransmitters", "atem_tx")
        arx.transmitters = atx
        arx.channels = [1e-3, 2e-3]
        chans = arx.add_data({"c1": {"values": np.arange(4.0)}, "c2": {"values": np.arange(4.0)}})
        arx.edit_metadata({"Property groups": arx.add_data_to_group(chans, "Hz")})
        if full:
            mk("MTReceivers", "mt")
            trx = mk("TipperReceivers", "tip_rx")
            trx.base_stations = mk("TipperBaseStations", "tip_base")
            mk("AirborneMagnetics", "amag")
        dhg = G.DrillholeGroup.create(ws, name="dhg")
        well = mk("Drillhole", "well", parent=dhg, surveys=np.array([[0.0, 0, -90], [10, 0, -90], [20, 0, -80]]))
        well.add_data({"cdd": {"depth": np.array([1.0, 2.0, 3.0]), "values": np.array([1.0, 2.0, 3.0])}},
                      property_group="cpg_d")
        well.add_data({"cft": {"from-to": np.array([[0.0, 1], [1, 2]]), "values": np.array([3.0, 4.0])},
                       "ctx": {"from-to": np.array([[0.0, 1], [1, 2]]), "values": np.array(["a", "b"]),
                               "type": "TEXT"}}, property_group="cpg_i")
        mk("Drillhole", "well2", parent=dhg, collar=[1.0, 0, 0])
    finally:
        ws.close()
    return path


def write_ui_json(path, geoh5_path, obj_uid, data_uid):
    """A ui.json whose "geoh5" is the fixture and whose object/data parameters refer to entities of it."""
    from geoh5py.ui_json import constants, templates
    ui = dict(constants.default_ui_json)
    ui["title"] = "c10"
    ui["geoh5"] = str(geoh5_path)
    ui["object"] = templates.object_parameter(value=str(obj_uid))
    ui["data"] = templates.data_parameter(parent="object", association="Vertex", data_type="Float",
                                          value=str(data_uid))
    with open(path, "w", encoding="utf-8") as fh:
        json.dump(ui, fh, indent=1, default=str)
    return ui


# ----------------------------------------------------------------------------------------- holders
def _kind_of(obj):
    from geoh5py.data import Data
    from geoh5py.groups import Group, PropertyGroup
    from geoh5py.objects import ObjectBase
    from geoh5py.shared.entity_type import EntityType
    from geoh5py.workspace import Workspace
    if isinstance(obj, Workspace):
        return "ws"
    if isinstance(obj, Group):
        return "group"
    if isinstance(obj, ObjectBase):
        return "object"
    if isinstance(obj, Data):
        return "data"
    if isinstance(obj, PropertyGroup):
        return "pgroup"
    if isinstance(obj, EntityType):
        return "type"
    return None


def resolve(ws, loc):
    """Locator -> live object of an open workspace (None when it cannot be found)."""
    how = loc["how"]
    if how == "ws":
        return ws
    if how == "uid":
        return ws.get_entity(uuid.UUID(loc["uid"]))[0]
    if how == "type":
        for t in ws.types:
            if str(t.uid) == loc["uid"]:
                return t
        return None
    if how == "pg":
        for g in ws.property_groups:
            if str(g.uid) == loc["uid"]:
                return g
        return None
    if how == "concat":  # concatenated data / property group: loaded through the hole
        hole = ws.get_entity(uuid.UUID(loc["obj"]))[0]
        if hole is None:
            return None
        if loc.get("pg"):
            for g in hole.property_groups or []:
                if g.name == loc["name"]:
                    return g
            return None
        got = hole.get_data(loc["name"])
        return got[0] if got else None
    raise ValueError(how)


def holders(ws):
    """One representative holder per concrete class present in the file (first by (class, name))."""
    cand = [({"how": "ws"}, ws)]
    for e in ws.groups + ws.objects + ws.data:
        cand.append(({"how": "uid", "uid": str(e.uid)}, e))
    for o in ws.objects:
        if type(o).__name__.startswith("Concatenated"):
            for name in o.get_data_list():
                for d in o.get_data(name):
                    cand.append(({"how": "concat", "obj": str(o.uid), "name": name}, d))
            for g in o.property_groups or []:
                cand.append(({"how": "concat", "obj": str(o.uid), "name": g.name, "pg": True}, g))
    for g in ws.property_groups:
        if not type(g).__name__.startswith("Concatenated"):
            cand.append(({"how": "pg", "uid": str(g.uid)}, g))
    for t in ws.types:
        cand.append(({"how": "type", "uid": str(t.uid)}, t))
    best = {}
    for loc, obj in cand:
        key = type(obj).__name__
        name = str(getattr(obj, "name", ""))
        rank = (_richness(obj), name)
        if key not in best or rank < best[key][0]:
            best[key] = (rank, loc, obj)
    out = []
    for key in sorted(best):
        _, loc, obj = best[key]
        out.append({"cls": key, "hkind": _kind_of(obj), "loc": loc, "name": str(getattr(obj, "name", ""))})
    return out


def _richness(obj):
    """Prefer holders that have children / a colour map / a value map (more entry points become exercisable)."""
    score = 0
    if getattr(obj, "children", None):
        score -= 1
    if getattr(obj, "_color_map", None) is not None or getattr(obj, "_value_map", None) is not None:
        score -= 1
    if _kind_of(obj) == "pgroup":
        score -= len(getattr(obj.parent, "children", None) or [])
    return score


# ----------------------------------------------------------------------------------------- discovery
def _defining(cls, name):
    for k in cls.__mro__:
        if name in k.__dict__:
            return k
    return None


def _verb(kind, name):
    if kind in ("get", "set"):
        return kind
    if name.startswith("copy"):
        return "copy"
    if name.startswith("remove") or name.startswith("delete"):
        return "remove"
    if name.startswith(("add", "create", "find_or_create", "fetch_or_create")):
        return "create"
    if name.startswith(("save", "update", "edit", "set_")):
        return "save"
    return "call"


def discover_class(cls, cls_name, hkind):
    """Every public property getter, property setter and method reachable on an instance of cls."""
    eps = []
    for name in sorted(dir(cls)):
        if name.startswith("_"):
            continue
        dcls = _defining(cls, name)
        if dcls is None:
            continue
        raw = dcls.__dict__[name]
        kinds = []
        if isinstance(raw, property):
            kinds.append("get")
            if raw.fset is not None:
                kinds.append("set")
        elif isinstance(raw, (classmethod, staticmethod)) or callable(raw):
            kinds.append("call")
        for kind in kinds:
            fam = f"{dcls.__name__}.{name}" + ("=" if kind == "set" else "()" if kind == "call" else "")
            eps.append({"id": f"{kind}:{cls_name}.{name}", "cls": cls_name, "dcls": dcls.__name__, "kind": kind,
                        "name": name, "family": fam, "hkind": hkind, "op": f"{hkind}.{_verb(kind, name)}",
                        "spec_level": (dcls.__name__, name) in SPEC_LEVEL})
    return eps


def discover(ws):
    """-> (holders, entry points). Every entry point carries the locator of its holder."""
    hs = holders(ws)
    eps = []
    for h in hs:
        obj = resolve(ws, h["loc"])
        for ep in discover_class(type(obj), h["cls"], h["hkind"]):
            ep["loc"] = h["loc"]
            eps.append(ep)
    return hs, eps


# ----------------------------------------------------------------------------------------- generic arguments
class NotExercisable(Exception):
    """No generic argument is known for this entry point (listed in the evidence, never a verdict)."""


def _variants(cur):
    """Deterministic 'slightly changed' versions of a current value: list of (tag, value)."""
    if isinstance(cur, (bool, np.bool_)):
        return [("not", not bool(cur))]
    if isinstance(cur, enum.Enum):
        members = list(type(cur))
        return [("next", members[(members.index(cur) + 1) % len(members)])]
    if isinstance(cur, (int, np.integer)):
        return [("inc", int(cur) + 1), ("dec", int(cur) - 1)]
    if isinstance(cur, (float, np.floating)):
        base = 0.0 if cur != cur else float(cur)
        return [("inc", base + 1.0), ("half", base * 0.5 + 0.25)]
    if isinstance(cur, str):
        return [("sfx", cur + "_x")]
    if isinstance(cur, uuid.UUID):
        return [("flip", uuid.UUID(int=cur.int ^ 1))]
    if isinstance(cur, np.ndarray):
        out = []
        if cur.size == 0:
            return [("same", cur.copy())]
        if cur.dtype.names is not None:
            if cur.ndim == 0 or cur.shape[0] < 2:
                new = cur.copy()
                first = cur.dtype.names[0]
                new[first] = new[first] + 1
                out.append(("inc0", new))
            else:
                out.append(("rev", cur[::-1].copy()))
        elif cur.dtype.kind == "f":
            inc = cur.copy()
            inc.flat[0] = (0.0 if inc.flat[0] != inc.flat[0] else inc.flat[0]) + 1.0
            out += [("inc0", inc), ("rev", cur[::-1].copy())]
        elif cur.dtype.kind in "iu":
            inc = cur.copy()
            inc.flat[0] += 1
            out += [("rev", cur[::-1].copy()), ("inc0", inc)]
        elif cur.dtype.kind == "b":
            out.append(("not", ~cur))
        else:
            out.append(("rev", cur[::-1].copy()))
        out.append(("same", cur.copy()))
        return out
    if isinstance(cur, (list, tuple)):
        if not cur:
            return [("same", cur)]
        seq = list(cur)
        outs = [("rev", seq[::-1]), ("dup", seq + seq[:1])]
        if all(isinstance(x, (int, float)) and not isinstance(x, bool) for x in seq):
            outs.insert(0, ("app", seq + [seq[-1] + 1]))
        return [(t, type(cur)(v) if isinstance(cur, tuple) else v) for t, v in outs]
    if isinstance(cur, dict):
        new = dict(cur)
        new["c10"] = 1
        return [("add", new)]
    return []


_NONE_PROBES = [("str", "c10"), ("float", 1.5), ("int", 2), ("true", True), ("dict", {"c10": 1})]


def _other_container(ws, holder):
    """A parent the holder could be moved to (another group for groups/objects, another object for data)."""
    from geoh5py.data import Data
    par = getattr(holder, "parent", None)
    if isinstance(holder, Data):
        pool = sorted((o for o in ws.objects if type(o) is type(par) and o is not par), key=lambda o: o.name)
        pool = pool or sorted((o for o in ws.objects if o is not par and type(o).__name__ == "Points"),
                              key=lambda o: o.name)
    else:
        pool = [g for g in sorted(ws.groups, key=lambda g: g.name)
                if g is not par and g is not holder and type(g).__name__ in ("ContainerGroup", "RootGroup")
                and not _is_below(g, holder)]
    return pool[0] if pool else None


def _is_below(g, holder):
    seen = 0
    while g is not None and seen < 50:
        if g is holder:
            return True
        g = getattr(g, "parent", None)
        seen += 1
    return False


def setter_candidates(ws, holder, name):
    """[(tag, value)] for `holder.name = value`, derived from the current value."""
    try:
        cur = getattr(holder, name)
    except Exception:  # pylint: disable=broad-except
        cur = None
    special = []
    if name == "parent":
        other = _other_container(ws, holder)
        if other is not None:
            special.append(("other", other))
    elif name == "color_map" and cur is not None:
        from geoh5py.data.color_map import ColorMap
        vals = np.vstack([cur.values[k] for k in cur.values.dtype.names]).astype(float)
        vals[1] = (vals[1] + 1) % 255
        special.append(("shift", ColorMap(name=str(getattr(cur, "name", "cm")), values=vals)))
    elif name == "value_map" and cur is not None:
        try:
            mp = dict(cur.map) if not isinstance(cur.map, np.ndarray) else {int(k): (v.decode() if isinstance(v, bytes) else str(v)) for k, v in cur.map}
        except Exception:  # pylint: disable=broad-except
            mp = {}
        mp = {int(k): str(v) for k, v in mp.items()}
        mp[7] = "c10"
        special.append(("add", mp))
    elif name == "image" and cur is not None:
        special.append(("flip", np.asarray(cur)[::-1].copy()))
    elif name == "h5file":
        special.append(("other", os.path.join(os.getcwd(), "c10_other.geoh5")))
    out = special + _variants(cur)
    if cur is None:
        out += _NONE_PROBES
    elif not out:
        out.append(("same", cur))
    return out


def _first_child(holder, want=None):
    kids = [c for c in (getattr(holder, "children", None) or []) if want is None or _kind_of(c) == want]
    kids.sort(key=lambda c: (type(c).__name__, str(getattr(c, "name", ""))))
    return kids[0] if kids else None


EXTENT = np.array([[-1e6, -1e6, -1e6], [1e6, 1e6, 1e6]])


def _any(ws, kind):
    pool = {"group": ws.groups, "object": ws.objects, "data": ws.data}[kind]
    pool = sorted(pool, key=lambda e: (type(e).__name__ != {"group": "ContainerGroup", "object": "Points", "data": "FloatData"}[kind], e.name))
    return pool[0]


_COUNTER = [0]


def _fresh(prefix, suffix=""):
    _COUNTER[0] += 1
    return os.path.join(os.getcwd(), f"{prefix}_{os.getpid()}_{_COUNTER[0]}{suffix}")


def _named(ws, name):
    got = [e for e in ws.objects + ws.groups if e.name == name]
    return got[0] if got else None


def _small_file():
    path = os.path.join(os.getcwd(), "c10_payload.txt")
    if not os.path.exists(path):
        with open(path, "w", encoding="utf-8") as fh:
            fh.write("payload")
    return path


def _text_data():
    return {"c10_new": {"values": "x", "type": "text", "association": "OBJECT"}}


def method_candidates(ws, holder, name):
    """[(tag, args, kwargs)] for `holder.name(*args, **kwargs)`: hand table first, then 'no required argument'."""
    hk = _kind_of(holder)
    child = _first_child(holder)
    dchild = _first_child(holder, "data")
    pgs = list(getattr(holder, "property_groups", None) or []) if hk == "object" else []
    ent = holder if hk in ("group", "object", "data") else None
    c = []
    if name == "create":
        if hk in ("group", "object"):
            kw = CREATE_KW.get(type(holder).__name__.replace("Concatenated", "").replace("Concatenator", ""), dict)()
            c.append(("min", (ws,), dict(kw, name="c10_new")))
        elif hk == "ws":
            c.append(("file", (_fresh("c10_created", ".geoh5"),), {}))
        elif hk == "data":
            c.append(("min", (ws,), {"name": "c10_new", "parent": holder.parent, "values": getattr(holder, "values", None),
                                     "association": getattr(holder, "association", None),
                                     "entity_type": holder.entity_type}))
        elif hk == "type":
            c.append(("min", (ws,), {"name": "c10_new_type"}))
    elif name == "fix_up_name":
        c.append(("slash", ("a/b",), {}))
    elif name == "find_or_create_type":
        c.append(("ws", (ws,), {}))
    elif name in ("format_length", "format_type", "format_values"):
        vals = getattr(holder, "values", None)
        if vals is not None:
            c.append(("cur", (vals,), {}))
    elif name == "format_survey_values":
        c.append(("cur", (np.array([[0.0, 0.0, -90.0], [5.0, 0.0, -90.0]]),), {}))
    elif name == "find" and hk == "type":
        c.append(("self", (ws, holder.uid), {}))
    elif name == "find_or_create" and hk == "type":
        kw = {"primitive_type": "FLOAT"} if type(holder).__name__ == "DataType" else {}
        c.append(("new", (ws,), dict(kw, name="c10_type", uid=uuid.UUID(int=10))))
    elif name in ("for_x_data", "for_y_data", "for_z_data"):
        c.append(("ws", (ws,), {}))
    elif name == "validate_data_type":
        c.append(("float", (ws, {"name": "c10_vd", "values": np.array([1.0, 2.0])}), {}))
    elif name == "convert_kwargs":
        c.append(("id", ({"ID": str(holder.uid), "Name": "x"},), {}))
    elif name == "create_custom":
        c.append(("ws", (ws,), {"name": "c10_custom"}))
    elif name == "set_metadata":
        c.append(("pitch", ("pitch", 1.5), {}))
    elif name == "georeference":
        c.append(("sq", (np.array([[0, 0], [8, 0], [8, 8]]),
                         np.array([[0.0, 0.0, 0.0], [8.0, 0.0, 0.0], [8.0, 8.0, 0.0]])), {}))
    elif name == "save_as" and hk == "object":
        c.append(("png", (os.path.basename(_fresh("c10_img", ".png")), os.getcwd()), {}))
    elif name == "fetch_array_attribute":
        c.append(("cells", (_named(ws, "cur"), "cells"), {}))
    elif name == "fetch_concatenated_attributes":
        grp = [g for g in ws.groups if type(g).__name__.startswith("Concatenator")]
        if grp:
            c.append(("grp", (grp[0],), {}))
    elif name == "fetch_file_object":
        fd = sorted((d for d in ws.data if type(d).__name__ == "FilenameData"), key=lambda d: d.name)
        if fd:
            c.append(("img", (fd[0].uid, fd[0].values), {}))
    elif name == "add_comment":
        c.append(("txt", ("a new comment",), {"author": "c10"}))
    elif name == "add_file":
        c.append(("file", (_small_file(),), {}))
    elif name == "add_data":
        n = getattr(holder, "n_vertices", None)
        if type(holder).__name__.endswith("Drillhole"):
            c.append(("depth", ({"c10_new": {"depth": np.array([1.0, 2.0]), "values": np.array([5.0, 6.0])}},), {}))
        if n:
            c.append(("vertex", ({"c10_new": {"values": np.arange(float(n)), "association": "VERTEX"}},), {}))
        c.append(("text", (_text_data(),), {}))
    elif name in ("add_data_to_group", "find_or_create_property_group", "create_property_group"):
        if name == "add_data_to_group" and dchild is not None:
            c.append(("new", (dchild, "c10_pg"), {}))
        if name != "add_data_to_group":
            c.append(("new", (), {"name": "c10_pg"}))
    elif name in ("remove_children", "add_children"):
        if hk == "ws":
            par = _any(ws, "object")
            c.append(("first", (par, [_first_child(par)]), {}))
        elif name == "remove_children" and child is not None:
            c.append(("first", ([child],), {}))
        elif name == "add_children":
            c.append(("other", ([_any(ws, "data") if hk == "object" else _any(ws, "object")],), {}))
    elif name in ("remove_entity", "remove_recursively"):
        if hk == "ws":
            c.append(("obj", (_any(ws, "object"),), {}))  # an object with data and a property group
            leaves = sorted((o for o in ws.objects if not o.children), key=lambda o: o.name)
            if leaves:
                c.append(("leaf", (leaves[0],), {}))
            c.append(("data", (_any(ws, "data"),), {}))
            empty = sorted((g for g in ws.groups if not g.children and type(g).__name__ != "RootGroup"),
                           key=lambda g: g.name)
            if empty:
                c.append(("group", (empty[0],), {}))
        elif child is not None:
            c.append(("first", (child,), {}))
    elif name == "remove_property_group" and pgs:
        c.append(("first", (pgs[0],), {}))
    elif name == "remove_data_from_groups" and dchild is not None:
        c.append(("first", (dchild,), {}))
    elif name == "remove_children_values":
        c.append(("v0", ([0], "VERTEX"), {}))
        c.append(("c0", ([0], "CELL"), {}))
    elif name in ("remove_vertices", "remove_cells"):
        c.append(("i0", ([0],), {}))
    elif name in ("copy_from_extent", "mask_by_extent"):
        c.append(("all", (EXTENT[:, :2] if type(holder).__name__ in ("Grid2D", "GeoImage") else EXTENT,), {}))
        c.append(("all3", (EXTENT,), {}))
    elif name == "copy_to_parent":
        c.append(("obj", (_any(ws, "object"), ws.root), {}))
    elif name in ("save_entity", "register", "str_from_type", "fetch_children", "fetch_property_groups",
                  "fetch_metadata", "fetch_values", "fetch_concatenated_values", "fetch_concatenated_list",
                  "fetch_type"):
        target = _any(ws, "data") if name in ("fetch_values", "fetch_type") else _any(ws, "object")
        if name == "fetch_children":
            c.append(("obj", (target,), {}))
        elif name == "fetch_type":
            c.append(("data", (target.entity_type.uid, "data"), {}))
        elif name.startswith("fetch_concatenated"):
            grp = [g for g in ws.groups if type(g).__name__.startswith("Concatenator")]
            if grp:
                c.append(("grp", (grp[0], "Attributes" if name.endswith("list") else "surveys"), {}))
        else:
            c.append(("ent", (target,), {}))
    elif name == "save_entity_type":
        c.append(("t", (_any(ws, "data").entity_type,), {}))
    elif name == "update_attribute":
        c.append(("attrs", (_any(ws, "object"), "attributes"), {}))
    elif name in ("find_data", "find_entity", "find_group", "find_object", "find_type", "find_property_group",
                  "load_entity"):
        kind = {"find_data": "data", "find_group": "group"}.get(name, "object")
        target = _any(ws, kind)
        if name == "find_type":
            from geoh5py.objects import ObjectType
            c.append(("t", (target.entity_type.uid, ObjectType), {}))
        elif name == "load_entity":
            c.append(("o", (target.uid, "object"), {}))
        elif name == "find_property_group":
            if ws.property_groups:
                c.append(("pg", (ws.property_groups[0].uid,), {}))
        else:
            c.append(("u", (target.uid,), {}))
    elif name in ("get_entity", "get_data", "get_property_group", "get_entity_list"):
        if name == "get_entity_list":
            c.append(("name", (), {}))
        else:
            tgt = (pgs[0] if (name == "get_property_group" and pgs) else dchild or child)
            c.append(("name", (tgt.name if tgt is not None else "nothing",), {}))
    elif name == "reference_to_uid":
        c.append(("child", (child if child is not None else "nothing",), {}))
    elif name == "create_entity":
        from geoh5py.objects import Points
        c.append(("pts", (Points,), {"entity": {"name": "c10_new", "vertices": VERTS.copy()}}))
    elif name == "create_object_or_group":
        from geoh5py.objects import Points
        c.append(("pts", (Points, {"name": "c10_new", "vertices": VERTS.copy()}, {}), {}))
    elif name == "create_data":
        from geoh5py.data import Data
        par = _any(ws, "object")
        c.append(("txt", (Data, {"name": "c10_new", "parent": par, "values": "x", "association": "OBJECT"},
                          {"primitive_type": "TEXT", "name": "c10_new"}), {}))
    elif name == "add_or_update_property_group" and ws.property_groups:
        c.append(("pg", (sorted(ws.property_groups, key=lambda g: g.name)[0],), {}))
    elif name == "remove_none_referents":
        c.append(("objs", (dict(ws._objects), "Objects"), {}))  # pylint: disable=protected-access
    elif name in ("add_properties", "remove_properties"):
        props = list(getattr(holder, "properties", None) or [])
        if name == "remove_properties" and props:
            c.append(("first", (props[0],), {}))
        elif name == "add_properties":
            sib = [d for d in holder.parent.children if _kind_of(d) == "data" and d.uid not in props
                   and getattr(d, "association", None) == getattr(holder, "association", None)]
            sib.sort(key=lambda d: d.name)
            if sib:
                c.append(("sib", (sib[0],), {}))
    elif name in ("edit_metadata", "edit_em_metadata"):
        c.append(("unit", ({"Unit": "Seconds (s)"},), {}))
    elif name == "add_components_data":
        n = getattr(holder, "n_vertices", None) or 1
        c.append(("new", ({"c10_comp": {f"ch{i}": {"values": np.arange(float(n))} for i in (1, 2)}},), {}))
    elif name == "add_ui_json":
        c.append(("n", (), {}))
    elif name == "save_file":
        c.append(("dir", (), {"path": os.getcwd(), "name": os.path.basename(_fresh("c10_saved"))}))
    elif name == "validate_data_association":
        c.append(("obj", ({"association": "OBJECT", "values": "x"},), {}))
    elif name == "add_vertices":
        c.append(("one", (np.array([[9.0, 9.0, 9.0]]),), {}))
    elif name == "desurvey":
        c.append(("d", (np.array([1.0, 2.0]),), {}))
    elif name == "base_refine":
        c.append(("n", (), {}))
    elif name == "to_grid2d" or name == "to_geoimage":
        if name == "to_geoimage" and dchild is not None:
            c.append(("k", (dchild.name,), {}))
        c.append(("n", (), {}))
    elif name == "copy_complement" and ent is not None:
        c.append(("root", (), {"parent": ws.root}))
    elif name in ("save_attribute", "update_attributes", "update_array_attribute", "update_concatenated_attributes",
                  "add_save_concatenated", "delete_index_data", "update_data_index", "get_concatenated_attributes",
                  "fetch_index", "fetch_start_index", "fetch_values", "fetch_concatenated_data_index"):
        holes = sorted((o for o in (getattr(holder, "children", None) or [])), key=lambda o: o.name)
        hole = holes[0] if holes else None
        if hole is not None:
            hd = hole.get_data("cdd") or hole.get_data(hole.get_data_list()[0]) if hole.get_data_list() else []
            dat = hd[0] if hd else None
            if name == "save_attribute":
                c.append(("attrs", ("concatenated_attributes",), {}))
            elif name == "update_attributes":
                c.append(("attrs", (hole, "attributes"), {}))
            elif name == "update_array_attribute":
                c.append(("surveys", (hole, "surveys"), {}))
            elif name in ("update_concatenated_attributes", "add_save_concatenated"):
                c.append(("hole", (hole,), {}))
            elif name == "get_concatenated_attributes":
                c.append(("hole", (hole.uid,), {}))
            elif dat is not None and name in ("fetch_index", "fetch_start_index", "fetch_values"):
                c.append(("dat", (dat, dat.name), {}))
            elif dat is not None and name in ("delete_index_data", "update_data_index"):
                c.append(("dat", (dat.name, hole.uid) if name == "delete_index_data" else (dat,), {}))
            elif name == "fetch_concatenated_data_index":
                c.append(("n", (), {}))
    return c


def n_required(fn):
    try:
        sig = inspect.signature(fn)
    except (TypeError, ValueError):
        return 0
    n = 0
    for p in sig.parameters.values():
        if p.kind in (p.VAR_POSITIONAL, p.VAR_KEYWORD):
            continue
        if p.default is p.empty:
            n += 1
    return n


def candidates(ws, holder, ep):
    """Candidate invocations of an entry point: list of (tag, thunk)."""
    name = ep["name"]
    if ep["kind"] == "get":
        return [("get", lambda: getattr(holder, name))]
    if ep["kind"] == "set":
        return [(tag, (lambda v=val: setattr(holder, name, v))) for tag, val in setter_candidates(ws, holder, name)]
    bound = getattr(holder, name)
    out = [(tag, (lambda a=args, k=kw: bound(*a, **k))) for tag, args, kw in method_candidates(ws, holder, name)]
    if not out and n_required(bound) == 0:
        out.append(("noargs", bound))
    return out


def invoke(ws, holder, ep, tag, memo=None):
    """Run the candidate `tag` of the entry point. -> outcome "ok" | "refused:<Class>"; raises NotExercisable.
    For a setter, memo (a dict) receives the holder, the attribute name and the exact value that was assigned."""
    from geoh5py.workspace import Workspace
    try:
        if ep["kind"] == "set":
            vals = dict(setter_candidates(ws, holder, ep["name"]))
            if tag not in vals:
                raise NotExercisable(f"no candidate {tag}")
            value = vals[tag]
            if memo is not None:
                memo.update(holder=holder, name=ep["name"], value=value)
            thunk = lambda: setattr(holder, ep["name"], value)  # noqa: E731
        else:
            thunk = dict(candidates(ws, holder, ep)).get(tag)
            if memo is not None and ep["kind"] == "call":
                memo["targets"] = _targets(ws, holder, ep["name"], tag)
    except NotExercisable:
        raise
    except Exception as exc:  # the generic argument itself cannot be computed in this state
        raise NotExercisable(f"arguments: {type(exc).__name__}") from exc
    if thunk is None:
        raise NotExercisable(f"no candidate {tag}")
    try:
        res = thunk()
    except Exception as exc:  # pylint: disable=broad-except
        return f"refused:{type(exc).__name__}"
    if isinstance(res, Workspace) and res is not ws:
        try:
            res.close()
        except Exception:  # pylint: disable=broad-except
            pass
    if inspect.isgenerator(res):
        res.close()
    return "ok"


def _targets(ws, holder, name, tag):
    """The stored entities a method call is about: the holder itself and the entities among its arguments, each with
    its data children -> [(uid, class name, holder kind)] (taken before the call)."""
    found = []

    def add(obj):
        if _kind_of(obj) in ("group", "object", "data", "pgroup") and getattr(obj, "uid", None) is not None \
                and type(obj).__name__ != "RootGroup" and all(obj.uid != f.uid for f in found):
            found.append(obj)

    def walk(arg):
        if isinstance(arg, (list, tuple)):
            for a in arg:
                walk(a)
        elif isinstance(arg, dict):
            for a in arg.values():
                walk(a)
        else:
            add(arg)

    add(holder)
    for t, args, kwargs in method_candidates(ws, holder, name):
        if t == tag:
            walk(args)
            walk(kwargs)
    for obj in list(found):
        for child in (getattr(obj, "children", None) or []):
            if _kind_of(child) in ("data", "pgroup"):
                add(child)
    return [(str(o.uid), type(o).__name__, _kind_of(o)) for o in found[:12]]


def repeat(memo):
    """The identical assignment once more (same holder object, same value object)."""
    try:
        setattr(memo["holder"], memo["name"], memo["value"])
    except Exception as exc:  # pylint: disable=broad-except
        return f"refused:{type(exc).__name__}"
    return "ok"


def _same(a, b):
    """Is the value a fresh reader shows the value that was assigned?"""
    try:
        if hasattr(a, "uid") and hasattr(b, "uid"):
            return a.uid == b.uid
        if isinstance(a, np.ndarray) or isinstance(b, np.ndarray):
            a, b = np.asarray(a), np.asarray(b)
            if a.dtype.names or b.dtype.names:
                return a.shape == b.shape and a.tolist() == b.tolist()
            if a.dtype.kind in "fc" and b.dtype.kind in "fciu":
                return a.shape == b.shape and bool(np.array_equal(a, b, equal_nan=True))
            return a.shape == b.shape and bool(np.array_equal(a, b))
        if isinstance(a, dict) and isinstance(b, dict):
            return a.keys() == b.keys() and all(_same(a[k], b[k]) for k in a)
        if isinstance(a, (list, tuple)) and isinstance(b, (list, tuple)):
            return len(a) == len(b) and all(_same(x, y) for x, y in zip(a, b))
        return bool(a == b)
    except Exception:  # pylint: disable=broad-except
        return False


# ----------------------------------------------------------------------------------------- classification in r+
def _release(ws):
    """Drop the HDF5 handle of a scratch workspace without Workspace.close (no final save, no repack)."""
    try:
        handle = ws.geoh5
    except Exception:  # pylint: disable=broad-except
        return
    try:
        handle.close()
    except Exception:  # pylint: disable=broad-except
        pass


def _changed(work, sha0, digest0):
    """Did the CONTENT of the scratch copy change?  Equal bytes => equal content; otherwise the raw digest decides
    (h5py may move bytes without changing the content)."""
    if sha_file(work) == sha0:
        return False
    return content_digest(work) != digest0


# entry points of which EVERY mutating recipe is kept (one bound variant each): what a removal leaves behind in memory
# depends on whether its target has children
MULTI = {"remove_entity", "remove_recursively"}


def _x(ep, note):
    return {"id": ep["id"], "cls": "X", "tag": None, "rplus_out": None, "note": note}


def classify(item):
    """item = (fixture path, pristine content digest, entry point). Classify by the effect in mode r+ on scratch copies:
    candidates are tried in order, each on a fresh copy, until one changes the content of the file.
    -> dict(id, cls in {"W","G","N","X"}, tag, rplus_out, note)."""
    from geoh5py import Workspace
    from .pool import scratch
    fixture, digest0, ep = item
    work = os.path.join(scratch(), "c10_classify.geoh5")
    results = []
    tags = None
    idx = 0
    while True:
        shutil.copyfile(fixture, work)
        sha0 = sha_file(work)
        ws = Workspace(work, mode="r+")
        try:
            holder = resolve(ws, ep["loc"])
            if holder is None:
                return _x(ep, "holder not found")
            if tags is None:
                try:
                    tags = [t for t, _ in candidates(ws, holder, ep)]
                except Exception as exc:  # pylint: disable=broad-except
                    return _x(ep, f"arguments: {type(exc).__name__}: {str(exc)[:80]}")
                if not tags:
                    return _x(ep, "no generic argument known")
            tag = tags[idx]
            memo = {}
            try:
                out = invoke(ws, holder, ep, tag, memo)
            except NotExercisable as exc:
                out = None
                results.append((tag, None, False, str(exc)))
        finally:
            _release(ws)
        if out is not None:
            results.append((tag, out, _changed(work, sha0, digest0), "", memo.get("targets", [])))
        if results[-1][2] and ep["name"] not in MULTI:  # the content changed: mutating, with this recipe
            break
        idx += 1
        if idx >= len(tags) or ep["kind"] == "get":
            break
    hits = [res for res in results if res[2]]
    if hits:
        res = hits[0]
        return {"id": ep["id"], "cls": "W", "tag": res[0], "rplus_out": res[1], "note": "",
                "targets": res[4] if len(res) > 4 else [],
                "variants": [(r[0], r[4] if len(r) > 4 else []) for r in hits[1:]]}
    done = [r for r in results if r[1] is not None]
    if not done:
        return _x(ep, results[-1][3])
    oks = [r for r in done if r[1] == "ok"]
    pick = oks[0] if oks else done[0]
    if ep["kind"] == "set" and pick[1] == "ok" and classify_deferred((fixture, digest0, ep, pick[0])):
        return {"id": ep["id"], "cls": "W", "tag": pick[0], "rplus_out": "ok", "note": "deferred"}
    cls = "G" if (ep["kind"] == "get" and pick[1] == "ok") else "N"
    return {"id": ep["id"], "cls": cls, "tag": pick[0], "rplus_out": pick[1], "note": ""}


def classify_deferred(item):
    """Setters whose write is deferred to Workspace.close (concatenated entities: concatenator.py update_attributes ->
    update_concatenated_attributes, persisted by the final save): item = (fixture, digest0, ep, tag).  The setter is
    'mutating (deferred)' iff, in mode r+, after the assignment and a regular close the content of the file has changed
    AND a fresh read-only workspace shows the assigned value through the same attribute.  (A memory-only setter such as
    `uid`, whose effect merely leaks into the final re-save, does not qualify.)"""
    from geoh5py import Workspace
    from .pool import scratch
    fixture, digest0, ep, tag = item
    work = os.path.join(scratch(), "c10_classify.geoh5")
    shutil.copyfile(fixture, work)
    sha0 = sha_file(work)
    ws = Workspace(work, mode="r+")
    memo = {}
    try:
        holder = resolve(ws, ep["loc"])
        if holder is None or invoke(ws, holder, ep, tag, memo) != "ok":
            return False
        ws.close()
    except Exception:  # pylint: disable=broad-except
        return False
    finally:
        _release(ws)
    if not _changed(work, sha0, digest0):
        return False
    ws = None
    try:
        ws = Workspace(work, mode="r")
        holder = resolve(ws, ep["loc"])
        if holder is None:
            return False
        return _same(getattr(holder, ep["name"]), memo["value"])
    except Exception:  # pylint: disable=broad-except
        return False
    finally:
        if ws is not None:
            _release(ws)


def classify_getters(item):
    """item = (fixture, digest0, [getter entry points of ONE holder]).  All getters of the holder are read in one r+
    session; when the bytes are unchanged afterwards none of them wrote (the usual case) - otherwise every getter
    is classified on its own fresh copy."""
    from geoh5py import Workspace
    from .pool import scratch
    fixture, digest0, eps = item
    if not eps:
        return []
    work = os.path.join(scratch(), "c10_classify.geoh5")
    shutil.copyfile(fixture, work)
    sha0 = sha_file(work)
    ws = Workspace(work, mode="r+")
    outs = []
    try:
        holder = resolve(ws, eps[0]["loc"])
        if holder is None:
            return [_x(ep, "holder not found") for ep in eps]
        for ep in eps:
            outs.append(invoke(ws, holder, ep, "get"))
    finally:
        _release(ws)
    if _changed(work, sha0, digest0):
        return [classify((fixture, digest0, ep)) for ep in eps]
    return [{"id": ep["id"], "cls": "G" if out == "ok" else "N", "tag": "get", "rplus_out": out, "note": ""}
            for ep, out in zip(eps, outs)]
