"""Transition cover by long tours (used by checks/C07.py).

`graph.path_cover` ends a path as soon as the current state has no uncovered outgoing edge; on the
closed state graphs of spec/align that gives tens of thousands of two-step paths, each paying for a
new workspace file.  Here a path that gets stuck walks on (over already covered edges) to the
nearest state that still has an uncovered outgoing edge, so a few thousand long histories cover
every transition."""
from __future__ import annotations

from collections import defaultdict, deque


def tour_cover(edges, init, max_len=40, rng=None, max_hop=6):
    """edges: list of (src, dst, label); init: list of state keys.
    -> (paths as lists of edge indices, number of covered edges, unreachable edge indices)"""
    out = defaultdict(list)
    for i, (s, _, _) in enumerate(edges):
        out[s].append(i)
    if rng is not None:
        for lst in out.values():
            rng.shuffle(lst)
    dist, pred = {}, {}
    dq = deque()
    for s in init:
        if s not in dist:
            dist[s] = 0
            dq.append(s)
    while dq:
        u = dq.popleft()
        for i in out[u]:
            v = edges[i][1]
            if v not in dist:
                dist[v] = dist[u] + 1
                pred[v] = i
                dq.append(v)

    def prefix(u):
        p = []
        while dist[u] > 0:
            i = pred[u]
            p.append(i)
            u = edges[i][0]
        return p[::-1]

    covered = [False] * len(edges)
    todo = {s: [i for i in lst] for s, lst in out.items() if s in dist}  # uncovered out-edges per state

    def take(s):
        lst = todo.get(s)
        while lst:
            i = lst.pop()
            if not covered[i]:
                return i
        return None

    def hop(s, budget):
        """shortest walk (edge indices) from s to a state that still has an uncovered out-edge"""
        seen = {s: None}
        dq2 = deque([(s, 0)])
        while dq2:
            u, d = dq2.popleft()
            if d >= budget:
                continue
            for i in out[u]:
                v = edges[i][1]
                if v in seen:
                    continue
                seen[v] = i
                lst = todo.get(v)
                while lst and covered[lst[-1]]:
                    lst.pop()
                if lst:
                    walk = []
                    while seen[v] is not None:
                        walk.append(seen[v])
                        v = edges[seen[v]][0]
                    return walk[::-1]
                dq2.append((v, d + 1))
        return None

    starts = sorted((s for s in todo), key=lambda s: (dist[s], s))
    if rng is not None:
        rng.shuffle(starts)
        starts.sort(key=lambda s: dist[s])
    paths = []
    for s in starts:
        while True:
            i = take(s)
            if i is None:
                break
            p = prefix(s) + [i]
            covered[i] = True
            cur = edges[i][1]
            while len(p) < max_len:
                j = take(cur)
                if j is None:
                    walk = hop(cur, min(max_hop, max_len - len(p) - 1))
                    if walk is None:
                        break
                    p += walk
                    cur = edges[walk[-1]][1]
                    continue
                covered[j] = True
                p.append(j)
                cur = edges[j][1]
            for j in p:
                covered[j] = True
            paths.append(p)
    unreachable = [i for i in range(len(edges)) if edges[i][0] not in dist]
    return paths, sum(covered), unreachable
