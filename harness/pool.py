"""Process pool whose workers each own a scratch directory (cwd and TMPDIR) outside /repo and /verif."""
from __future__ import annotations

import atexit
import multiprocessing as mp
import os
import shutil
import tempfile

_SCRATCH = None


def scratch() -> str:
    """Scratch directory of this process (created on first use, removed at exit)."""
    global _SCRATCH  # pylint: disable=global-statement
    if _SCRATCH is None or not os.path.isdir(_SCRATCH):
        base = os.environ.get("VERIF_SCRATCH_BASE", "/tmp")
        _SCRATCH = tempfile.mkdtemp(prefix="verif_w_", dir=base)
        os.environ["TMPDIR"] = _SCRATCH
        tempfile.tempdir = _SCRATCH
        os.chdir(_SCRATCH)
        # Workspace.close shells out to h5repack when nodes were deleted; it is not installed in this sandbox and
        # the failure is swallowed by geoh5py. A silent failing stub keeps that behaviour without the stderr noise.
        bindir = os.path.join(_SCRATCH, "bin")
        os.makedirs(bindir, exist_ok=True)
        stub = os.path.join(bindir, "h5repack")
        with open(stub, "w") as fh:
            fh.write("#!/bin/sh\nexit 1\n")
        os.chmod(stub, 0o755)
        os.environ["PATH"] = bindir + os.pathsep + os.environ.get("PATH", "")
        atexit.register(shutil.rmtree, _SCRATCH, True)
    return _SCRATCH


def _init(initfn):
    import gc
    import warnings
    warnings.simplefilter("ignore")
    gc.freeze()  # objects inherited from the parent (TLC graph, ...) are never traversed by gc.collect() again
    scratch()
    if initfn:
        initfn()


def _cleanup(_):
    global _SCRATCH  # pylint: disable=global-statement
    if _SCRATCH:
        shutil.rmtree(_SCRATCH, ignore_errors=True)
        _SCRATCH = None
    return True


def pmap(fn, items, procs=None, chunksize=None, initfn=None):
    """Ordered parallel map. All scratch directories live under one base directory created here and removed before
    returning (worker processes leave through os._exit, so their atexit handlers cannot be relied upon); the caller's
    TMPDIR, tempfile.tempdir, PATH and cwd are restored."""
    global _SCRATCH  # pylint: disable=global-statement
    items = list(items)
    procs = procs or min(int(os.environ.get("VERIF_PROCS", "16")), max(1, len(items)))
    saved = (os.environ.get("TMPDIR"), tempfile.tempdir, os.environ.get("PATH"), os.getcwd(),
             os.environ.get("VERIF_SCRATCH_BASE"), _SCRATCH)
    outer = saved[4] or "/tmp"
    if _SCRATCH and os.path.isdir(_SCRATCH):
        outer = _SCRATCH if not saved[4] else outer
    base = tempfile.mkdtemp(prefix="verif_pool_", dir=outer if os.path.isdir(outer) else "/tmp")
    os.environ["VERIF_SCRATCH_BASE"] = base
    try:
        if procs <= 1 or len(items) <= 1:
            _SCRATCH = None
            _init(initfn)
            try:
                return [fn(x) for x in items]
            finally:
                _cleanup(None)
        ctx = mp.get_context("fork")
        if chunksize is None:
            chunksize = max(1, len(items) // (procs * 8))
        with ctx.Pool(procs, initializer=_init, initargs=(initfn,)) as pool:
            return pool.map(fn, items, chunksize=chunksize)
    finally:
        _SCRATCH = saved[5]
        for key, val in (("TMPDIR", saved[0]), ("PATH", saved[2]), ("VERIF_SCRATCH_BASE", saved[4])):
            if val is None:
                os.environ.pop(key, None)
            else:
                os.environ[key] = val
        tempfile.tempdir = saved[1]
        try:
            os.chdir(saved[3])
        except OSError:
            os.chdir("/")
        shutil.rmtree(base, ignore_errors=True)
