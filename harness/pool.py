"""Process pool whose workers each own a scratch directory (cwd and TMPDIR) outside /repo and /verif."""
from __future__ import annotations

import atexit
import multiprocessing as mp
import os
import shutil
import tempfile

_SCRATCH = None


def scratch() -> str:
    """Scratch directory of this process (created on first use, removed at exit)."""
    global _SCRATCH  # pylint: disable=global-statement
    if _SCRATCH is None or not os.path.isdir(_SCRATCH):
        base = os.environ.get("VERIF_SCRATCH_BASE", "/tmp")
        _SCRATCH = tempfile.mkdtemp(prefix="verif_w_", dir=base)
        os.environ["TMPDIR"] = _SCRATCH
        tempfile.tempdir = _SCRATCH
        os.chdir(_SCRATCH)
        # Workspace.close shells out to h5repack when nodes were deleted; it is not installed in this sandbox and
        # the failure is swallowed by geoh5py. A silent failing stub keeps that behaviour without the stderr noise.
        bindir = os.path.join(_SCRATCH, "bin")
        os.makedirs(bindir, exist_ok=True)
        stub = os.path.join(bindir, "h5repack")
        with open(stub, "w") as fh:
            fh.write("#!/bin/sh\nexit 1\n")
        os.chmod(stub, 0o755)
        os.environ["PATH"] = bindir + os.pathsep + os.environ.get("PATH", "")
        atexit.register(shutil.rmtree, _SCRATCH, True)
    return _SCRATCH


def _init(initfn):
    import gc
    import warnings
    warnings.simplefilter("ignore")
    gc.freeze()  # objects inherited from the parent (TLC graph, ...) are never traversed by gc.collect() again
    scratch()
    if initfn:
        initfn()


def _cleanup(_):
    global _SCRATCH  # pylint: disable=global-statement
    if _SCRATCH:
        shutil.rmtree(_SCRATCH, ignore_errors=True)
        _SCRATCH = None
    return True


def pmap(fn, items, procs=None, chunksize=None, initfn=None):
    """Ordered parallel map. Worker scratch directories are removed before returning."""
    items = list(items)
    procs = procs or min(int(os.environ.get("VERIF_PROCS", "16")), max(1, len(items)))
    if procs <= 1 or len(items) <= 1:
        _init(initfn)
        try:
            return [fn(x) for x in items]
        finally:
            _cleanup(None)
    ctx = mp.get_context("fork")
    if chunksize is None:
        chunksize = max(1, len(items) // (procs * 8))
    with ctx.Pool(procs, initializer=_init, initargs=(initfn,)) as pool:
        res = pool.map(fn, items, chunksize=chunksize)
        pool.map(_cleanup, range(procs * 4), chunksize=1)
    return res
